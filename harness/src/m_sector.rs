//! module `sector` (serves C05, C18: geometry; C01, C02, C07: styled arcs and sectors) — the Sector
//! and Arc primitives: `points()`, `contains()`, `bounding_box()` (streams `sector.points`,
//! `sector.arc`) and `Styled<Arc | Sector, PrimitiveStyle>` (streams `sector.sarc`, `sector.ssector`,
//! described at the end of this header).
//!
//! Streams (op lines; every result line is compared with the Lean model `EG.Model.Sector`):
//!   sector.points x y d start_mdeg sweep_mdeg tag lx ly rx ry
//!       -> ps=<tag,lx,ly,rx,ry as the hook reports them in THIS build> bb=<bounding box>
//!          pts=<Sector::points() list> in=<Sector::contains() bitmap, row-major, over the bounding
//!          box grown by a 2 px margin>
//!   sector.arc    x y d start_mdeg sweep_mdeg tag lx ly rx ry
//!       -> ps=<..> bb=<bounding box> pts=<Arc::points() list>
//!
//! Angles are milli-degrees, converted with `Angle::from_degrees(m as f32 / 1000.0)` exactly like
//! `shapes::mdeg`. For these streams the trigonometry is an INPUT of the model (micromath f32 is never
//! modelled; the fixed-point pipeline is modelled separately and tied by the `sector.consts / sector.trig /
//! sector.fxpoints` streams of the fixed_point build, see below): `tag lx ly rx ry` is what the real
//! `PlaneSector::new(start, sweep)` computed — operation tag (0 intersection, 1 union, 2 entire
//! plane), normal vector of the left half plane, normal vector of the right half plane — obtained
//! through `embedded_graphics::verif_hooks::plane_sector` by the *generator* and written into the op
//! line, so the model works on the same plane sector as the code. `execute` asks the hook again and
//! prints the answer (`ps=`); the model echoes the op line's values, so an op line that was generated
//! by a different feature build shows up as a disagreement in `ps=` instead of a confusing one in
//! `pts=`. Trusted base: f32 / fixed-point trigonometry — validated numerically by the angular
//! oracle below, in both feature builds.
//!
//! Oracle (the property texts as predicates on the real results). Lean statements mirrored:
//!   C05 `sector_points_eq_filter_contains`, `sector_contains_inside_bbox`, `sector_points_nodup`,
//!       `sector_points_row_major`, `sector_points_inside_bbox`;
//!   C18 `sector_full_eq_circle`, `arc_full_eq_ring`, `sector_subset_circle`, `arc_subset_circle`,
//!       `AngularClaim` ([V]: validated here).
//!
//! Metric of the angular claim (C18: "Arc and sector points lie in the circle and inside the swept
//! angle up to 1.5 pixels at its radial boundaries, and every circle point further than that inside
//! the sweep is included (diameters up to 128)"), fixed once:
//!   * doubled coordinates: `delta = 2 p - c2`, `c2 = 2 top_left + (d - 1, d - 1)` is the vector from
//!     the centre of the circle to the centre of pixel `p` in half-pixel units (exact integers);
//!   * the ray of angle `t` has direction `(cos t, sin t)` in screen coordinates (x to the right, y
//!     DOWN): 0 degrees is 3 o'clock and a positive sweep turns clockwise on the screen. This is the
//!     orientation the code implements (`plane_sector.rs` tests: `PlaneSector::new(0°, 90°)` contains
//!     `(10, 10)` and `(0, 10)`); the property text leaves it open;
//!   * the swept angle is `[lo, lo + w]` with `lo = min(start, start + sweep)`, `w = |sweep|`, taken
//!     from the milli-degree integers exactly (f64); `w >= 360` degrees is the whole plane; a pixel is
//!     *inside the sweep* iff `(atan2(dy, dx) - lo) mod 360 <= w` (the centre itself counts as on
//!     both rays);
//!   * distance of a pixel centre to a boundary ray (not the line: the ray starting at the centre):
//!     `|delta x u|` if `delta . u >= 0`, else `|delta|`; in half-pixel units, so 1.5 px = 3.0;
//!   * claim A: every point of `points()` is a circle point (arc: a ring point) that is inside the
//!     sweep or within 1.5 px of one of the two boundary rays;
//!   * claim B: every circle (arc: ring) point inside the sweep and further than 1.5 px from both
//!     boundary rays is in `points()`.
//!   * trigonometric accuracy (the hypothesis `NormalWithin n N eps`, `eps <= 16`, of the Lean theorems
//!     `sector_distance_error` / `sector_angular_partial`): each integer normal is within 16 (of 1024),
//!     componentwise, of the exact `1024 (-sin t, cos t)`; `*:normal-eps-max-milli` reports the
//!     largest deviation seen (1/1000 units).
//!   `sector:tol-needed-milli-px` in the distribution is the largest distance (in 1/1000 px) from
//!   the nearer boundary ray of any pixel whose membership differs from "inside the sweep" — the
//!   smallest tolerance with which the run would still pass.
//!   * accuracy observation, counter `obs:angular-tolerance-needed-above-0.5px` (NOT a failure class: the
//!     property allows 1.5 px, and a check must not demand more than the text): counts ops whose needed
//!     tolerance exceeds 0.5 px (the unchanged tree needs 0.07 px in the f32 build, 0.55 px in the
//!     fixed_point build); together with `sector:tol-needed-milli-px` it makes a loss of trigonometric
//!     accuracy visible in the evidence long before the property fails.
//!
//! Styled arcs and sectors (emitted only for C01, C02, C07; models `EG.Model.StyledArc`,
//! `EG.Model.StyledSector`):
//!   sector.sarc    x y d start_mdeg sweep_mdeg tag lx ly rx ry fill stroke width align tbx tby tbw tbh dx dy
//!   sector.ssector x y d start_mdeg sweep_mdeg tag lx ly rx ry bk bnx bny fill stroke width align tbx tby tbw tbh dx dy
//!       -> ps=<plane sector as the hook reports it now> [bv=<bk,bnx,bny,origin distance as the hook reports them now>]
//!          bb=<styled bounding box> log=<call log of draw() on R2 (native fills); `di:=px` when it is exactly one
//!          draw_iter call with the pixel sequence of px=> m=<final map of draw() on R1 with target box tb; `=px` when its
//!          text equals that of px=> r2eq=<R2 map == R1 map> px=<pixels() sequence in iteration order>
//!          bbd=<styled bounding box of the shape translated by (dx, dy)> sh=<draw() of the translated shape on an
//!          unbounded target == the shifted picture of the original>
//!   `fill stroke width align` as in shapes.rs; `tag lx ly rx ry` = the plane sector (as above); `bk bnx bny` = the bevel
//!   of the radial-line join of a styled sector, the only other value of sector/styled.rs that comes out of
//!   trigonometry: kind (0 none, 1 interior, 2 exterior; decided by `Angle` comparisons) and the normal vector of the
//!   bevel line (`OriginLinearEquation::with_angle`), read from the REAL iterator by the generator through the hook
//!   `StyledPixelsIterator::verif_bevel` (cfg `embedded_graphics_verif`). The origin distance of the bevel line is integer
//!   code: the model computes it, `bv=` compares it. arc/styled.rs needs nothing beyond the plane sector.
//!   Oracles (predicates copied from m_styled.rs; Lean statements mirrored: `EG.C01.Arc`, `EG.C02.Arc`, `EG.C07.Arc`):
//!   C01 draw() on R1 == draw() on R2 == pixels() fed to draw_iter (same target box);
//!   C02 every pixel drawn on an unbounded target lies inside `bounding_box()`; a transparent style draws nothing;
//!   C07 draw() of the translated shape (translate and translate_mut) == the shifted picture, styled bounding box shifted.
//!
//! Streams of the `fixed_point` build only (generated only there; models `EG.Model.FixedReal`, `FixedTrig`,
//! `PlaneSectorNew`: the trigonometry of that build is integer arithmetic and IS modelled). Angles are raw
//! I16F16 bits (`Angle::verif_from_raw` / `verif_raw`); `panic` wherever the real code panics in this build
//! (overflow checks and debug assertions on):
//!   sector.consts
//!       -> c180= c55= c305= c360= <Angle::from_degrees(180.0 | 55.0 | 360.0 - 55.0 | 360.0).verif_raw()>
//!          nm=<modulus of Angle::normalize, observed as (-1 bit).normalize() + 1 bit>
//!   sector.trig raw_start raw_sweep
//!       -> ps=<verif_hooks::plane_sector(start, sweep)> bv=<bevel kind and normal of Styled<Sector>.pixels()>
//!          nz=<start.normalize()> ab=<start.abs()> ng=<-start> ad=<start + sweep> sb=<start - sweep>
//!   sector.fxpoints x y d raw_start raw_sweep
//!       -> ps=<..> bb=<..> pts=<..> in=<..> as sector.points (the model computes the plane sector itself)
//!   Oracle of sector.trig (C18, for angles of at most 8 turns): the `EntirePlane` tag iff |sweep| >= 360 degrees
//!   (the raw angle read as radians, +-2 bits at the limit), Union iff >= 180 degrees; each normal within 16 (of
//!   1024) of the exact `1024 (-sin t, cos t)` of the boundary's true angle `t = raw / 65536` rad.
//!   The relation between a user's f32 degrees and the raw bits (`Angle::from_degrees`) is outside the model.
use crate::common::*;
use crate::shapes::{parse_style, Style};
use embedded_graphics::{
    geometry::Angle,
    pixelcolor::Rgb565,
    prelude::*,
    primitives::{Arc, Circle, ContainsPoint, OffsetOutline, Rectangle, Sector, Styled},
    verif_hooks,
};

pub struct M;

/// this harness was built against the `fixed_point` feature of the library
const FIXED: bool = cfg!(feature = "fixed_point");

/// the tolerance of the property text: 1.5 px = 3.0 half-pixel units
const TOL_2X: f64 = 3.0;
/// Accuracy observation threshold (NOT a clause of C18, stricter than its text): 0.5 px = 1.0 half-pixel
/// units. The current tree needs 0.07 px (f32) / 0.55 px (fixed_point, on half-degree angles at d = 128).
const GUARD_2X: f64 = 1.0;
/// Evidence counter of the guard (an observation, never a failure: C18 allows 1.5 px).
const GUARD_CLASS: &str = "obs:angular-tolerance-needed-above-0.5px";

fn mdeg(m: i32) -> Angle {
    Angle::from_degrees(m as f32 / 1000.0)
}

fn hook(start: i32, sweep: i32) -> (u8, [i32; 2], [i32; 2]) {
    verif_hooks::plane_sector(mdeg(start), mdeg(sweep))
}

fn op_line(stream: &str, x: i64, y: i64, d: i64, start: i64, sweep: i64) -> String {
    let (tag, l, r) = hook(start as i32, sweep as i32);
    format!("sector.{} {} {} {} {} {} {} {} {} {} {}", stream, x, y, d, start, sweep, tag, l[0], l[1], r[0], r[1])
}

/// Exact (f64) geometry of the swept angle in doubled coordinates.
struct Sweep {
    lo_deg: f64,
    w_deg: f64,
    u0: (f64, f64), // direction of the ray at `start`
    u1: (f64, f64), // direction of the ray at `start + sweep`
}
impl Sweep {
    fn new(start_mdeg: i32, sweep_mdeg: i32) -> Self {
        let s = start_mdeg as f64 / 1000.0;
        let e = (start_mdeg as f64 + sweep_mdeg as f64) / 1000.0;
        let dir = |deg: f64| {
            let r = deg.to_radians();
            (r.cos(), r.sin())
        };
        Sweep { lo_deg: s.min(e), w_deg: (sweep_mdeg as f64 / 1000.0).abs(), u0: dir(s), u1: dir(e) }
    }
    fn full(&self) -> bool {
        self.w_deg >= 360.0
    }
    fn inside(&self, dx: i64, dy: i64) -> bool {
        if self.full() || (dx == 0 && dy == 0) {
            return true;
        }
        let a = (dy as f64).atan2(dx as f64).to_degrees();
        (a - self.lo_deg).rem_euclid(360.0) <= self.w_deg
    }
    fn ray_dist(u: (f64, f64), dx: i64, dy: i64) -> f64 {
        let (x, y) = (dx as f64, dy as f64);
        if x * u.0 + y * u.1 >= 0.0 {
            (x * u.1 - y * u.0).abs()
        } else {
            (x * x + y * y).sqrt()
        }
    }
    /// distance (half-pixel units) to the nearer boundary ray
    fn boundary_dist(&self, dx: i64, dy: i64) -> f64 {
        Self::ray_dist(self.u0, dx, dy).min(Self::ray_dist(self.u1, dx, dy))
    }
}

fn note_max(ctx: &mut Ctx, key: &str, v: u64) {
    let e = ctx.counters.entry(key.to_string()).or_insert(0);
    if v > *e {
        *e = v;
    }
}

/// The angular claim (A and B of the module header) for one shape. `base` = the circle (sector) or
/// ring (arc) points, `pts` = the shape's `points()`; both row-major. `kind` = "sector" / "arc".
#[allow(clippy::too_many_arguments)]
fn angular_oracle(
    ctx: &mut Ctx,
    kind: &str,
    tl: Point,
    d: u32,
    start: i32,
    sweep: i32,
    ps: (u8, [i32; 2], [i32; 2]),
    base: &[Point],
    pts: &[Point],
) {
    let sw = Sweep::new(start, sweep);
    let c2x = 2 * tl.x as i64 + d as i64 - 1;
    let c2y = 2 * tl.y as i64 + d as i64 - 1;
    let set: std::collections::HashSet<(i32, i32)> = pts.iter().map(|p| (p.x, p.y)).collect();
    let mut outside: Option<(Point, f64)> = None; // claim A
    let mut missing: Option<(Point, f64)> = None; // claim B
    let mut needed = 0.0f64;
    for p in base {
        let (dx, dy) = (2 * p.x as i64 - c2x, 2 * p.y as i64 - c2y);
        let member = set.contains(&(p.x, p.y));
        let inside = sw.inside(dx, dy);
        if member == inside {
            continue;
        }
        let bd = sw.boundary_dist(dx, dy);
        if bd > needed {
            needed = bd;
        }
        if bd > TOL_2X {
            if member {
                if outside.map_or(true, |(_, b)| bd > b) {
                    outside = Some((*p, bd));
                }
            } else if missing.map_or(true, |(_, b)| bd > b) {
                missing = Some((*p, bd));
            }
        }
    }
    // Mechanism classes. A sweep so small that the two half planes get PARALLEL integer normal
    // vectors (always for sweep 0; below ~0.06 degrees in the f32 build, below 1 degree in the
    // fixed_point build, which rounds angles to whole degrees) made `Operation::Intersection` of
    // `distance <= 0` and `distance >= 0` the whole LINE through the centre: the points on the ray
    // OPPOSITE to the sweep were accepted too (found by this oracle, witness in corpus/C18.ops,
    // repaired in /repo by the bisector test of `PlaneSector::contains`). That mechanism keeps its
    // own key; it is recognised by the plane sector the code computed (intersection tag, normals
    // parallel and equally directed) and by the offending point lying on that line.
    let (l, r) = (ps.1, ps.2);
    let degenerate_line = ps.0 == 0
        && l[0] as i64 * r[1] as i64 - l[1] as i64 * r[0] as i64 == 0
        && l[0] as i64 * r[0] as i64 + l[1] as i64 * r[1] as i64 > 0;
    let on_line = |p: Point| (2 * p.x as i64 - c2x) * l[0] as i64 + (2 * p.y as i64 - c2y) * l[1] as i64 == 0;
    let class_a = if degenerate_line && outside.map_or(false, |(p, _)| on_line(p)) {
        format!("C18:{}-degenerate-sweep-accepts-opposite-ray", kind)
    } else {
        format!("C18:{}-point-outside-sweep", kind)
    };
    note_max(
        ctx,
        &format!("{}:tol-needed-milli-px{}", kind, if degenerate_line { "(degenerate sweep)" } else { "" }),
        (needed * 500.0).ceil() as u64,
    );
    // The hypothesis of the Lean theorems `sector_distance_error` / `sector_angular_partial`
    // (`NormalWithin n N eps`, eps <= 16): the integer normals the code computed are within `eps`,
    // componentwise, of the exact scaled normals `1024 (-sin t, cos t)` of the two boundary rays
    // (right half plane: the lower end of the sweep, left half plane: the upper end).
    if ps.0 != 2 {
        let exact = |deg: f64| {
            let t = deg.to_radians();
            (-1024.0 * t.sin(), 1024.0 * t.cos())
        };
        let (nr, nl) = (exact(sw.lo_deg), exact(sw.lo_deg + sw.w_deg));
        let eps = (l[0] as f64 - nl.0)
            .abs()
            .max((l[1] as f64 - nl.1).abs())
            .max((r[0] as f64 - nr.0).abs())
            .max((r[1] as f64 - nr.1).abs());
        note_max(ctx, &format!("{}:normal-eps-max-milli", kind), (eps * 1000.0).ceil() as u64);
        ctx.expect(eps <= 16.0, &format!("C18:tie-hypothesis:{}-normal-vector-inaccurate", kind), || {
            format!("normals {:?} {:?} deviate by {:.3} (of 1024) from the exact ones", l, r, eps)
        });
    }
    if ctx.pid == "C18" && needed > GUARD_2X {
        // observation only (evidence counter): the property allows 1.5 px, so this is no failure
        ctx.count(GUARD_CLASS);
    }
    ctx.expect(outside.is_none(), &class_a, || {
        let (p, b) = outside.unwrap();
        format!("{:?} is {:.3} px from the nearer boundary ray, outside the sweep", p, b / 2.0)
    });
    ctx.expect(missing.is_none(), &format!("C18:{}-misses-point-inside-sweep", kind), || {
        let (p, b) = missing.unwrap();
        format!("{:?} is {:.3} px inside the sweep but not a point", p, b / 2.0)
    });
}

struct Args {
    tl: Point,
    d: u32,
    start: i32,
    sweep: i32,
    ps_op: (u8, [i32; 2], [i32; 2]),
}
fn parse_args(t: &mut Toks) -> Args {
    let tl = t.point();
    let d = t.u32();
    let start = t.i32();
    let sweep = t.i32();
    let tag = t.u32() as u8;
    let l = [t.i32(), t.i32()];
    let r = [t.i32(), t.i32()];
    Args { tl, d, start, sweep, ps_op: (tag, l, r) }
}
fn fmt_ps(ps: (u8, [i32; 2], [i32; 2])) -> String {
    format!("{},{},{},{},{}", ps.0, ps.1[0], ps.1[1], ps.2[0], ps.2[1])
}

fn count_shape(ctx: &mut Ctx, kind: &str, a: &Args, ps: (u8, [i32; 2], [i32; 2])) {
    ctx.count(kind);
    ctx.count(&format!(
        "{}:{}",
        kind,
        match ps.0 {
            0 => "intersection",
            1 => "union",
            _ => "entire-plane",
        }
    ));
    ctx.count(&format!(
        "{}:d{}",
        kind,
        match a.d {
            0..=4 => "<=4",
            5..=24 => "<=24",
            25..=64 => "<=64",
            _ => ">64",
        }
    ));
    if a.sweep < 0 {
        ctx.count(&format!("{}:negative-sweep", kind));
    }
    if a.start % 1000 != 0 || a.sweep % 1000 != 0 {
        ctx.count(&format!("{}:fractional-angle", kind));
    }
    if ps.0 == 0 && ps.1[0] as i64 * ps.2[1] as i64 == ps.1[1] as i64 * ps.2[0] as i64 {
        ctx.count(&format!("{}:intersection-parallel-normals", kind));
    }
    if ps != a.ps_op {
        // the op line was generated under a different trigonometry (other feature build)
        ctx.count(&format!("{}:op-line-plane-sector-stale", kind));
    }
}

// ---------------------------------------------------------------------------------------------
// Styled arcs and sectors (C01, C02, C07).
// ---------------------------------------------------------------------------------------------

/// `bk bnx bny origin_distance` of the styled sector, from the real iterator.
fn bevel_hook(tl: Point, d: u32, start: i32, sweep: i32, style: &Style) -> (u8, [i32; 2], i32) {
    Styled::new(Sector::new(tl, d, mdeg(start), mdeg(sweep)), *style).pixels().verif_bevel()
}

fn parse_style_str(st: &str) -> Style {
    parse_style(&mut Toks::new(st))
}

/// op line of a styled arc (`kind` = "sarc") or sector ("ssector"); `st` = the four style tokens.
#[allow(clippy::too_many_arguments)]
fn styled_op_line(kind: &str, x: i64, y: i64, d: i64, start: i64, sweep: i64, st: &str, tb: (i64, i64, i64, i64), dd: (i64, i64)) -> String {
    let mut s = op_line(kind, x, y, d, start, sweep);
    if kind == "ssector" {
        let style = parse_style_str(st);
        let (bk, bn, _) = bevel_hook(Point::new(x as i32, y as i32), d as u32, start as i32, sweep as i32, &style);
        s.push_str(&format!(" {} {} {}", bk, bn[0], bn[1]));
    }
    s.push_str(&format!(" {} {} {} {} {} {} {}", st, tb.0, tb.1, tb.2, tb.3, dd.0, dd.1));
    s
}

type PxSeq = Vec<((i32, i32), u32)>;

/// What the styled streams observe of one styled shape on the real code.
struct StyledObs {
    m1: PMap,       // draw() on R1 (draw_iter only), target box tb
    m2: PMap,       // draw() on R2 (native fills), target box tb
    log2: Vec<Call>, // call log of R2
    mp: PMap,       // pixels() fed to draw_iter of an R1 with box tb
    px: PxSeq,      // pixels() in iteration order
    mu: PMap,       // draw() on an unbounded R1
    md: PMap,       // draw() of `translate(dd)` on an unbounded R1
    mm: PMap,       // draw() after `translate_mut(dd)` on an unbounded R1
    bb: Rectangle,  // styled bounding box
    bbd: Rectangle, // ... of the translated shape
    bbm: Rectangle, // ... after translate_mut
}

macro_rules! observe_styled {
    ($prim:expr, $style:expr, $tb:expr, $dd:expr) => {{
        let s = Styled::new($prim, $style);
        let mut r1 = R1::<Rgb565>::new($tb);
        s.draw(&mut r1).unwrap();
        let mut r2 = R2::<Rgb565>::new($tb);
        s.draw(&mut r2).unwrap();
        let mut rp = R1::<Rgb565>::new($tb);
        rp.draw_iter(s.pixels()).unwrap();
        let px: PxSeq = s.pixels().map(|Pixel(p, c)| ((p.x, p.y), c.num())).collect();
        let mut ru = R1::<Rgb565>::unbounded();
        s.draw(&mut ru).unwrap();
        let sd = s.translate($dd);
        let mut sm = s.clone();
        sm.translate_mut($dd);
        let mut rd = R1::<Rgb565>::unbounded();
        sd.draw(&mut rd).unwrap();
        let mut rm = R1::<Rgb565>::unbounded();
        sm.draw(&mut rm).unwrap();
        StyledObs {
            m1: r1.rec.map,
            m2: r2.rec.map,
            log2: r2.rec.log,
            mp: rp.rec.map,
            px,
            mu: ru.rec.map,
            md: rd.rec.map,
            mm: rm.rec.map,
            bb: s.bounding_box(),
            bbd: sd.bounding_box(),
            bbm: sm.bounding_box(),
        }
    }};
}

fn fmt_px(px: &PxSeq) -> String {
    if px.is_empty() {
        return "-".into();
    }
    let mut s = String::new();
    for (i, ((x, y), c)) in px.iter().enumerate() {
        if i > 0 {
            s.push(';');
        }
        s.push_str(&format!("{},{},{}", x, y, c));
    }
    s
}

fn fmt_call_log(log: &[Call]) -> String {
    if log.is_empty() {
        return "-".into();
    }
    log.iter().map(|c| c.fmt()).collect::<Vec<_>>().join("|")
}

/// The C01 / C02 / C07 oracles (predicate logic of m_styled.rs) and the result text after `ps=`/`bv=`.
fn styled_report(ctx: &mut Ctx, op: &str, kind: &str, o: &StyledObs, style: &Style, tb: Rectangle, dd: Point) -> String {
    let transparent = style.fill_color.is_none() && (style.stroke_color.is_none() || style.stroke_width == 0);
    ctx.count(&format!(
        "{}:colours:{}{}",
        kind,
        if style.fill_color.is_some() { "fill" } else { "-" },
        if style.stroke_color.is_some() { "+stroke" } else { "" }
    ));
    ctx.count(&format!("{}:width{}", kind, match style.stroke_width { 0 => "=0", 1 => "=1", 2..=3 => "<=3", _ => ">3" }));
    ctx.count(&format!("{}:align:{:?}", kind, style.stroke_alignment));
    if tb.is_zero_sized() {
        ctx.count(&format!("{}:empty-target", kind));
    } else if tb.size.width < 100 {
        ctx.count(&format!("{}:clipping-target", kind));
    }
    if dd != Point::zero() {
        ctx.count(&format!("{}:translated", kind));
    }
    if transparent {
        ctx.count(&format!("{}:transparent", kind));
    }
    let nontrivial = match ctx.pid.as_str() {
        "C01" => !o.m1.is_empty(),
        "C02" => !o.mu.is_empty() || transparent,
        "C07" => !o.mu.is_empty() && dd != Point::zero(),
        _ => !o.mu.is_empty(),
    };
    if nontrivial {
        ctx.nontrivial(op);
    }
    // C01: one image whichever drawing path the target offers
    ctx.expect(o.m1 == o.m2, &format!("C01:native-vs-default:{}", kind), || format!("R1 {} px, R2 {} px", o.m1.len(), o.m2.len()));
    ctx.expect(o.m1 == o.mp, &format!("C01:pixels-vs-draw:{}", kind), || {
        let only_draw = o.m1.iter().filter(|(k, v)| o.mp.get(k) != Some(v)).count();
        let only_px = o.mp.iter().filter(|(k, v)| o.m1.get(k) != Some(v)).count();
        format!("draw() {} px, pixels() {} px, {} only/different in draw, {} only/different in pixels", o.m1.len(), o.mp.len(), only_draw, only_px)
    });
    // C02: everything drawn lies inside bounding_box(); a transparent style draws nothing
    let out: Vec<_> = o.mu.keys().filter(|(y, x)| !o.bb.contains(Point::new(*x, *y))).collect();
    ctx.expect(out.is_empty(), &format!("C02:outside-bbox:{}", kind), || {
        format!("{} of {} px outside bounding_box {} e.g. ({},{})", out.len(), o.mu.len(), fmt_rect(&o.bb), out[0].1, out[0].0)
    });
    let out_px = o.px.iter().filter(|((x, y), _)| !o.bb.contains(Point::new(*x, *y))).count();
    ctx.expect(out_px == 0, &format!("C02:pixels-outside-bbox:{}", kind), || format!("{} of {} pixels() items outside bounding_box {}", out_px, o.px.len(), fmt_rect(&o.bb)));
    if transparent {
        ctx.expect(o.mu.is_empty() && o.px.is_empty(), &format!("C02:transparent-draws:{}", kind), || {
            format!("{} px drawn, {} pixels() items with a transparent style", o.mu.len(), o.px.len())
        });
    }
    // C07: translation commutes with drawing
    let want: PMap = o.mu.iter().map(|((y, x), c)| ((y + dd.y, x + dd.x), *c)).collect();
    let shifted = o.md == want;
    ctx.expect(shifted, &format!("C07:draw-not-shifted:{}", kind), || {
        let diff = o.md.iter().filter(|(k, v)| want.get(k) != Some(v)).count() + want.iter().filter(|(k, v)| o.md.get(k) != Some(v)).count();
        format!("{} px vs {} px, {} differing entries", o.md.len(), want.len(), diff)
    });
    ctx.expect(o.mm == o.md && o.bbm == o.bbd, &format!("C07:translate-mut-differs:{}", kind), || "translate_mut and translate give different pictures / boxes".into());
    if !o.bb.is_zero_sized() {
        ctx.expect(o.bbd == Rectangle::new(o.bb.top_left + dd, o.bb.size), &format!("C07:bbox-not-shifted:{}", kind), || format!("{} -> {}", fmt_rect(&o.bb), fmt_rect(&o.bbd)));
    } else {
        ctx.expect(o.bbd.is_zero_sized(), &format!("C07:bbox-not-shifted:{}", kind), || format!("{} -> {}", fmt_rect(&o.bb), fmt_rect(&o.bbd)));
    }
    let px_text = fmt_px(&o.px);
    let log_text = if o.log2.len() == 1 && o.log2[0] == Call::DrawIter(o.px.clone()) { "di:=px".to_string() } else { fmt_call_log(&o.log2) };
    let m_text = {
        let t = fmt_map(&o.m1);
        if t == px_text {
            "=px".to_string()
        } else {
            t
        }
    };
    format!(
        "bb={} log={} m={} r2eq={} px={} bbd={} sh={}",
        fmt_rect(&o.bb),
        log_text,
        m_text,
        (o.m1 == o.m2) as u8,
        px_text,
        fmt_rect(&o.bbd),
        shifted as u8
    )
}

/// 64-bit mix for the deterministic grid sampling (independent of the seeded Rng).
fn mix(a: u64, b: u64, c: u64) -> u64 {
    let mut h = a.wrapping_mul(0x9E37_79B9_7F4A_7C15) ^ b.wrapping_mul(0xC2B2_AE3D_27D4_EB4F) ^ c.wrapping_mul(0x1656_67B1_9E37_79F9);
    h ^= h >> 29;
    h = h.wrapping_mul(0xBF58_476D_1CE4_E5B9);
    h ^= h >> 32;
    h
}

/// Generator of the styled streams (pid in {C01, C02, C07}).
fn generate_styled(pid: &str, tier: Tier, rng: &mut Rng, emit: &mut dyn FnMut(String)) {
    let quick = tier == Tier::Quick;
    let pidn: u64 = match pid {
        "C01" => 1,
        "C02" => 2,
        _ => 7,
    };
    let unb: (i64, i64, i64, i64) = (-4096, -4096, 8192, 8192);
    let offs: [(i64, i64); 6] = [(1, 0), (0, -1), (-7, -9), (5, 3), (-3, 4), (64, -33)];
    let pos: [(i64, i64); 2] = [(-2, -1), (-37, 12)];
    let sweeps: [i64; 17] = [-400, -360, -270, -180, -90, -45, -1, 0, 1, 30, 90, 135, 180, 270, 359, 360, 400];
    let mut styles: Vec<String> = Vec::new();
    for (f, s) in [("7", "-"), ("-", "9"), ("7", "9"), ("-", "-")] {
        for w in [0u32, 1, 2, 3, 5] {
            for a in 0..3 {
                styles.push(format!("{} {} {} {}", f, s, w, a));
            }
        }
    }
    // target box / offset of one op, by property
    let place = |h: u64, x: i64, y: i64, d: i64| -> ((i64, i64, i64, i64), (i64, i64)) {
        match pid {
            "C01" => {
                let tb = match h % 5 {
                    0 | 1 => unb,
                    // a clipping box placed relative to the shape so that it really cuts it
                    2 | 3 => (x + d / 3 - 1, y + d / 4, (d / 2 + 2).max(1), (d / 2 + 1).max(1)),
                    _ => (x + 1, y + 1, 0, 4),
                };
                (tb, (0, 0))
            }
            "C02" => (unb, (0, 0)),
            _ => (unb, offs[(h % offs.len() as u64) as usize]),
        }
    };
    // exhaustive small scope, sampled: every (shape, style) pair of the grid is a candidate; a fixed
    // fraction is kept (all of them in the thorough tier), position / box / offset rotate with the hash.
    // Quick: a third of the pairs that can paint something, a ninth of those that cannot (diameter 0, no
    // colour that the shape uses, arcs of width 0).
    let mut i: u64 = 0;
    for d in [0i64, 1, 2, 3, 5, 8, 13, 20] {
        for s in (0..360).step_by(45) {
            for w in sweeps {
                i += 1;
                for (j, st) in styles.iter().enumerate() {
                    let style = parse_style_str(st);
                    for (k, kind) in ["sarc", "ssector"].iter().enumerate() {
                        let paints = d > 0
                            && if k == 0 {
                                style.stroke_color.is_some() && style.stroke_width > 0
                            } else {
                                style.fill_color.is_some() || (style.stroke_color.is_some() && style.stroke_width > 0)
                            };
                        let keep: u64 = if !quick {
                            1
                        } else if paints {
                            3
                        } else {
                            9
                        };
                        let h = mix(i, j as u64, pidn * 2 + k as u64);
                        if h % keep != 0 {
                            continue;
                        }
                        let h = h / keep;
                        let (x, y) = pos[(h % 2) as usize];
                        let (tb, dd) = place(h / 2, x, y, d);
                        emit(styled_op_line(kind, x, y, d, s * 1000, w * 1000, st, tb, dd));
                    }
                }
            }
        }
    }
    // the bevel limits (55 / 305 degrees) and the operation switches, fractional sweeps, wider strokes
    for d in [9i64, 16] {
        for s in [0i64, 30_000, 100_500, -45_000] {
            for w in [
                20_000i64, 54_000, 54_999, 55_000, 55_001, 56_000, 179_999, 180_000, 180_001, 304_999, 305_000, 305_001, 306_000, 340_000, 359_999, 360_000,
                -20_000, -54_999, -55_000, -55_001, -179_999, -180_001, -304_999, -305_001, -340_000, -359_999, 499, -499,
            ] {
                for st in ["7 9 1 1", "7 9 3 0", "7 9 4 1", "7 9 2 2", "- 9 6 1", "7 - 3 1"] {
                    let h = mix(d as u64 * 1000 + (s + 360_000) as u64, (w + 360_000) as u64, pidn);
                    if quick && h % 3 != 0 {
                        continue;
                    }
                    let (tb, dd) = place(h / 3, 3, -2, d);
                    emit(styled_op_line("ssector", 3, -2, d, s, w, st, tb, dd));
                    if h % 2 == 0 {
                        emit(styled_op_line("sarc", 3, -2, d, s, w, st, tb, dd));
                    }
                }
            }
        }
    }
    // seeded random: fractional angles, any position, larger diameters and widths
    let n = if quick { 500 } else { 8000 };
    for k in 0..n {
        let scale = *rng.pick(&[8i64, 64, 1024]);
        let x = rng.range(-scale, scale);
        let y = rng.range(-scale, scale);
        let d = if quick { rng.range(0, 40) } else { rng.range(0, 100) };
        let s = rng.range(-360_000, 720_000);
        let w = match rng.below(8) {
            0 => rng.range(-2_000, 2_000),
            1 => *rng.pick(&[180_000i64, -180_000]) + rng.range(-1_500, 1_500),
            2 => *rng.pick(&[360_000i64, -360_000]) + rng.range(-1_500, 1_500),
            3 => *rng.pick(&[55_000i64, -55_000, 305_000, -305_000]) + rng.range(-1_500, 1_500),
            _ => rng.range(-450_000, 450_000),
        };
        let width = match rng.below(5) {
            0 => 0,
            1 => 1,
            2 => d + rng.range(0, 3),
            _ => rng.range(0, if quick { 9 } else { 14 }),
        };
        let st = format!(
            "{} {} {} {}",
            if rng.chance(1, 2) { "7" } else { "-" },
            if rng.chance(3, 4) { "9" } else { "-" },
            width,
            rng.below(3)
        );
        let (tb, dd) = match pid {
            "C01" if rng.chance(1, 2) => ((x + rng.range(-3, d / 2), y + rng.range(-3, d / 2), rng.range(0, d + 4), rng.range(0, d + 4)), (0, 0)),
            "C07" => (unb, (rng.range(-300, 300), rng.range(-300, 300))),
            _ => (unb, (0, 0)),
        };
        emit(styled_op_line(if k % 2 == 0 { "ssector" } else { "sarc" }, x, y, d, s, w, &st, tb, dd));
    }
}

fn styled_kind_counts(ctx: &mut Ctx, kind: &str, a: &Args, ps: (u8, [i32; 2], [i32; 2])) {
    ctx.count(kind);
    ctx.count(&format!(
        "{}:{}",
        kind,
        match ps.0 {
            0 => "intersection",
            1 => "union",
            _ => "entire-plane",
        }
    ));
    ctx.count(&format!(
        "{}:d{}",
        kind,
        match a.d {
            0 => "=0",
            1..=4 => "<=4",
            5..=24 => "<=24",
            _ => ">24",
        }
    ));
    if ps != a.ps_op {
        ctx.count(&format!("{}:op-line-plane-sector-stale", kind));
    }
}

// ---------------------------------------------------------------------------------------------
// fixed_point build: the trigonometry itself (streams sector.consts / sector.trig / sector.fxpoints)
// ---------------------------------------------------------------------------------------------

fn raw_angle(bits: i32) -> Angle {
    Angle::verif_from_raw(bits)
}

/// the real call under `catch_unwind`: `None` = it panicked (main.rs has silenced the panic hook)
fn caught<T>(f: impl FnOnce() -> T) -> Option<T> {
    std::panic::catch_unwind(std::panic::AssertUnwindSafe(f)).ok()
}

fn fmt_opt_raw(v: Option<i32>) -> String {
    match v {
        Some(v) => v.to_string(),
        None => "panic".into(),
    }
}

fn trig_op(start: i64, sweep: i64) -> String {
    format!("sector.trig {} {}", start, sweep)
}

/// Generator of the fixed_point-only streams (inputs only: the literals below are where the interesting raw
/// values are expected to be, the results always come from the real code).
fn generate_fixed(tier: Tier, rng: &mut Rng, emit: &mut dyn FnMut(String)) {
    let quick = tier == Tier::Quick;
    const PI_BITS: i64 = 205_887;
    const MAX: i64 = i32::MAX as i64;
    const MIN: i64 = i32::MIN as i64;
    let clamp = |v: i64| v.clamp(MIN, MAX);
    let deg = |k: i32| Angle::from_degrees(k as f32).verif_raw() as i64;
    emit("sector.consts".into());
    // every whole degree -720..=720, converted the way a user converts it, as start and as sweep
    for k in -720..=720 {
        let r = deg(k);
        for w in [0, deg(30), deg(-100), deg(200)] {
            emit(trig_op(r, w));
        }
        for s in [0, deg(77)] {
            emit(trig_op(s, r));
        }
    }
    // raw values around every rounding boundary of `degree` ((k + 1/2) degrees = (2k + 1) PI / 360 bits); the
    // boundary of the cosine's degree (angle + FRAC_PI_2) lies within one bit of it
    for k in -722i64..=722 {
        let c = ((2 * k + 1) * PI_BITS).div_euclid(360);
        for d in -2..=3 {
            emit(trig_op(c + d, 0));
            emit(trig_op(0, c + d));
            if !quick || d == 0 || d == 1 {
                emit(trig_op(deg(10), c + d - deg(10)));
                emit(trig_op(c + d, deg(-45)));
            }
        }
    }
    // around 0, PI/2, PI, 3 PI/2, TAU, the bevel limits, the f32 exactness limit, where `Real::from(180) * angle`
    // and `angle + FRAC_PI_2` start to overflow, and the extremes of I16F16
    let base: [i64; 24] = [
        0, 102_944, 205_887, 308_831, 411_775, -102_944, -205_887, -308_831, -411_775, 62_910, 348_865, -62_910, -348_865, 1 << 24, -(1 << 24),
        11_930_464, -11_930_464, 11_930_464 - 102_944, -11_930_464 - 102_944, MAX, MIN, MAX - 102_944, MIN + 102_944, 823_550,
    ];
    let mut specials: Vec<i64> = Vec::new();
    for b in base {
        for d in -3..=3 {
            let v = clamp(b + d);
            if !specials.contains(&v) {
                specials.push(v);
            }
        }
    }
    for &a in &specials {
        emit(trig_op(a, 0));
        emit(trig_op(0, a));
        emit(trig_op(a, deg(40)));
        emit(trig_op(deg(-200), a));
    }
    for &a in &base {
        for &b in &base {
            emit(trig_op(a, b));
            emit(trig_op(clamp(a + 1), clamp(b - 1)));
        }
    }
    // random raw values
    let n = if quick { 6000 } else { 120_000 };
    let pick = |rng: &mut Rng| -> i64 {
        match rng.below(8) {
            0 => rng.range(-2000, 2000),
            1 | 2 => rng.range(-450_000, 450_000),
            3 => rng.range(-(1 << 20), 1 << 20),
            4 => rng.range(-12_100_000, 12_100_000),
            5 => rng.range(MIN, MAX),
            6 => *rng.pick(&[205_887i64, -205_887, 411_775, -411_775, 62_910, -62_910, 348_865, -348_865]) + rng.range(-40, 40),
            _ => ((2 * rng.range(-2000, 2000) + 1) * PI_BITS).div_euclid(360) + rng.range(-1, 2),
        }
    };
    for _ in 0..n {
        let a = pick(rng);
        let b = pick(rng);
        emit(trig_op(a, b));
    }
    // raw angles -> pixels, the plane sector computed by the model
    let m = if quick { 150 } else { 2500 };
    for k in 0..m {
        let d = if quick { *rng.pick(&[1i64, 5, 9, 20, 33]) } else { rng.range(0, 128) };
        let x = rng.range(-40, 40);
        let y = rng.range(-40, 40);
        let a = if k % 3 == 0 { ((2 * rng.range(-400, 400) + 1) * PI_BITS).div_euclid(360) + rng.range(-1, 1) } else { rng.range(-900_000, 900_000) };
        let b = match rng.below(5) {
            0 => rng.range(-1500, 1500),
            1 => *rng.pick(&[205_887i64, -205_887, 411_775, -411_775]) + rng.range(-3, 3),
            _ => rng.range(-450_000, 450_000),
        };
        emit(format!("sector.fxpoints {} {} {} {} {}", x, y, d, a, b));
    }
    emit(format!("sector.fxpoints 0 0 9 {} 0", MAX));
    emit(format!("sector.fxpoints 0 0 9 0 {}", MIN));
}

/// `sector.trig` on the real code, with the C18 oracle on the tags and normals.
fn execute_trig(op: &str, a: i32, b: i32, ctx: &mut Ctx) -> String {
    ctx.count("trig");
    let ps = caught(|| verif_hooks::plane_sector(raw_angle(a), raw_angle(b)));
    let bv = caught(|| {
        Styled::new(Sector::new(Point::zero(), 1, raw_angle(a), raw_angle(b)), embedded_graphics::primitives::PrimitiveStyle::with_stroke(Rgb565::new(1, 2, 3), 1))
            .pixels()
            .verif_bevel()
    });
    let nz = caught(|| raw_angle(a).normalize().verif_raw());
    let ab = caught(|| raw_angle(a).abs().verif_raw());
    let ng = caught(|| (-raw_angle(a)).verif_raw());
    let ad = caught(|| (raw_angle(a) + raw_angle(b)).verif_raw());
    let sb = caught(|| (raw_angle(a) - raw_angle(b)).verif_raw());
    match ps {
        None => ctx.count("trig:panic"),
        Some(ps) => {
            ctx.nontrivial(op);
            ctx.count(match ps.0 {
                0 => "trig:intersection",
                1 => "trig:union",
                _ => "trig:entire-plane",
            });
            // the oracle: angles of at most 8 turns (beyond, f64 evaluation of the exact angle is still fine, but
            // nothing in the property speaks about such angles)
            let turns8 = 8.0 * std::f64::consts::TAU;
            let (ra, rb) = (a as f64 / 65536.0, b as f64 / 65536.0);
            if ra.abs() <= turns8 && rb.abs() <= turns8 {
                let ulp2 = 2.0 / 65536.0;
                let w = rb.abs();
                if w >= std::f64::consts::TAU + ulp2 {
                    ctx.expect(ps.0 == 2, "C18:trig-full-sweep-not-entire-plane", || format!("sweep {} rad, tag {}", rb, ps.0));
                } else if w <= std::f64::consts::TAU - ulp2 {
                    ctx.expect(ps.0 != 2, "C18:trig-entire-plane-below-full-sweep", || format!("sweep {} rad, tag {}", rb, ps.0));
                    if w >= std::f64::consts::PI + ulp2 {
                        ctx.expect(ps.0 == 1, "C18:trig-operation-wrong", || format!("sweep {} rad, tag {}", rb, ps.0));
                    } else if w <= std::f64::consts::PI - ulp2 {
                        ctx.expect(ps.0 == 0, "C18:trig-operation-wrong", || format!("sweep {} rad, tag {}", rb, ps.0));
                    }
                }
                if ps.0 != 2 {
                    let (lo, hi) = if rb < 0.0 { (ra + rb, ra) } else { (ra, ra + rb) };
                    let exact = |t: f64| (-1024.0 * t.sin(), 1024.0 * t.cos());
                    let (nr, nl) = (exact(lo), exact(hi));
                    let (l, r) = (ps.1, ps.2);
                    let eps = (l[0] as f64 - nl.0).abs().max((l[1] as f64 - nl.1).abs()).max((r[0] as f64 - nr.0).abs()).max((r[1] as f64 - nr.1).abs());
                    note_max(ctx, "trig:normal-eps-max-milli", (eps * 1000.0).ceil() as u64);
                    ctx.expect(eps <= 16.0, "C18:tie-hypothesis:trig-normal-vector-inaccurate", || {
                        format!("normals {:?} {:?} deviate by {:.3} (of 1024) from the exact ones", l, r, eps)
                    });
                }
            }
        }
    }
    match bv {
        None => {}
        Some(bv) => ctx.count(match bv.0 {
            0 => "trig:bevel:none",
            1 => "trig:bevel:interior",
            _ => "trig:bevel:exterior",
        }),
    }
    format!(
        "ps={} bv={} nz={} ab={} ng={} ad={} sb={}",
        ps.map_or("panic".to_string(), fmt_ps),
        bv.map_or("panic".to_string(), |b| format!("{},{},{}", b.0, b.1[0], b.1[1])),
        fmt_opt_raw(nz),
        fmt_opt_raw(ab),
        fmt_opt_raw(ng),
        fmt_opt_raw(ad),
        fmt_opt_raw(sb)
    )
}

impl Module for M {
    fn name(&self) -> &'static str {
        "sector"
    }
    fn rule(&self) -> &'static str {
        "sector.points / sector.arc: quick = diameters {0,1,2,3,4,5,8,13,20} x start angles on a 30-degree grid x sweeps \
         {-400,-360,-270,-180,-135,-90,-45,-1,0,1,45,90,135,180,270,359,360,400} degrees x 2 positions, plus larger diameters \
         (31,64,127,128) on a coarser angle grid and seeded random fractional angles (milli-degrees) at random positions; thorough = \
         1-degree grids (all starts x 12 sweeps and all sweeps -400..=400 x 4 starts for d = 11, 40; reduced for d = 127, 128) and 5000 \
         random fractional angle pairs with diameters up to 128; for C18 also half-degree angles (k.5 degrees, +-1 milli-degree) at d = 127, 128. \
         Non-trivial: diameter >= 1; distinct = distinct op text. \
         sector.consts / sector.trig / sector.fxpoints (C18, fixed_point build only; raw I16F16 angles): every whole degree -720..=720 as start and as \
         sweep, raw values -2..=3 around every rounding boundary of the whole degree for k = -722..=722 (as start, sweep and end angle), +-3 around 0, \
         PI/2, PI, 3PI/2, TAU, the bevel limits, 2^24, the overflow limits of `180 * angle` and `angle + PI/2`, i32::MIN/MAX, all pairs of these base \
         values, 6000 (thorough 120000) random pairs from mixed ranges, and 150 (thorough 2500) sector.fxpoints shapes. Non-trivial: no panic. \
         sector.sarc / sector.ssector (C01, C02, C07): diameters {0,1,2,3,5,8,13,20} x start angles on a 45-degree grid x sweeps \
         {-400,-360,-270,-180,-90,-45,-1,0,1,30,90,135,180,270,359,360,400} degrees x stroke widths {0,1,2,3,5} x 3 alignments x 4 colour \
         options, quick = a hash-selected third of the pairs that can paint something and a ninth of the others (thorough = all) at 2 positions with rotating target boxes (C01: \
         unbounded / clipping / empty) or offsets (C07), plus sweeps around the bevel limits (55 / 305 degrees) and operation switches \
         (180 / 360 degrees) with wider strokes, plus seeded random fractional angles, positions, diameters (< 40; thorough < 100) and \
         widths. Non-trivial: at least one pixel painted (C02: or a transparent style; C07: and a non-zero offset)."
    }

    fn generate(&self, pid: &str, tier: Tier, rng: &mut Rng, emit: &mut dyn FnMut(String)) {
        if pid == "C01" || pid == "C02" || pid == "C07" {
            generate_styled(pid, tier, rng, emit);
            return;
        }
        if pid != "C05" && pid != "C18" {
            return;
        }
        let quick = tier == Tier::Quick;
        let pos: [(i64, i64); 2] = [(0, 0), (-37, 12)];
        let sweeps: [i64; 18] = [-400, -360, -270, -180, -135, -90, -45, -1, 0, 1, 45, 90, 135, 180, 270, 359, 360, 400];
        let both = |emit: &mut dyn FnMut(String), x: i64, y: i64, d: i64, s: i64, w: i64| {
            emit(op_line("points", x, y, d, s, w));
            emit(op_line("arc", x, y, d, s, w));
        };
        // exhaustive small scope
        for d in [0i64, 1, 2, 3, 4, 5, 8, 13, 20] {
            for s in (0..360).step_by(30) {
                for w in sweeps {
                    for (x, y) in pos {
                        both(emit, x, y, d, s * 1000, w * 1000);
                    }
                }
            }
        }
        // a few fractional sweeps around the special values, small diameters
        for d in [5i64, 9, 20] {
            for s in [0i64, 500, 29_999, 45_000, 90_001, 179_999, 180_000, 180_001, 270_000, 359_500, -45_000, 725_250] {
                for w in [1i64, 30, 499, 500, 501, 999, 89_999, 179_999, 180_001, 359_499, 359_999, 360_001, -1, -500, -179_999, -180_001, -359_999] {
                    both(emit, 3, -2, d, s, w);
                }
            }
        }
        // larger diameters, coarser grid (the angular claim at scale)
        for d in [31i64, 64, 127, 128] {
            for s in (0..360).step_by(if quick { 45 } else { 15 }) {
                for w in [-270i64, -100, -1, 0, 1, 30, 90, 179, 180, 181, 300, 359] {
                    if quick && d >= 127 && (s / 45 + w).rem_euclid(3) != 0 {
                        continue;
                    }
                    both(emit, -64, -64, d, s * 1000 + 7000, w * 1000);
                }
            }
        }
        // half-degree angles at the largest diameters: the fixed_point build rounds every angle to whole degrees
        // (ties away from zero), so k.5 degrees is where its boundary rays are furthest from the exact ones
        // (0.5 degrees = 0.56 px at radius 64); 499 / 501 milli-degrees sit on either side of the tie
        if pid == "C18" {
            let starts: &[i64] = if quick { &[500, 44_500, 135_499, 200_501] } else { &[500, 30_500, 44_500, 89_500, 135_499, 200_501, 314_500, -20_500] };
            let sweeps: &[i64] = if quick { &[45_000, 200_500, -60_500] } else { &[45_000, 90_500, 200_500, -60_500, 1_000, 179_500] };
            for (d, x) in [(128i64, -64i64), (127, -63)] {
                for &s in starts {
                    for &w in sweeps {
                        both(emit, x, x, d, s, w);
                    }
                }
            }
        }
        // random fractional angles
        let n = if quick { 400 } else { 5000 };
        for k in 0..n {
            let scale = *rng.pick(&[8i64, 64, 1024, 1 << 16]);
            let x = rng.range(-scale, scale);
            let y = rng.range(-scale, scale);
            let d = if quick {
                rng.range(0, 40)
            } else {
                match rng.below(10) {
                    0..=4 => rng.range(0, 32),
                    5..=7 => rng.range(33, 80),
                    _ => rng.range(81, 128),
                }
            };
            let s = rng.range(-360_000, 720_000);
            let w = match rng.below(8) {
                0 => rng.range(-2_000, 2_000),          // tiny sweeps
                1 => 180_000 + rng.range(-1_500, 1_500), // around the intersection / union switch
                2 => -180_000 + rng.range(-1_500, 1_500),
                3 => *rng.pick(&[360_000i64, -360_000]) + rng.range(-1_500, 1_500),
                _ => rng.range(-450_000, 450_000),
            };
            emit(op_line(if k % 2 == 0 { "points" } else { "arc" }, x, y, d, s, w));
        }
        if !quick {
            // 1-degree grids
            for d in [11i64, 40] {
                for s in 0..360 {
                    for w in [-359i64, -200, -90, -1, 1, 37, 90, 179, 180, 181, 270, 359] {
                        both(emit, -20, -20, d, s * 1000, w * 1000);
                    }
                }
                for s in [0i64, 45, 77, 200] {
                    for w in -400..=400 {
                        both(emit, -20, -20, d, s * 1000, w * 1000);
                    }
                }
            }
            for s in 0..360 {
                both(emit, -64, -64, 128, s * 1000, 90_000);
                both(emit, -63, -63, 127, s * 1000, -200_000);
            }
            for w in -400..=400 {
                both(emit, -64, -64, 128, 30_000, w * 1000);
            }
        }
        // the trigonometry itself: only the fixed_point build has a model of it
        if FIXED && pid == "C18" {
            generate_fixed(tier, rng, emit);
        }
    }

    fn execute(&self, op: &str, ctx: &mut Ctx) -> String {
        let mut t = Toks::new(op);
        match t.str() {
            "sector.points" => {
                let a = parse_args(&mut t);
                let (tl, d) = (a.tl, a.d);
                let ps = hook(a.start, a.sweep);
                count_shape(ctx, "sector", &a, ps);
                if d >= 1 {
                    ctx.nontrivial(op);
                }
                let s = Sector::new(tl, d, mdeg(a.start), mdeg(a.sweep));
                let c = Circle::new(tl, d);
                let bb = s.bounding_box();
                let pts: Vec<Point> = s.points().collect();
                if pts.len() <= 300 {
                    iter_protocol_check(ctx, "iterator-protocol:sector-points", s.points(), 300);
                }
                let m = 2i32;
                let (x0, y0) = (tl.x - m, tl.y - m);
                let (x1, y1) = (tl.x + d as i32 + m, tl.y + d as i32 + m);
                let mut bits = String::new();
                let mut accepted: Vec<Point> = Vec::new();
                for y in y0..y1 {
                    for x in x0..x1 {
                        let p = Point::new(x, y);
                        let inside = s.contains(p);
                        bits.push(if inside { '1' } else { '0' });
                        if inside {
                            accepted.push(p);
                        }
                    }
                }
                // C05: points() == the points contains() accepts (probed on the box + margin), each
                // once, row-major, inside bounding_box(); contains() false outside the box.
                ctx.expect(pts == accepted, "C05:sector-points-ne-contains", || {
                    format!("points {} vs contains {}", fmt_pts(pts.iter().copied()), fmt_pts(accepted.iter().copied()))
                });
                let out = accepted.iter().find(|p| !bb.contains(**p)).copied();
                ctx.expect(out.is_none(), "C05:sector-contains-outside-bbox", || format!("{:?}", out));
                ctx.expect(pts.iter().all(|p| bb.contains(*p)), "C05:sector-points-outside-bbox", || "points() outside bounding box".into());
                ctx.expect(
                    pts.windows(2).all(|w| (w[0].y, w[0].x) < (w[1].y, w[1].x)),
                    "C05:sector-points-not-row-major-once",
                    || fmt_pts(pts.iter().copied()),
                );
                let far = [
                    Point::new(tl.x - 1000, tl.y + d as i32 / 2),
                    Point::new(tl.x + d as i32 + 1000, tl.y + d as i32 / 2),
                    Point::new(tl.x + d as i32 / 2, tl.y - 1000),
                    Point::new(tl.x + d as i32 / 2, tl.y + d as i32 + 1000),
                    Point::new(tl.x + d as i32 + 1000, tl.y + d as i32 + 1000),
                    Point::new(tl.x - 1000, tl.y - 1000),
                ];
                ctx.expect(far.iter().all(|p| !s.contains(*p)), "C05:sector-contains-outside-bbox", || "far probe accepted".into());
                // C18
                let circle_pts: Vec<Point> = c.points().collect();
                if a.sweep.abs() >= 360_000 {
                    ctx.expect(pts == circle_pts, "C18:sector-full-sweep-ne-circle", || {
                        format!("{} sector points, {} circle points", pts.len(), circle_pts.len())
                    });
                }
                let stray = pts.iter().find(|p| !c.contains(**p)).copied();
                ctx.expect(stray.is_none(), "C18:sector-point-outside-circle", || format!("{:?}", stray));
                if d <= 128 {
                    angular_oracle(ctx, "sector", tl, d, a.start, a.sweep, ps, &circle_pts, &pts);
                }
                format!("ps={} bb={} pts={} in={}", fmt_ps(ps), fmt_rect(&bb), fmt_pts(pts), bits)
            }
            "sector.arc" => {
                let a = parse_args(&mut t);
                let (tl, d) = (a.tl, a.d);
                let ps = hook(a.start, a.sweep);
                count_shape(ctx, "arc", &a, ps);
                if d >= 1 {
                    ctx.nontrivial(op);
                }
                let arc = Arc::new(tl, d, mdeg(a.start), mdeg(a.sweep));
                let c = Circle::new(tl, d);
                let inner = c.offset(-1);
                let bb = arc.bounding_box();
                let pts: Vec<Point> = arc.points().collect();
                if pts.len() <= 300 {
                    iter_protocol_check(ctx, "iterator-protocol:arc-points", arc.points(), 300);
                }
                // the circle's one-pixel inside ring: circle points that are not in circle.offset(-1)
                let ring: Vec<Point> = c.points().filter(|p| !inner.contains(*p)).collect();
                ctx.expect(bb == c.bounding_box(), "C18:arc-bbox-ne-circle-bbox", || fmt_rect(&bb));
                ctx.expect(
                    pts.windows(2).all(|w| (w[0].y, w[0].x) < (w[1].y, w[1].x)),
                    "C18:arc-points-not-row-major-once",
                    || fmt_pts(pts.iter().copied()),
                );
                if a.sweep.abs() >= 360_000 {
                    ctx.expect(pts == ring, "C18:arc-full-sweep-ne-ring", || {
                        format!("{} arc points, {} ring points", pts.len(), ring.len())
                    });
                }
                let stray = pts.iter().find(|p| !c.contains(**p)).copied();
                ctx.expect(stray.is_none(), "C18:arc-point-outside-circle", || format!("{:?}", stray));
                let off_ring = pts.iter().find(|p| inner.contains(**p)).copied();
                ctx.expect(off_ring.is_none(), "C18:arc-point-inside-inner-circle", || format!("{:?}", off_ring));
                if d <= 128 {
                    angular_oracle(ctx, "arc", tl, d, a.start, a.sweep, ps, &ring, &pts);
                }
                format!("ps={} bb={} pts={}", fmt_ps(ps), fmt_rect(&bb), fmt_pts(pts))
            }
            "sector.sarc" => {
                let a = parse_args(&mut t);
                let style = parse_style(&mut t);
                let tb = t.rect();
                let dd = t.point();
                let ps = hook(a.start, a.sweep);
                styled_kind_counts(ctx, "sarc", &a, ps);
                let o = observe_styled!(Arc::new(a.tl, a.d, mdeg(a.start), mdeg(a.sweep)), style, tb, dd);
                format!("ps={} {}", fmt_ps(ps), styled_report(ctx, op, "sarc", &o, &style, tb, dd))
            }
            "sector.ssector" => {
                let a = parse_args(&mut t);
                let bv_op = (t.u32() as u8, [t.i32(), t.i32()]);
                let style = parse_style(&mut t);
                let tb = t.rect();
                let dd = t.point();
                let ps = hook(a.start, a.sweep);
                let bv = bevel_hook(a.tl, a.d, a.start, a.sweep, &style);
                styled_kind_counts(ctx, "ssector", &a, ps);
                ctx.count(&format!(
                    "ssector:bevel:{}",
                    match bv.0 {
                        0 => "none",
                        1 => "interior",
                        _ => "exterior",
                    }
                ));
                if (bv.0, bv.1) != bv_op {
                    ctx.count("ssector:op-line-bevel-stale");
                }
                let o = observe_styled!(Sector::new(a.tl, a.d, mdeg(a.start), mdeg(a.sweep)), style, tb, dd);
                format!(
                    "ps={} bv={},{},{},{} {}",
                    fmt_ps(ps),
                    bv.0,
                    bv.1[0],
                    bv.1[1],
                    bv.2,
                    styled_report(ctx, op, "ssector", &o, &style, tb, dd)
                )
            }
            "sector.consts" | "sector.trig" | "sector.fxpoints" if !FIXED => {
                // raw angles are f32 bits in this build: nothing to compare (the generator emits none of these)
                "not-a-fixed_point-build".into()
            }
            "sector.consts" => {
                ctx.count("trig:consts");
                format!(
                    "c180={} c55={} c305={} c360={} nm={}",
                    Angle::from_degrees(180.0).verif_raw(),
                    Angle::from_degrees(55.0).verif_raw(),
                    Angle::from_degrees(360.0 - 55.0).verif_raw(),
                    Angle::from_degrees(360.0).verif_raw(),
                    raw_angle(-1).normalize().verif_raw() as i64 + 1
                )
            }
            "sector.trig" => {
                let a = t.i32();
                let b = t.i32();
                execute_trig(op, a, b, ctx)
            }
            "sector.fxpoints" => {
                let tl = t.point();
                let d = t.u32();
                let a = t.i32();
                let b = t.i32();
                ctx.count("fxpoints");
                let r = caught(|| {
                    let ps = verif_hooks::plane_sector(raw_angle(a), raw_angle(b));
                    let s = Sector::new(tl, d, raw_angle(a), raw_angle(b));
                    let bb = s.bounding_box();
                    let pts: Vec<Point> = s.points().collect();
                    let m = 2i32;
                    let mut bits = String::new();
                    for y in tl.y - m..tl.y + d as i32 + m {
                        for x in tl.x - m..tl.x + d as i32 + m {
                            bits.push(if s.contains(Point::new(x, y)) { '1' } else { '0' });
                        }
                    }
                    (ps, bb, pts, bits)
                });
                match r {
                    None => {
                        ctx.count("fxpoints:panic");
                        "panic".into()
                    }
                    Some((ps, bb, pts, bits)) => {
                        if d >= 1 {
                            ctx.nontrivial(op);
                        }
                        let c = Circle::new(tl, d);
                        let stray = pts.iter().find(|p| !c.contains(**p)).copied();
                        ctx.expect(stray.is_none(), "C18:sector-point-outside-circle", || format!("{:?}", stray));
                        if ps.0 == 2 {
                            ctx.expect(pts == c.points().collect::<Vec<_>>(), "C18:sector-full-sweep-ne-circle", || format!("{} sector points", pts.len()));
                        }
                        format!("ps={} bb={} pts={} in={}", fmt_ps(ps), fmt_rect(&bb), fmt_pts(pts), bits)
                    }
                }
            }
            other => panic!("unknown op {}", other),
        }
    }
}
