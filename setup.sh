#!/bin/sh
# Build the framework from files on disk only (offline): Lean library + driver, Rust harness.
set -e
cd "$(dirname "$0")"
export CARGO_NET_OFFLINE=true
(cd harness && cargo build --offline 2>&1 | tail -3)
if [ -f tools/translate.py ]; then python3 tools/translate.py >/dev/null; fi
(cd lean && lake build EG egdriver 2>&1 | tail -3)
echo setup done
