#!/usr/bin/env python3
"""Regenerates MANIFEST.json from tools/manifest_src.json (claimed checks) + properties.jsonl
(everything not claimed goes to not_applicable with its reason)."""
import json, os
V = os.path.dirname(os.path.dirname(os.path.abspath(__file__)))
src = json.load(open(os.path.join(V, "tools", "manifest_src.json")))
props = [json.loads(l) for l in open(os.path.join(V, "properties.jsonl")) if l.strip()]
checks = []
na = []
for p in props:
    pid = p["id"]
    c = src["checks"].get(pid)
    if c:
        checks.append({
            "property_id": pid,
            "quick_cmd": f"./check {pid} --tier quick",
            "thorough_cmd": f"./check {pid} --tier thorough",
            "evidence_file": f"/verif/evidence/{pid}.json",
            "replay_cmd_template": f"./check {pid} --replay {{path}}",
            "engine": "lean4-proof+correspondence",
            "level_claimed": {"category": "proof", "text": c["text"], "design_ref": c.get("design_ref", "DESIGN.md section 8")},
            "level_note": c["note"],
            "technique": c.get("technique", "Lean 4 theorems over a model tied to the source by differential correspondence"),
        })
    else:
        na.append({"property_id": pid, "reason": src["not_applicable"].get(pid, "check not built yet in this round; planned as in DESIGN.md section 8")})
m = {
    "version": 1,
    "setup_cmd": src["setup_cmd"],
    "hooks": src["hooks"],
    "engines": [{
        "name": "lean4-proof+correspondence", "path": "/verif/check",
        "serves_properties": [c["property_id"] for c in checks],
        "kind_free_text": "Lean 4 theorems (lean/EG/Props) over executable models (lean/EG/Model), regenerated tables (tools/translate.py), differential correspondence egv (Rust, real library in-process) vs egdriver (compiled Lean model), property oracles as search engine",
    }],
    "checks": checks,
    "notes": src.get("notes", ""),
    "not_applicable": na,
}
json.dump(m, open(os.path.join(V, "MANIFEST.json"), "w"), indent=1)
print(f"{len(checks)} checks, {len(na)} not claimed")
