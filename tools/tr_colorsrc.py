#!/usr/bin/env python3
"""tr_colorsrc.py — SOURCE-TO-LEAN translator for the BODIES of the colour layer (C12, C13).

tools/tr_color.py regenerates the TABLES (which colour types exist, their bit widths / positions, which conversion
impls exist). This part translates the code that uses those numbers: from /repo's current working tree it reads
  core/src/pixelcolor/conversion.rs    `convert_channel`, `luma`, and the bodies of `impl_rgb_conversion!`,
                                       `impl_gray_conversion!`, `impl_rgb_to_and_from_gray!`, `impl_from_binary!`,
                                       `impl_gray_to_binary!`, `impl_rgb_to_binary!`
  core/src/pixelcolor/rgb_color.rs     `impl_rgb_color!`: the masks, `new`, `r g b`, `MAX_*`, the colour constants,
                                       `From<Raw>`, `Into<Raw>`
  core/src/pixelcolor/gray_color.rs    `gray_color!`: `MAX_LUMA`, `GRAY_50`, `new`, `luma`, `BLACK`, `WHITE`, `From/Into<Raw>`
  core/src/pixelcolor/binary_color.rs  `map_color`, `From<RawU1>`, `From<BinaryColor> for RawU1`, `From<bool>`
  core/src/pixelcolor/mod.rs           `IntoStorage::into_storage`
and writes EG/Generated/ColorSrc.lean: ONE Lean `def` per function PER MACRO (not per invocation). A macro body is
translated symbolically in its parameters: every `$name` becomes an identifier `__name` (a textual pre-pass), a
repetition `$( .. ),+` is replaced by one symbolic element, the result is parsed with tr_rect's parser, and the
parameters are bound to the fields of the `ColorSpec` records that tr_color.py regenerates from the macro's
INVOCATIONS (`$r_pos` = `T.rpos`, `$storage_type` = the integer type of `T.storageBits` bits, `$raw_type::BITS_PER_PIXEL`
= `T.rawBpp`, a type parameter `$from_type` = a `ColorSpec` argument `from_type`). The matcher of every macro is
compared with the text this binding assumes (a reordered matcher is refused). Which class of type (RGB / gray) a type
parameter of a conversion macro ranges over is what tr_color.parse_convs checks for every invocation; a macro whose
parameter ranges over two classes (`impl_from_binary!`) is translated once per class.

The translation is syntax-directed and dumb, like tr_rect.py: every Rust primitive becomes a call of a function of
the hand-written prelude lean/EG/Model/ColorSrcPrelude.lean (integer operations take the bit width of the operand
type, found by a tiny type inference over the signatures), method / associated-item calls are resolved by the class
of the receiver type to the translated function of that class's macro, and `X::from(y)` / `y.into()` between colour
types go through a generated dispatcher that selects core's reflexive `impl From<T> for T` when the two types are the
same and the macro-generated impl otherwise.

REUSE: tr_rect's tokenizer, `Cursor`, `parse_type`, `parse_fn`, `skip_attrs_and_vis` and `BodyParser` (subclassed as
`ColorBodyParser`: `<<` `>>` `&` `|`, hex / suffixed literals, `.0`, `const` items in a body, turbofish with const
generic arguments `f::<{A}, {B}>(..)`, `as $ty <<`). `BodyParser` creates its sub-parsers by its own class name, so
while this part parses, `tr_rect.BodyParser` is rebound to the subclass and restored afterwards (`_patched_parser`).
tr_rect's `Translator` is not used (it is typed for Point / Size / Rectangle); the expression translator below is this
part's own. tr_color is imported for `_read`, `_macro_def`, `parse_colors`, `parse_convs`.

Any construct not known raises; `generate` then writes a ColorSrc.lean that only contains `def translationFailed`, so
exactly the `_src_eq_model` theorems (EG/Props/C12/Generated.lean, EG/Props/C13/Generated.lean) stop building.
"""
import os
import re

import tr_rect as R
import tr_color as C

Err = R.RectTrError
PIX = "core/src/pixelcolor/"
INT_TYPES = {"u8": "8", "u16": "16", "u32": "32", "usize": "usize_bits"}
INT_RANK = {"8": 8, "16": 16, "32": 32, "usize_bits": 64}


# ---------------------------------------------------------------------------------------------------------------
# parser: tr_rect's BodyParser plus the constructs of the colour sources
# ---------------------------------------------------------------------------------------------------------------

class ColorBodyParser(R.BodyParser):
    def parse_block_body(self):
        """tr_rect's, plus `const NAME: T = e;` (a typed `let`)."""
        c = self.c
        stmts, tail = [], None
        while not c.eof():
            if tail is not None:
                self.fail("expression in the middle of a block without `;`")
            if c.at(";"):
                c.next()
                continue
            if c.at("let") or c.at("const"):
                t = c.next()
                if t.text == "let" and c.at("mut"):
                    self.fail("`let mut` not supported")
                pat = self.parse_pattern()
                if pat[0] != "pbind" and not (t.text == "const" and pat[0] == "ppath" and len(pat[2]) == 1):
                    self.fail("only plain names can be bound", t)
                name = pat[2] if pat[0] == "pbind" else pat[2][0]
                ty = None
                if c.at(":"):
                    c.next()
                    ty = R.parse_type(c)
                if t.text == "const" and ty is None:
                    self.fail("`const` without a type", t)
                c.expect("=")
                e = self.parse_expr()
                c.expect(";")
                stmts.append(("let", t.line, name, ty, e))
                continue
            if c.peek().kind == "id" and c.peek().text in ("fn", "struct", "enum", "impl", "use", "static", "loop", "for", "unsafe", "while"):
                self.fail(f"`{c.peek().text}` inside a body is not supported")
            e = self.parse_expr(stmt=True)
            if c.eof():
                tail = e
            else:
                self.fail(f"statement other than `let` / `const` is not supported (at `{c.peek().text}`)")
        return stmts, tail

    def _op_at(self, ops):
        c = self.c
        t, t1 = c.peek(), c.peek(1)
        if t is None or t.kind != "p":
            return None, 0
        if t.text in ("<", ">") and t1 is not None and t1.kind == "p" and t1.text == t.text and t1.line == t.line:
            return (t.text * 2, 2) if (t.text * 2) in ops else (None, 0)
        return (t.text, 1) if t.text in ops else (None, 0)

    def parse_binary_tail(self, lhs, level, nostruct):
        c = self.c
        ops = self.LEVELS[level]
        while True:
            op, n = self._op_at(ops)
            if op is None:
                return lhs
            tok = c.peek()
            if op in ("^", "%", "&&", "||"):
                self.fail(f"operator `{op}` not supported")
            for _ in range(n):
                c.next()
            rhs = self.parse_binary(level + 1, nostruct)
            if op in R.CMP_OPS and self._op_at(R.CMP_OPS)[0] is not None:
                self.fail("chained comparison")
            lhs = ("bin", tok.line, op, lhs, rhs)

    def parse_unary(self, nostruct):
        c = self.c
        e = self.parse_prefix(nostruct)
        while c.at("as"):
            a = c.next()
            t = c.peek()
            # `x as $storage_type << n`: a `$..:ty` fragment is one opaque token for rustc; never read `<` as generics here
            if t is not None and t.kind == "id" and (t.text in INT_TYPES or t.text.startswith("__")):
                c.next()
                ty = t.text
            else:
                ty = R.parse_type(c)
            e = ("cast", a.line, e, ty)
        return e

    def parse_prefix(self, nostruct):
        c = self.c
        if c.at("-") or c.at("!") or c.at("*") or c.at("&") or c.at("&&"):
            self.fail(f"prefix operator `{c.peek().text}` not supported")
        return self.parse_postfix_from(self.parse_primary(nostruct), nostruct)

    def parse_postfix_from(self, e, nostruct):
        c = self.c
        while True:
            if c.at("?") or c.at("["):
                self.fail(f"`{c.peek().text}` not supported")
            if c.at("("):
                t = c.peek()
                e = ("callexpr", t.line, e, self.parse_args())
                continue
            if c.at("."):
                d = c.next()
                if c.peek() is not None and c.peek().kind == "int":
                    k = c.next()
                    if k.text != "0":
                        self.fail("only `.0` of a one-field tuple struct is supported", k)
                    e = ("tfield", d.line, e)
                    continue
                name = c.ident()
                if c.at("::"):
                    self.fail("turbofish on a method not supported")
                if not c.at("("):
                    self.fail("named field access not supported")
                e = ("mcall", d.line, e, name, self.parse_args())
                continue
            return e

    def parse_primary(self, nostruct):
        c = self.c
        t = c.peek()
        if t.kind == "int":
            c.next()
            m = re.fullmatch(r"(0x[0-9A-Fa-f_]+|[0-9][0-9_]*)(u8|u16|u32|usize)?", t.text)
            if not m:
                self.fail(f"integer literal `{t.text}` not supported", t)
            digits = m.group(1).replace("_", "")
            return ("int", t.line, int(digits, 16) if digits.startswith("0x") else int(digits, 10), m.group(2))
        if t.kind == "id" and t.text not in ("if", "match", "while", "loop", "for", "unsafe", "async", "let", "mut", "ref", "static",
                                             "const", "dyn", "impl", "fn", "where", "in"):
            segs, generics = [c.ident()], None
            while c.at("::"):
                c.next()
                if c.at("<"):
                    c.next()
                    generics = []
                    while not c.at(">"):
                        if not c.at("{"):
                            self.fail("only const generic arguments in braces `{..}` are supported in a turbofish")
                        s, e = c.skip_balanced("{", "}")
                        sub = R.BodyParser(c.t, s, e, self.where)
                        generics.append(sub.parse_expr())
                        if not sub.c.eof():
                            sub.fail("tokens after a const generic argument")
                        if c.at(","):
                            c.next()
                    c.next()
                    if not c.at("("):
                        self.fail("turbofish without a call")
                    break
                segs.append(c.ident())
            if c.at("!"):
                self.fail(f"macro `{'::'.join(segs)}!` not supported", t)
            if c.at("{") and not nostruct and segs[-1][0].isupper():
                self.fail("struct literal not supported", t)
            return ("path", t.line, segs, generics)
        if c.at("while"):
            self.fail("`while` not supported")
        return super().parse_primary(nostruct)


class _patched_parser:
    """tr_rect.BodyParser builds its sub-parsers with the module-level name `BodyParser`; rebind it while this part parses."""
    def __enter__(self):
        self.old = R.BodyParser
        R.BodyParser = ColorBodyParser

    def __exit__(self, *a):
        R.BodyParser = self.old


# ---------------------------------------------------------------------------------------------------------------
# macro pre-pass: arms, placeholders, repetitions; item scanner
# ---------------------------------------------------------------------------------------------------------------

def toks_text(toks):
    return " ".join(t.text for t in toks)


def split_arms(toks, name, rel):
    """token list of a `macro_rules!` body -> [(matcher tokens, transcriber tokens)]"""
    arms, c = [], R.Cursor(toks)
    while not c.eof():
        if not c.at("("):
            raise Err(f"{rel}: macro_rules! {name}: arm does not start with `(`")
        s, e = c.skip_balanced("(", ")")
        c.expect("=>")
        if not c.at("{"):
            raise Err(f"{rel}: macro_rules! {name}: transcriber is not in braces")
        s2, e2 = c.skip_balanced("{", "}")
        arms.append((toks[s:e], toks[s2:e2]))
        if c.at(";"):
            c.next()
    return arms


def placeholders(toks, name, rel):
    """`$x` -> identifier `__x`; `$( .. ) sep? [*+]` -> its inside, once (one symbolic element)."""
    out, i = [], 0
    while i < len(toks):
        t = toks[i]
        if t.kind == "p" and t.text == "$":
            n = toks[i + 1] if i + 1 < len(toks) else None
            if n is not None and n.kind == "id":
                out.append(R.Tok("id", "__" + n.text, n.line, n.rel))
                i += 2
                continue
            if n is not None and n.text == "(":
                depth, j = 1, i + 2
                while depth:
                    if j >= len(toks):
                        raise Err(f"{rel}: macro_rules! {name}: unbalanced repetition")
                    if toks[j].kind == "p" and toks[j].text == "(":
                        depth += 1
                    elif toks[j].kind == "p" and toks[j].text == ")":
                        depth -= 1
                    j += 1
                inner = toks[i + 2:j - 1]
                if any(x.kind == "p" and x.text == "$" and k + 1 < len(inner) and inner[k + 1].text == "(" for k, x in enumerate(inner)):
                    raise Err(f"{rel}: macro_rules! {name}: nested repetition is not supported")
                if j < len(toks) and toks[j].text in ("*", "+"):
                    j += 1
                elif j + 1 < len(toks) and toks[j].text in (",", ";") and toks[j + 1].text in ("*", "+"):
                    j += 2
                else:
                    raise Err(f"{rel}:{t.line}: macro_rules! {name}: repetition form not understood")
                out.extend(placeholders(inner, name, rel))
                i = j
                continue
            raise Err(f"{rel}:{t.line}: macro_rules! {name}: `$` form not understood")
        out.append(t)
        i += 1
    return out


def strip_attrs(toks, rel):
    """attributes removed; a `cfg` attribute leaves the marker identifier `__cfg__` (the item it gates is not looked into)."""
    out, i = [], 0
    while i < len(toks):
        t = toks[i]
        if t.kind == "p" and t.text == "#":
            j = i + 1
            if toks[j].text == "!":
                j += 1
            if toks[j].text != "[":
                raise Err(f"{rel}:{t.line}: `#` that is not an attribute")
            depth, k = 1, j + 1
            while depth:
                depth += {"[": 1, "]": -1}.get(toks[k].text if toks[k].kind == "p" else "", 0)
                k += 1
            if toks[j + 1].text == "cfg":
                out.append(R.Tok("id", "__cfg__", t.line, rel))
            i = k
            continue
        out.append(t)
        i += 1
    return out


class Unit:
    """the items of one macro arm / one file: fns (tr_rect Fn), consts, tuple structs, enums"""
    def __init__(self, name, rel):
        self.name, self.rel = name, rel
        self.prog = R.Program()
        self.consts = {}      # (impl_type, trait, name) -> (type, (toks, s, e), line)
        self.generics = {}    # fn key -> [("const", name, type) | ("type", name)]
        self.newtypes = {}    # struct name -> field type
        self.impl_generic = {}  # impl_type -> generic header text, for `impl<C: PixelColor> X for C`
        self.order = []       # fn / const keys in source order


def scan_items(c, u, impl_type=None, trait=None):
    rel = u.rel
    while not c.eof():
        R.skip_attrs_and_vis(c)
        if c.eof():
            break
        t = c.peek()
        gated = False
        while c.at("__cfg__"):
            c.next()
            gated = True
            R.skip_attrs_and_vis(c)
            t = c.peek()
        if t.kind != "id":
            raise Err(f"{rel}:{t.line}: {u.name}: unexpected token {t.text!r} where an item should start")
        kw = t.text
        if gated:
            # skip the gated item: up to `;` or past the first braced block
            while not (c.at(";") or c.at("{")):
                if c.at("("):
                    c.skip_balanced("(", ")")
                else:
                    c.next()
            if c.at("{"):
                c.skip_balanced("{", "}")
            else:
                c.next()
            continue
        if kw == "const" and c.at("fn", 1):
            c.next()
            continue
        if kw == "fn":
            c.next()
            i0 = c.i
            fname = c.peek().text
            R.parse_fn(c, u.prog, impl_type, trait, rel)
            key = (impl_type, trait, fname)
            gen = []
            g = R.Cursor(c.t, i0 + 1, c.i)
            if g.at("<"):
                g.next()
                while not g.at(">"):
                    if g.at("const"):
                        g.next()
                        n = g.ident()
                        g.expect(":")
                        gen.append(("const", n, R.parse_type(g)))
                    else:
                        n = g.ident()
                        if g.at(":"):
                            raise Err(f"{rel}: fn {fname}: bounded type parameter not supported")
                        gen.append(("type", n))
                    if g.at(","):
                        g.next()
            u.generics[key] = gen
            u.order.append(("fn", key))
        elif kw == "const":
            c.next()
            n = c.ident()
            c.expect(":")
            ty = R.parse_type(c)
            c.expect("=")
            s = c.i
            while not c.at(";"):
                if c.at("{"):
                    c.skip_balanced("{", "}")
                elif c.at("("):
                    c.skip_balanced("(", ")")
                else:
                    c.next()
            key = (impl_type, trait, n)
            if key in u.consts:
                raise Err(f"{rel}: const {key} defined twice")
            u.consts[key] = (ty, (c.t, s, c.i), t.line)
            u.order.append(("const", key))
            c.next()
        elif kw in ("use", "type", "static"):
            while not c.at(";"):
                if c.at("{"):
                    c.skip_balanced("{", "}")
                else:
                    c.next()
            c.next()
        elif kw == "mod":
            while not (c.at(";") or c.at("{")):
                c.next()
            if c.at("{"):
                c.skip_balanced("{", "}")
            else:
                c.next()
        elif kw == "trait":
            while not c.at("{"):
                c.next()
            c.skip_balanced("{", "}")
        elif kw == "struct" and impl_type is None:
            c.next()
            n = c.ident()
            if c.at("("):
                s, e = c.skip_balanced("(", ")")
                fc = R.Cursor(c.t, s, e)
                R.skip_attrs_and_vis(fc)
                ft = R.parse_type(fc)
                if not fc.eof():
                    raise Err(f"{rel}: struct {n}: more than one field")
                u.newtypes[n] = ft
                c.expect(";")
            else:
                raise Err(f"{rel}: struct {n} is not a one-field tuple struct")
        elif kw == "enum" and impl_type is None:
            c.next()
            n = c.ident()
            s, e = c.skip_balanced("{", "}")
            ec = R.Cursor(c.t, s, e)
            vs = []
            while not ec.eof():
                R.skip_attrs_and_vis(ec)
                if ec.eof():
                    break
                vs.append(ec.ident())
                if not (ec.eof() or ec.at(",")):
                    raise Err(f"{rel}: enum {n}: variant {vs[-1]} carries data")
                if ec.at(","):
                    ec.next()
            u.prog.enums[n] = vs
        elif kw == "impl" and impl_type is None:
            c.next()
            generic = None
            if c.at("<"):
                s0 = c.i
                depth = 0
                while True:
                    x = c.next()
                    depth += {"<": 1, ">": -1}.get(x.text if x.kind == "p" else "", 0)
                    if depth == 0:
                        break
                generic = "".join(x.text for x in c.t[s0:c.i])
            start = c.i
            while not c.at("{"):
                c.next()
            texts = [x.text for x in c.t[start:c.i]]
            if "where" in texts:
                texts = texts[:texts.index("where")]
            if "for" in texts:
                k = texts.index("for")
                tr, ty = "".join(texts[:k]), "".join(texts[k + 1:])
                tr = tr.split("::")[-1] if "<" not in tr else tr
                if tr.startswith("::"):
                    tr = tr[2:]
            else:
                tr, ty = None, "".join(texts)
            s, e = c.skip_balanced("{", "}")
            if not re.fullmatch(r"[A-Za-z_][A-Za-z0-9_]*", ty):
                raise Err(f"{rel}:{t.line}: {u.name}: `impl .. for {ty}` is not understood")
            if generic is not None:
                u.impl_generic[(ty, tr)] = generic
            scan_items(R.Cursor(c.t, s, e), u, impl_type=ty, trait=tr)
        else:
            raise Err(f"{rel}:{t.line}: {u.name}: item starting with `{kw}` is not known to the translator")


# the matcher each macro must have (token text), and what its parameters are bound to.
#   spec  : a type parameter -> a ColorSpec argument of that name; value = class, or a list of classes (one translation each)
#   raw   : a type parameter that is the RAW type of the spec parameter named
#   int   : a type parameter that is the integer type whose width is the given Lean term
#   expr  : an expression parameter -> the given Lean term (an untyped integer)
MACROS = {
    "impl_rgb_color": dict(
        file="rgb_color.rs", arm=0,
        matcher="$ type : ident , $ data_type : ty , $ storage_type : ty , ( $ r_bits : expr , $ g_bits : expr , $ b_bits : expr ) , "
                "( $ r_pos : expr , $ g_pos : expr , $ b_pos : expr ) , $ type_str : expr",
        bind={"type": ("spec", "rgb"), "data_type": ("raw", "type"), "storage_type": ("int", "{type}.storageBits"),
              "r_bits": ("expr", "{type}.rbits"), "g_bits": ("expr", "{type}.gbits"), "b_bits": ("expr", "{type}.bbits"),
              "r_pos": ("expr", "{type}.rpos"), "g_pos": ("expr", "{type}.gpos"), "b_pos": ("expr", "{type}.bpos")},
        defines="rgb"),
    "gray_color": dict(
        file="gray_color.rs", arm=0,
        matcher="$ type : ident , $ raw_type : ident , $ bpp_str : expr",
        bind={"type": ("spec", "gray"), "raw_type": ("raw", "type")},
        defines="gray"),
    "impl_rgb_conversion": dict(
        file="conversion.rs", arm=0, matcher="$ from_type : ident => $ ( $ to_type : ident ) , +",
        bind={"from_type": ("spec", "rgb"), "to_type": ("spec", "rgb")}),
    "impl_gray_conversion": dict(
        file="conversion.rs", arm=0, matcher="$ from_type : ident => $ ( $ to_type : ident ) , +",
        bind={"from_type": ("spec", "gray"), "to_type": ("spec", "gray")}),
    "impl_rgb_to_and_from_gray": dict(
        file="conversion.rs", arm=0, matcher="$ ( $ gray_type : ident ) , + => $ rgb_type : ident",
        bind={"gray_type": ("spec", "gray"), "rgb_type": ("spec", "rgb")}, recursive_arms=True),
    "impl_from_binary": dict(
        file="conversion.rs", arm=0, matcher="$ ( $ type : ident ) , *",
        bind={"type": ("spec", ["rgb", "gray"])}),
    "impl_gray_to_binary": dict(
        file="conversion.rs", arm=0, matcher="$ ( $ type : ident ) , *",
        bind={"type": ("spec", "gray")}),
    "impl_rgb_to_binary": dict(
        file="conversion.rs", arm=0, matcher="$ ( $ type : ident ) , *",
        bind={"type": ("spec", "rgb")}),
}
CONV_MACROS = ["impl_rgb_conversion", "impl_gray_conversion", "impl_rgb_to_and_from_gray", "impl_from_binary",
               "impl_gray_to_binary", "impl_rgb_to_binary"]


def load_units(repo):
    srcs, units = {}, {}
    for f in ("conversion.rs", "rgb_color.rs", "gray_color.rs", "binary_color.rs", "mod.rs"):
        srcs[f] = C._read(repo, PIX + f)
    for name, m in MACROS.items():
        rel = PIX + m["file"]
        body = C._macro_def(srcs[m["file"]], name, rel)
        arms = split_arms(R.tokenize(R.strip_comments(body, rel), rel), name, rel)
        got = toks_text(arms[m["arm"]][0])
        if got != m["matcher"]:
            raise Err(f"{rel}: macro_rules! {name}: the matcher `{got}` is not the one the translator binds (`{m['matcher']}`)")
        for k, (mt, tr) in enumerate(arms):
            if k == m["arm"]:
                continue
            # any other arm may only forward to this macro family (argument plumbing; what it generates is tr_color's count)
            c = R.Cursor(tr)
            while not c.eof():
                n = c.ident()
                c.expect("!")
                c.skip_balanced("(", ")")
                if c.at(";"):
                    c.next()
                if n != name:
                    raise Err(f"{rel}: macro_rules! {name}: arm {k} invokes `{n}!`; only forwarding to `{name}!` is understood")
        u = Unit(name, rel)
        toks = strip_attrs(placeholders(arms[m["arm"]][1], name, rel), rel)
        scan_items(R.Cursor(toks), u)
        units[name] = u
    for f, uname in (("conversion.rs", "conversion"), ("binary_color.rs", "binary"), ("mod.rs", "mod")):
        rel = PIX + f
        top, _ = C._split_macros(srcs[f], rel)
        # macro invocations at item level are tr_color's business (tables); remove them
        top = re.sub(r"\b[A-Za-z_][A-Za-z0-9_]*!\s*\((?:[^()]|\([^()]*\))*\)\s*;", "", top)
        u = Unit(uname, rel)
        scan_items(R.Cursor(strip_attrs(R.tokenize(R.strip_comments(top, rel), rel), rel)), u)
        units[uname] = u
    return units


# ---------------------------------------------------------------------------------------------------------------
# translation
# ---------------------------------------------------------------------------------------------------------------

LIT = ("lit",)
BOOL = ("bool",)
BIN = ("color", "binary", None)


def tint(w):
    return ("int", w)


class Ctx:
    def __init__(self, unit, types, exprs, self_type, suffix=""):
        self.unit, self.types, self.exprs, self.self_type, self.suffix = unit, types, exprs, self_type, suffix


class Tr:
    def __init__(self, units, colors):
        self.units = units
        self.kind_of = {c["name"]: ("rgb" if c["kind"] in ("rgb", "bgr") else c["kind"]) for c in colors}
        self.raw_of = {c["name"]: c["raw"] for c in colors}
        self.out = []          # (lean name, text)
        self.done = {}         # (unit name, suffix, kind, key) -> lean name
        self.busy = []
        self.named = []        # concrete colour type names used
        self.listing = []
        self.class_ctx = {}

    # ---- naming
    @staticmethod
    def lvar(n):
        n = n[2:] if n.startswith("__") else n
        return n + "_" if n in R.LEAN_KEYWORDS or n in ("type",) else n

    def spec_of_name(self, n):
        if n not in self.named:
            self.named.append(n)
        return f"T_{n}"

    # ---- contexts
    def macro_ctx(self, name, classes=None):
        """classes: {param: class} choosing among alternatives; returns Ctx"""
        m, u = MACROS[name], self.units[name]
        types, exprs, suffix = {}, {}, ""
        for p, (k, v) in m["bind"].items():
            if k == "spec":
                cls = v
                if isinstance(v, list):
                    cls = classes[p]
                    suffix += "_" + cls
                types["__" + p] = ("color", cls, self.lvar(p))
        for p, (k, v) in m["bind"].items():
            fmt = {q: self.lvar(q) for q in m["bind"]}
            if k == "raw":
                types["__" + p] = ("raw", self.lvar(v))
            elif k == "int":
                types["__" + p] = tint(v.format(**fmt))
            elif k == "expr":
                exprs["__" + p] = v.format(**fmt)
        return Ctx(u, types, exprs, None, suffix)

    def ctx_for_class(self, cls):
        """the context in which the functions of a colour class are translated (spec variable `T`)"""
        if cls in self.class_ctx:
            return self.class_ctx[cls]
        if cls == "binary":
            cx = Ctx(self.units["binary"], {}, {}, BIN)
        else:
            name = "impl_rgb_color" if cls == "rgb" else "gray_color"
            cx = self.macro_ctx(name)
        self.class_ctx[cls] = cx
        return cx

    def resolve_type(self, t, cx, where):
        if not isinstance(t, str):
            raise Err(f"{where}: type `{R.type_str(t)}` not supported")
        if t == "Self":
            if cx.self_type is None:
                raise Err(f"{where}: `Self` outside an impl")
            return cx.self_type
        if t in INT_TYPES:
            return tint(INT_TYPES[t])
        if t == "bool":
            return BOOL
        if t in cx.types:
            return cx.types[t]
        if t == "BinaryColor":
            return BIN
        if t in self.kind_of:
            return ("color", self.kind_of[t], self.spec_of_name(t))
        owners = [n for n, r in self.raw_of.items() if r == t]
        if owners:
            # a raw type named in a body: the raw type of a colour type that uses it
            pick = "BinaryColor" if "BinaryColor" in owners else owners[0]
            return ("raw", self.spec_of_name(pick))
        raise Err(f"{where}: type `{t}` is not known to the translator")

    @staticmethod
    def lean_type(t):
        return "Bool" if t == BOOL else "Nat"

    def spec_term(self, t):
        return t[2] if t[0] == "color" else t[1]

    # ---- class members
    def class_unit(self, cls):
        return {"rgb": "impl_rgb_color", "gray": "gray_color", "binary": "binary"}[cls]

    def find_member(self, cls, kind, name, trait_pred=None):
        """(unit ctx, key) of a fn / const `name` in any impl for the class's own type"""
        cx = self.ctx_for_class(cls)
        own = "BinaryColor" if cls == "binary" else "__type"
        table = cx.unit.prog.fns if kind == "fn" else cx.unit.consts
        hits = [k for k in table if k[0] == own and k[2] == name and (trait_pred is None or trait_pred(k[1]))]
        if len(hits) != 1:
            raise Err(f"{cx.unit.rel}: {kind} `{name}` of a {cls} colour type: {len(hits)} definitions found")
        return cx, hits[0]

    def unify(self, a, b, where):
        if a == LIT:
            return b
        if b == LIT or a == b:
            return a
        if a[0] == "int" and b[0] == "int" and (a[1] not in INT_RANK or b[1] not in INT_RANK):
            return a        # a symbolic width ($storage_type / Raw::Storage) against another: not comparable here
        raise Err(f"{where}: type mismatch ({a} against {b})")

    # ---- definitions
    def need_fn(self, cx, key, self_type):
        ident = (cx.unit.name, cx.suffix, "fn", key)
        if ident in self.done:
            return self.done[ident]
        if ident in self.busy:
            raise Err(f"{cx.unit.rel}: recursion through {key}")
        self.busy.append(ident)
        f = cx.unit.prog.fns[key]
        where = f"{f.rel}: fn {f.name} ({cx.unit.name})"
        if f.body is None:
            raise Err(f"{where}: no body")
        if getattr(f, "unsupported", None) not in (None, "generic function"):
            raise Err(f"{where}: {f.unsupported}")
        cx2 = Ctx(cx.unit, dict(cx.types), cx.exprs, self_type, cx.suffix)
        env, params = {}, []
        for g in cx.unit.generics.get(key, []):
            if g[0] == "const":
                ty = self.resolve_type(g[2], cx2, where)
                env[g[1]] = ty
                params.append(f"({g[1]} : Nat)")
            else:
                cx2.types[g[1]] = ("tyvar", g[1])
        for s in self.spec_params(cx, key):
            params.append(f"({s} : ColorSpec)")
        if f.self_kind is not None:
            env["self"] = self_type
            params.append("(self : Nat)")
        for (pn, pt) in f.params:
            ty = self.resolve_type(pt, cx2, where)
            env[pn] = ty
            params.append(f"({self.lvar(pn)} : {self.lean_type(ty)})")
        ret = self.resolve_type(f.ret, cx2, where)
        with _patched_parser():
            stmts, tail = ColorBodyParser(*f.body, where).parse_block_body()
        body, bt = self.tr_block(stmts, tail, env, cx2, ret, where, "  ")
        if ret[0] == "tyvar":
            ret = bt
        else:
            self.unify(bt, ret, where)
        name = self.fn_name(cx, key)
        doc = f"/-- `{'impl ' + (key[1] + ' for ' if key[1] else '') + key[0] + ' :: ' if key[0] else ''}fn {f.name}` of {f.rel} ({cx.unit.name}{cx.suffix}) -/"
        text = f"{doc}\ndef {name} {' '.join(params)} : {self.lean_type(ret)} :=\n{body}\n"
        self.emit(name, text)
        self.busy.pop()
        self.done[ident] = name
        self.listing.append((name, f"{f.rel}: {cx.unit.name}{cx.suffix}: " + (f"impl {key[1]} for {key[0]} :: " if key[1] else (f"impl {key[0]} :: " if key[0] else "")) + f"fn {key[2]}"))
        return name

    def need_const(self, cx, key, self_type):
        ident = (cx.unit.name, cx.suffix, "const", key)
        if ident in self.done:
            return self.done[ident]
        if ident in self.busy:
            raise Err(f"{cx.unit.rel}: recursion through const {key}")
        self.busy.append(ident)
        ty, span, line = cx.unit.consts[key]
        where = f"{cx.unit.rel}:{line}: const {key[2]} ({cx.unit.name})"
        cx2 = Ctx(cx.unit, cx.types, cx.exprs, self_type, cx.suffix)
        t = self.resolve_type(ty, cx2, where)
        with _patched_parser():
            p = ColorBodyParser(*span, where)
            e = p.parse_expr()
            if not p.c.eof():
                p.fail("tokens after the const's value")
        v, vt = self.tr_expr(e, {}, cx2, t, where)
        self.unify(vt, t, where)
        name = f"{cx.unit.name}_{key[2]}{cx.suffix}"
        params = " ".join(f"({s} : ColorSpec)" for s in self.spec_params(cx, key))
        text = f"/-- `const {key[2]}: {ty}` of {cx.unit.rel} ({cx.unit.name}) -/\ndef {name} {params} : {self.lean_type(t)} :=\n  {v}\n"
        self.emit(name, text)
        self.busy.pop()
        self.done[ident] = name
        self.listing.append((name, f"{cx.unit.rel}: {cx.unit.name}: const {key[2]}"))
        return name

    def emit(self, name, text):
        if any(n == name for n, _ in self.out):
            raise Err(f"generated name `{name}` used twice")
        self.out.append((name, text))

    def spec_params(self, cx, key):
        """ColorSpec arguments of a translated item: the macro's type parameters named in the impl header (class items: all = `type`)"""
        if cx.unit.name not in MACROS:
            return []
        m = MACROS[cx.unit.name]
        specs = [p for p, (k, _) in m["bind"].items() if k == "spec"]
        if "defines" in m:
            return [self.lvar(p) for p in specs]
        head = (key[0] or "") + " " + (key[1] or "")
        return [self.lvar(p) for p in specs if re.search(r"\b__" + p + r"\b", head)]

    def fn_name(self, cx, key):
        ty, tr, fn = key
        n = lambda s: s[2:] if s.startswith("__") else s
        u = cx.unit.name
        if u in MACROS:
            if tr is None:
                return f"{u}_{fn}{cx.suffix}"
            m = re.fullmatch(r"From<(\w+)>", tr)
            if m:
                return f"{u}_From_{n(m.group(1))}_for_{n(ty)}{cx.suffix}"
            return f"{u}_{fn}{cx.suffix}"       # RgbColor / GrayColor trait functions
        if ty is None:
            return fn
        if tr is None:
            return f"{ty}_{fn}{cx.suffix}"
        m = re.fullmatch(r"From<(\w+)>", tr)
        if m:
            return f"{ty}_From_{m.group(1)}{cx.suffix}"
        return f"{tr}_{fn}{cx.suffix}"

    # ---- statements / expressions
    def tr_block(self, stmts, tail, env, cx, expected, where, ind):
        env = dict(env)
        lines = []
        for (_, line, name, ty, e) in stmts:
            want = self.resolve_type(ty, cx, where) if ty is not None else None
            v, vt = self.tr_expr(e, env, cx, want, f"{where}:{line}")
            if want is not None:
                vt = self.unify(vt, want, f"{where}:{line}")
            if vt == LIT:
                raise Err(f"{where}:{line}: cannot tell the integer type of `{name}`")
            env[name] = vt
            lines.append(f"{ind}let {self.lvar(name)} := {v};")
        if tail is None:
            raise Err(f"{where}: block without a value")
        v, vt = self.tr_expr(tail, env, cx, expected, where)
        lines.append(f"{ind}{v}")
        return "\n".join(lines), vt

    def call_member(self, cls, spec, name, kind, args, env, cx, where, trait_pred=None, self_arg=None):
        mcx, key = self.find_member(cls, kind, name, trait_pred)
        st = ("color", cls, None if cls == "binary" else "T")
        # translate the member in ITS context (spec variable of its macro), call it with the caller's spec term
        st_def = BIN if cls == "binary" else ("color", cls, self.lvar(next(p for p, (k, _) in MACROS[mcx.unit.name]["bind"].items() if k == "spec")))
        if kind == "const":
            ln = self.need_const(mcx, key, st_def)
            ty = self.resolve_type(mcx.unit.consts[key][0], Ctx(mcx.unit, mcx.types, mcx.exprs, st_def), where)
            ty = self.respec(ty, st_def, spec)
            return (f"({ln} {spec})" if spec else ln), ty
        ln = self.need_fn(mcx, key, st_def)
        f = mcx.unit.prog.fns[key]
        dcx = Ctx(mcx.unit, dict(mcx.types), mcx.exprs, st_def)
        gen = mcx.unit.generics.get(key, [])
        for g in gen:
            if g[0] == "type":
                dcx.types[g[1]] = ("tyvar", g[1])
        if len(args) != len(f.params):
            raise Err(f"{where}: `{name}` takes {len(f.params)} argument(s)")
        outs, tv = [], None
        for a, (pn, pt) in zip(args, f.params):
            want = self.respec(self.resolve_type(pt, dcx, where), st_def, spec)
            if want[0] == "tyvar":
                v, vt = self.tr_expr(a, env, cx, tv, where)
                tv = vt if tv is None else self.unify(vt, tv, where)
            else:
                v, vt = self.tr_expr(a, env, cx, want, where)
                self.unify(vt, want, where)
            outs.append(v)
        ret = self.respec(self.resolve_type(f.ret, dcx, where), st_def, spec)
        if ret[0] == "tyvar":
            ret = tv if tv is not None else LIT
        parts = [ln] + ([spec] if spec else []) + ([self_arg] if self_arg is not None else []) + outs
        return "(" + " ".join(parts) + ")", ret

    @staticmethod
    def respec(ty, st_def, spec):
        """a type written in the member's own context, re-expressed with the caller's spec term"""
        if st_def == BIN or spec is None:
            return ty
        d = st_def[2]
        if ty[0] == "color" and ty[2] == d:
            return ("color", ty[1], spec)
        if ty[0] == "raw" and ty[1] == d:
            return ("raw", spec)
        if ty[0] == "int" and ty[1].startswith(d + "."):
            return tint(spec + ty[1][len(d):])
        return ty

    def convert(self, v, src, dst, where):
        """`Dst::from(v)` / `v.into()`"""
        if src == BOOL and dst == BIN:
            cx, key = self.find_member("binary", "fn", "from", lambda tr: tr == "From<bool>")
            return f"({self.need_fn(cx, key, BIN)} {v})", BIN
        if src[0] == "color" and dst[0] == "raw":
            cls = src[1]
            cx = self.ctx_for_class(cls)
            own = "BinaryColor" if cls == "binary" else "__type"
            hits = [k for k in cx.unit.prog.fns if k[2] == "from" and k[1] == f"From<{own}>"]
            if len(hits) != 1:
                raise Err(f"{where}: `From<{own}> for <raw>`: {len(hits)} impls found")
            st_def = BIN if cls == "binary" else ("color", cls, self.lvar("type"))
            ln = self.need_fn(cx, hits[0], ("raw", self.lvar("type")) if cls != "binary" else self.resolve_type(hits[0][0], cx, where))
            return (f"({ln} {src[2]} {v})" if cls != "binary" else f"({ln} {v})"), dst
        if src[0] == "color" and dst[0] == "color" and src[1] in ("rgb", "gray") and src[1] == dst[1]:
            return f"({self.dispatcher(src[1], where)} {src[2]} {dst[2]} {v})", dst
        raise Err(f"{where}: conversion from {src} to {dst} is not known to the translator")

    def dispatcher(self, cls, where):
        name = f"From_{cls}_for_{cls}"
        if any(n == name for n, _ in self.out):
            return name
        macro = {"rgb": "impl_rgb_conversion", "gray": "impl_gray_conversion"}[cls]
        cx = self.macro_ctx(macro)
        key = ("__to_type", "From<__from_type>", "from")
        if key not in cx.unit.prog.fns:
            raise Err(f"{where}: `impl From<$from_type> for $to_type` not found in {macro}!")
        ln = self.need_fn(cx, key, cx.types["__to_type"])
        if self.spec_params(cx, key) != ["from_type", "to_type"]:
            raise Err(f"{where}: unexpected parameter order of {ln}")
        self.emit(name, f"/-- `B::from(x)` / `x.into()` with `x : A`, both {cls} colour types: core's reflexive `impl<T> From<T> for T` when `A` is `B`,\n"
                        f"the impl generated by `{macro}!` otherwise (its existence for the pair is `EG.Generated.convTable`) -/\n"
                        f"def {name} (A B : ColorSpec) (x : Nat) : Nat :=\n  if same_type A B then x else {ln} A B x\n")
        return name

    def tr_expr(self, e, env, cx, expected, where):
        k = e[0]
        w = f"{where}:{e[1]}" if isinstance(e[1], int) else where
        if k == "int":
            ty = tint(INT_TYPES[e[3]]) if e[3] else (expected if expected is not None and expected[0] == "int" else LIT)
            return str(e[2]), ty
        if k == "paren":
            return self.tr_expr(e[2], env, cx, expected, where)
        if k == "block":
            body, t = self.tr_block(e[2], e[3], env, cx, expected, where, "    ")
            return ("(\n" + body + ")") if e[2] else body.strip(), t
        if k == "path":
            segs, generics = e[2], e[3]
            if generics is not None:
                raise Err(f"{w}: generic path outside a call")
            if len(segs) == 1:
                n = segs[0]
                if n in env:
                    return self.lvar(n) if n != "self" else "self", env[n]
                if n in cx.exprs:
                    return cx.exprs[n], LIT
                raise Err(f"{w}: name `{n}` is not known")
            if len(segs) == 2:
                t = self.resolve_type(segs[0], cx, w)
                if t == BIN:
                    if segs[1] not in self.units["binary"].prog.enums.get("BinaryColor", []):
                        raise Err(f"{w}: `BinaryColor::{segs[1]}` is not a variant")
                    return f"BinaryColor_{segs[1]}", BIN
                if t[0] == "color":
                    return self.call_member(t[1], t[2], segs[1], "const", [], env, cx, w)
                if t[0] == "raw" and segs[1] == "BITS_PER_PIXEL":
                    return f"(Raw_BITS_PER_PIXEL {t[1]})", tint("usize_bits")
            raise Err(f"{w}: path `{'::'.join(segs)}` is not known to the translator")
        if k == "tfield":
            v, t = self.tr_expr(e[2], env, cx, None, where)
            if t[0] == "color" and t[1] in ("rgb", "gray"):
                u = self.units[self.class_unit(t[1])]
                ft = u.newtypes.get("__type")
                if ft is None:
                    raise Err(f"{w}: `struct $type(..)` not found in {u.name}!")
                dcx = self.ctx_for_class(t[1])
                fty = self.respec(self.resolve_type(ft, dcx, w), ("color", t[1], self.lvar("type")), t[2])
                return f"(newtype_0 {v})", fty
            raise Err(f"{w}: `.0` on {t}")
        if k == "cast":
            dst = self.resolve_type(e[3], cx, w)
            if dst[0] != "int":
                raise Err(f"{w}: cast to {dst}")
            v, t = self.tr_expr(e[2], env, cx, None, where)
            if t != LIT and t[0] != "int":
                raise Err(f"{w}: cast of {t}")
            return f"(int_as {dst[1]} {v})", dst
        if k == "bin":
            op, a, b = e[2], e[3], e[4]
            if op in ("<<", ">>"):
                va, ta = self.tr_expr(a, env, cx, expected, where)
                if ta == LIT:
                    ta = expected if expected is not None and expected[0] == "int" else LIT
                if ta == LIT or ta[0] != "int":
                    raise Err(f"{w}: cannot tell the integer type of the left operand of `{op}`")
                vb, tb = self.tr_expr(b, env, cx, None, where)
                if tb != LIT and tb[0] != "int":
                    raise Err(f"{w}: shift amount of type {tb}")
                return (f"(int_shl {ta[1]} {va} {vb})" if op == "<<" else f"(int_shr {va} {vb})"), ta
            cmp_ = op in R.CMP_OPS
            va, ta = self.tr_expr(a, env, cx, None if cmp_ else expected, where)
            vb, tb = self.tr_expr(b, env, cx, ta if ta != LIT else (None if cmp_ else expected), where)
            t = self.unify(ta, tb, w)
            if t == LIT and not cmp_ and expected is not None and expected[0] == "int":
                t = expected
            if t != LIT and t[0] != "int":
                raise Err(f"{w}: operator `{op}` on {t}")
            if cmp_:
                return f"(int_{R.BIN_CMP[op]} {va} {vb})", BOOL
            if op in ("&", "|"):
                return f"(int_{'and' if op == '&' else 'or'} {va} {vb})", t
            if op == "/":
                return f"(int_div {va} {vb})", t
            if op in ("+", "-", "*"):
                if t == LIT:
                    raise Err(f"{w}: cannot tell the integer type of `{op}`")
                return f"(int_{R.BIN_ARITH[op]} {t[1]} {va} {vb})", t
            raise Err(f"{w}: operator `{op}` not supported")
        if k == "if":
            c_, ct = self.tr_expr(e[2], env, cx, BOOL, where)
            if ct != BOOL:
                raise Err(f"{w}: condition of type {ct}")
            if e[4] is None:
                raise Err(f"{w}: `if` without `else` used as a value")
            a, ta = self.tr_expr(e[3], env, cx, expected, where)
            b, tb = self.tr_expr(e[4], env, cx, expected, where)
            return f"(if {c_} then\n      {a}\n    else\n      {b})", self.unify(ta, tb, w)
        if k == "match":
            s, st = self.tr_expr(e[2], env, cx, None, where)
            if st != BIN:
                raise Err(f"{w}: `match` on {st} (only on a BinaryColor)")
            variants = self.units["binary"].prog.enums["BinaryColor"]
            seen, arms = [], []
            for (pat, body) in e[3]:
                if pat[0] != "ppath" or len(pat[2]) != 2 or self.resolve_type(pat[2][0], cx, w) != BIN or pat[2][1] not in variants:
                    raise Err(f"{w}: match arm pattern not supported (only `BinaryColor::<Variant>`)")
                if pat[2][1] in seen:
                    raise Err(f"{w}: variant matched twice")
                seen.append(pat[2][1])
                arms.append((pat[2][1], self.tr_expr(body, env, cx, expected, where)))
            if sorted(seen) != sorted(variants):
                raise Err(f"{w}: match does not list every variant exactly once")
            t = arms[0][1][1]
            txt = arms[-1][1][0]
            for (vn, (bv, bt)) in reversed(arms[:-1]):
                t = self.unify(t, bt, w)
                txt = f"(if BinaryColor_is {s} BinaryColor_{vn} then {bv} else {txt})"
            return txt, self.unify(t, arms[-1][1][1], w)
        if k == "callexpr":
            fe, args = e[2], e[3]
            if fe[0] != "path":
                raise Err(f"{w}: call of a computed function")
            segs, generics = fe[2], fe[3]
            if len(segs) == 1 and segs[0] == "Self":
                # tuple-struct constructor of the impl's type
                st = cx.self_type
                if st is None or st[0] != "color" or st[1] not in ("rgb", "gray") or len(args) != 1:
                    raise Err(f"{w}: `Self(..)` is only known for the one-field colour structs")
                ft = self.units[self.class_unit(st[1])].newtypes.get("__type")
                fty = self.resolve_type(ft, cx, w)
                v, vt = self.tr_expr(args[0], env, cx, fty, where)
                self.unify(vt, fty, w)
                return f"(newtype_mk {v})", st
            if len(segs) == 1:
                u = self.units["conversion"]
                key = (None, None, segs[0])
                if key not in u.prog.fns:
                    raise Err(f"{w}: function `{segs[0]}` not found in {u.rel}")
                fcx = Ctx(u, {}, {}, None)
                ln = self.need_fn(fcx, key, None)
                f = u.prog.fns[key]
                gen = u.generics.get(key, [])
                if len(generics or []) != len(gen) or len(args) != len(f.params):
                    raise Err(f"{w}: wrong number of (generic) arguments for `{segs[0]}`")
                outs = []
                for g, a in zip(gen, generics or []):
                    want = self.resolve_type(g[2], fcx, w)
                    v, vt = self.tr_expr(a, env, cx, want, where)
                    self.unify(vt, want, w)
                    outs.append(v)
                for a, (pn, pt) in zip(args, f.params):
                    want = self.resolve_type(pt, fcx, w)
                    v, vt = self.tr_expr(a, env, cx, want, where)
                    self.unify(vt, want, w)
                    outs.append(v)
                return "(" + " ".join([ln] + outs) + ")", self.resolve_type(f.ret, fcx, w)
            if len(segs) == 2 and generics is None:
                t = self.resolve_type(segs[0], cx, w)
                fn = segs[1]
                if fn == "from" and len(args) == 1:
                    v, vt = self.tr_expr(args[0], env, cx, None, where)
                    if t[0] == "int":
                        if vt == LIT or vt[0] != "int" or vt[1] not in INT_RANK or t[1] not in INT_RANK or INT_RANK[vt[1]] > INT_RANK[t[1]]:
                            raise Err(f"{w}: `{segs[0]}::from` of {vt} is not a lossless integer conversion the translator knows")
                        return f"(int_from {v})", t
                    return self.convert(v, vt, t, w)
                if fn == "new" and t[0] == "raw" and len(args) == 1:
                    want = tint(f"{t[1]}.rawStorageBits")
                    v, vt = self.tr_expr(args[0], env, cx, want, where)
                    if vt != LIT and vt[0] != "int":
                        raise Err(f"{w}: `{segs[0]}::new` of {vt}")
                    return f"(Raw_new {t[1]} {v})", t
                if t[0] == "color" and t[1] in ("rgb", "gray"):
                    return self.call_member(t[1], t[2], fn, "fn", args, env, cx, w, lambda tr: tr is None or not tr.startswith("From<"))
            raise Err(f"{w}: call `{'::'.join(segs)}(..)` is not known to the translator")
        if k == "mcall":
            recv, name, args = e[2], e[3], e[4]
            v, t = self.tr_expr(recv, env, cx, None, where)
            if name == "into" and not args:
                if t[0] == "color" and expected is None:
                    # `PixelColor: Into<Self::Raw>` is the only `Into` bound a generic colour has
                    spec = t[2] if t[1] != "binary" else self.spec_of_name("BinaryColor")
                    return self.convert(v, t, ("raw", spec), w)
                if expected is None:
                    raise Err(f"{w}: cannot tell the target type of `.into()`")
                return self.convert(v, t, expected, w)
            if name == "into_inner" and not args and t[0] == "raw":
                return f"(Raw_into_inner {v})", tint(f"{t[1]}.rawStorageBits")
            if t[0] == "color":
                return self.call_member(t[1], t[2], name, "fn", args, env, cx, w,
                                        lambda tr: tr is None or not tr.startswith("From<"), self_arg=v)
            raise Err(f"{w}: method `{name}` on {t} is not known to the translator")
        raise Err(f"{w}: expression form `{k}` not supported")


# ---------------------------------------------------------------------------------------------------------------
# driver
# ---------------------------------------------------------------------------------------------------------------

HEADER = """/-
  EG.Generated.ColorSrc — GENERATED by tools/tr_colorsrc.py from /repo/core/src/pixelcolor. Do not edit.

  One `def` per Rust function per MACRO (symbolic in the macro's parameters: a type parameter is a `ColorSpec`
  argument, `$r_pos` is `T.rpos`, `$storage_type` is the integer type of `T.storageBits` bits ...), mirroring the
  Rust text arm for arm. Every Rust primitive is a function of the hand-written prelude
  EG/Model/ColorSrcPrelude.lean. The theorems `*_src_eq_model` of EG/Props/C12/Generated.lean and
  EG/Props/C13/Generated.lean prove these definitions equal to the hand-written models EG/Model/Color.lean and
  EG/Model/Conv.lean.
-/
import EG.Model.ColorSrcPrelude
set_option linter.unusedVariables false
namespace EG.Generated.ColorSrc
open EG EG.ColorSrcPrelude

"""


def color_classes(repo):
    """[{name, kind, raw}] of the colour types: the first two arguments of every `rgb_color!` / `gray_color!` invocation and
    `BinaryColor` with the `Raw` type of its `impl PixelColor`. (tr_color.parse_colors reads the same invocations for the
    generated table and checks them against its independent census; it is not called here because it also refuses, by
    regular expressions, rewrites of the very bodies this part translates.)"""
    out = []
    for f, macro, kind in (("rgb_color.rs", "rgb_color", "rgb"), ("gray_color.rs", "gray_color", "gray")):
        rel = PIX + f
        for a in C._invocations(C._read(repo, rel), macro, rel):
            m = re.match(rf"({C.IDENT})\s*,\s*({C.IDENT})\s*,", a)
            if not m:
                raise Err(f"{rel}: cannot read {macro}!({a})")
            out.append(dict(name=m.group(1), kind=kind, raw=m.group(2)))
    rel = PIX + "binary_color.rs"
    m = re.search(rf"impl\s+PixelColor\s+for\s+BinaryColor\s*\{{\s*type\s+Raw\s*=\s*({C.IDENT})\s*;", C._read(repo, rel))
    if not m:
        raise Err(f"{rel}: `impl PixelColor for BinaryColor {{ type Raw = ..; }}` not found")
    out.append(dict(name="BinaryColor", kind="binary", raw=m.group(1)))
    names = [c["name"] for c in out]
    if len(set(names)) != len(names) or sum(1 for c in out if c["kind"] == "rgb") == 0 or sum(1 for c in out if c["kind"] == "gray") == 0:
        raise Err("colour type names are not unique, or no RGB / gray type was found")
    return out


def check_invocation_classes(repo, colors):
    """every type argument of every invocation of a conversion macro is of a class the binding in MACROS allows for the
    parameter on that side of `=>` (so the symbolic translation covers every invocation)"""
    kind_of = {c["name"]: c["kind"] for c in colors}
    rel = PIX + "conversion.rs"
    src = C._read(repo, rel)
    for mn in CONV_MACROS:
        m = MACROS[mn]
        sides = [re.findall(r"\$ (\w+) : ident", part) for part in m["matcher"].split("=>")]
        invs = C._invocations(src, mn, rel)
        if not invs:
            raise Err(f"{rel}: no invocation of {mn}! found")
        for a in invs:
            parts = a.split("=>")
            if len(parts) != len(sides):
                raise Err(f"{rel}: {mn}!({a}): unexpected shape")
            for part, ps in zip(parts, sides):
                if len(ps) != 1:
                    raise Err(f"{rel}: {mn}!: matcher side with {len(ps)} type parameters")
                allowed = m["bind"][ps[0]][1]
                allowed = allowed if isinstance(allowed, list) else [allowed]
                for n in [x.strip() for x in part.split(",") if x.strip()]:
                    if kind_of.get(n) not in allowed:
                        raise Err(f"{rel}: {mn}!({a}): `{n}` is not a {' / '.join(allowed)} colour type (parameter ${ps[0]})")


def translate(repo):
    colors = color_classes(repo)
    check_invocation_classes(repo, colors)
    units = load_units(repo)
    tr = Tr(units, colors)
    enum = units["binary"].prog.enums.get("BinaryColor")
    if enum is None or sorted(enum) != ["Off", "On"]:
        raise Err(f"{PIX}binary_color.rs: `enum BinaryColor` with exactly the variants Off, On expected (found {enum})")
    # the struct declarations the newtype primitives rest on
    for mn, want in (("impl_rgb_color", "__storage_type"), ("gray_color", "__raw_type")):
        if units[mn].newtypes.get("__type") != want:
            raise Err(f"{units[mn].rel}: `pub struct $type(${want[2:]});` expected in {mn}!")
    # ---- conversion.rs: the two helpers, then every function of every conversion macro
    ucv = units["conversion"]
    for key in [k for kind, k in ucv.order if kind == "fn"]:
        tr.need_fn(Ctx(ucv, {}, {}, None), key, None)
    for mn in CONV_MACROS:
        alts = [(p, v) for p, (k, v) in MACROS[mn]["bind"].items() if k == "spec" and isinstance(v, list)]
        choices = [dict()] if not alts else [{alts[0][0]: c} for c in alts[0][1]]
        for ch in choices:
            cx = tr.macro_ctx(mn, ch)
            if not any(kind == "fn" for kind, _ in cx.unit.order):
                raise Err(f"{cx.unit.rel}: {mn}!: no function found")
            for kind, key in cx.unit.order:
                if kind != "fn":
                    raise Err(f"{cx.unit.rel}: {mn}!: const item not expected")
                st = tr.resolve_type(key[0], cx, mn)
                tr.need_fn(cx, key, st)
    # ---- the colour types: every const and every function of impl_rgb_color! / gray_color! except formatting
    for cls in ("rgb", "gray"):
        cx = tr.ctx_for_class(cls)
        for kind, key in cx.unit.order:
            if key[1] in ("fmt::Debug", "Debug", "Format", "defmt::Format", "::defmt::Format"):
                continue
            st = tr.resolve_type(key[0], cx, cx.unit.name)
            (tr.need_fn if kind == "fn" else tr.need_const)(cx, key, st)
    bcx = tr.ctx_for_class("binary")
    untranslated = []
    for kind, key in bcx.unit.order:
        if kind == "fn" and (key[2] in ("map_color",) or (key[1] or "").startswith("From<")):
            tr.need_fn(bcx, key, tr.resolve_type(key[0], bcx, "binary_color.rs"))
        else:
            untranslated.append(f"{key[0]}::{key[2]}" + (f" ({key[1]})" if key[1] else ""))
    # ---- IntoStorage::into_storage of the blanket impl, once per class
    um = units["mod"]
    keys = [k for kind, k in um.order if kind == "fn" and k[2] == "into_storage" and k[1] == "IntoStorage"]
    if len(keys) != 1 or (keys[0][0], "IntoStorage") not in um.impl_generic:
        raise Err(f"{um.rel}: the blanket `impl<C: PixelColor> IntoStorage for C` was not found")
    if um.impl_generic[(keys[0][0], "IntoStorage")] != f"<{keys[0][0]}:PixelColor>":
        raise Err(f"{um.rel}: bounds of the IntoStorage impl changed: {um.impl_generic[(keys[0][0], 'IntoStorage')]}")
    for cls in ("rgb", "gray", "binary"):
        st = BIN if cls == "binary" else ("color", cls, "T")
        cx = Ctx(um, {keys[0][0]: st}, {}, st, "_" + cls)
        ident = (um.name, cx.suffix, "fn", keys[0])
        # the spec argument of the generic impl
        f = um.prog.fns[keys[0]]
        where = f"{um.rel}: fn into_storage ({cls})"
        with _patched_parser():
            stmts, tail = ColorBodyParser(*f.body, where).parse_block_body()
        body, bt = tr.tr_block(stmts, tail, {"self": st}, cx, None, where, "  ")
        if bt[0] != "int":
            raise Err(f"{where}: result type {bt}")
        name = f"IntoStorage_into_storage_{cls}"
        params = "(self : Nat)" if cls == "binary" else "(T : ColorSpec) (self : Nat)"
        tr.emit(name, f"/-- `impl<C: PixelColor> IntoStorage for C :: fn into_storage` of {um.rel}, `C` a {cls} colour type -/\n"
                      f"def {name} {params} : Nat :=\n{body}\n")
        tr.listing.append((name, f"{um.rel}: into_storage ({cls})"))
    o = [HEADER]
    for n in tr.named:
        o.append(f"/-- the colour type `{n}` named in a body -/\ndef T_{n} : ColorSpec := type_named \"{n}\"\n\n")
    for _, text in tr.out:
        o.append(text + "\n")
    o.append("/-- every translated item: (Lean name, Rust origin) -/\ndef translated : List (String × String) := [\n")
    o.append(",\n".join(f'  ("{a}", "{b}")' for a, b in tr.listing))
    o.append("\n]\n\n/-- functions of `BinaryColor`'s impls that are NOT translated -/\ndef untranslated : List String := [")
    o.append(", ".join(f'"{x}"' for x in untranslated))
    o.append("]\n\nend EG.Generated.ColorSrc\n")
    return "".join(o), {"functions": len(tr.out), "untranslated": untranslated, "named_types": tr.named}


def failed_file(reason):
    r = reason.replace("\\", "\\\\").replace('"', '\\"').replace("\n", " ")
    return ("/-\n  EG.Generated.ColorSrc — GENERATED by tools/tr_colorsrc.py. THE TRANSLATION FAILED: the Rust source of the colour\n"
            "  layer contains a construct the translator does not know. No function is defined here, so the `_src_eq_model`\n"
            "  theorems of EG/Props/C12/Generated.lean and EG/Props/C13/Generated.lean do not build.\n-/\n"
            "namespace EG.Generated.ColorSrc\n\n"
            f"def translationFailed : String := \"{r}\"\n\nend EG.Generated.ColorSrc\n")


def generate(repo):
    try:
        text, info = translate(repo)
        return {"ColorSrc.lean": text}, info
    except (Err, C.TieError) as ex:
        reason = str(ex)
    except RecursionError:
        reason = "recursion limit reached while parsing"
    except Exception as ex:
        reason = f"internal error {type(ex).__name__}: {ex}"
    return {"ColorSrc.lean": failed_file(reason)}, {"failed": reason}


if __name__ == "__main__":
    import json
    import sys
    repo = os.environ.get("EG_REPO", "/repo")
    if len(sys.argv) > 1 and sys.argv[1] == "--strict":
        t, i = translate(repo)
        print(t)
    else:
        files, info = generate(repo)
        print(files["ColorSrc.lean"])
        print(json.dumps(info), file=sys.stderr)
