#!/usr/bin/env python3
"""Print the diff of a commit with the hunks that only touch `#[cfg(test)]` modules removed.
usage: strip_test_hunks.py <repo> <commit>   (diff against its first parent)"""
import subprocess, sys, re
repo, commit = sys.argv[1], sys.argv[2]
diff = subprocess.run(["git", "-C", repo, "diff", "-U3", f"{commit}^", commit], capture_output=True, text=True).stdout
files = re.split(r"(?m)^(?=diff --git )", diff)
out = []
for f in files:
    if not f.strip():
        continue
    m = re.search(r"^\+\+\+ b/(.*)$", f, re.M)
    if not m:
        continue
    path = m.group(1)
    new = subprocess.run(["git", "-C", repo, "show", f"{commit}:{path}"], capture_output=True, text=True).stdout.split("\n")
    test_start = None
    for i, l in enumerate(new, 1):
        if l.strip() == "#[cfg(test)]":
            test_start = i
            break
    head, *hunks = re.split(r"(?m)^(?=@@ )", f)
    kept = []
    for h in hunks:
        mm = re.match(r"@@ -(\d+)(?:,(\d+))? \+(\d+)(?:,(\d+))? @@", h)
        new_start = int(mm.group(3))
        # first changed line in the new file
        off = 0
        first_change = None
        for l in h.split("\n")[1:]:
            if (l.startswith("+") or l.startswith("-")) and l[1:].strip():
                first_change = new_start + off
                break
            off += 1
        if test_start is not None and first_change is not None and first_change >= test_start:
            continue
        kept.append(h)
    if kept:
        out.append(head + "".join(kept))
sys.stdout.write("".join(out))
