#!/usr/bin/env python3
"""tr_trisrc.py — SOURCE-TO-LEAN translator for the TRIANGLE and POLYLINE code that C19 and C05 rest on.

Reads, from /repo's current working tree,
  src/primitives/triangle/mod.rs                `Triangle::{new, from_slice, area_doubled, sorted_clockwise, sorted_yx,
                                                scanline_intersection}`, `sort_two_yx`, `ContainsPoint::contains`,
                                                `Dimensions::bounding_box`, `PointsIter::points`
  src/primitives/triangle/scanline_intersections.rs  `ScanlineIntersections::{new, empty, reset_with_new_scanline,
                                                generate_lines}`, `Iterator::next` (not `edge_intersections`)
  src/primitives/triangle/scanline_iterator.rs  `ScanlineIterator::{new, empty}`, `Iterator::next`
  src/primitives/triangle/points.rs             `Points::new`, `Iterator::next`
  src/primitives/polyline/mod.rs                `Polyline::new`, `PointsIter::points`, `Transform::translate`
  src/primitives/polyline/points.rs             `Points::new`, `Iterator::next` (with its `self.nth(1)`)
and writes EG/Generated/TriSrc.lean: one Lean `def` per Rust function, mirroring the Rust text arm for arm.

REUSE (tools/tr_rect.py is imported, not edited): tokenizer, `Cursor`, the statement / expression / pattern parser
`BodyParser`, `contains_kind`, the failure-file convention. `TriBodyParser(tr_rect.BodyParser)` adds what these sources
use and Rectangle's do not: `?`, indexing `a[i]`, tuple fields `.0`, array literals `[a, b, c]` / `&[]`, array / slice
patterns `[p1, p2, p3]`, tuple-pattern closure parameters, `panic!(..)`, `#[allow(..)]` on a statement, an assignment as
the last thing of a block (`parse_block_body` is a COPY of tr_rect's with these two added). tr_rect.BodyParser builds its sub-parsers
through the module global `BodyParser`; it is rebound to the subclass only while this part parses (`scoped_parser`,
restored in `finally`). `parse_postfix_from` is a COPY of tr_rect's with the three postfix forms added. The item scanner
(lifetime-generic impls and structs, slice / array types), the tiny type inference and the emitter are this file's own:
tr_rect's `Translator` is built around `Point` / `Size` / `Rectangle` signatures and knows no arrays, slices, `?`,
closures that write to `self`, or recursion through `Iterator::nth`.

The emitter is syntax-directed and dumb. Every Rust primitive becomes a call of a function of a hand-written TRUSTED
prelude: `lean/EG/Model/RectSrcPrelude.lean` (`i32_add`, `bool_and`, `range_i32_next` ...) and
`lean/EG/Model/TriSrcPrelude.lean` (`Triangle_vertices`, `array3_index`, `i32_cmp`, `slice_split_first`,
`option_and_then`, `option_or_else_st`, `iter_chain`, `iter_any`, `iterator_nth`, `rust_panic` ...). `Point::new`,
`Point + Point`, `Rectangle::with_corners / contains / rows` are the REGENERATED functions of `RectSrc.lean`. Code that
is not regenerated here and is called: `Scanline` (common/scanline.rs), `Line::new` / `line::Points` (line/*.rs), the
iterator returned by `ScanlineIntersections::edge_intersections` (thick strokes) - the prelude binds those calls to the
hand models - and `Triangle::is_collapsed` (thick strokes; an unspecified `opaque` function of the prelude).
Beyond re-spelling the translator
  * resolves a method / operator by the TYPE of its receiver (types from signatures, struct declarations and the
    tables below),
  * turns early `return`, `?` and statement-position `if` into nested expressions by copying the rest of the block into
    the arms (a `let x = { .. return .. };` block is flattened into its parent first),
  * threads `&mut self` and `let mut` locals: a method that mutates its receiver returns (value, receiver after), the
    receiver is re-bound (`let self := ..`); a `&mut self` function returns (value, self after); a closure passed to
    `or_else` that writes to `self` becomes `option_or_else_st v self (fun self => ..)`;
  * gives a function that calls `self.nth(k)` on its own iterator (recursion through the default `Iterator::nth`) an
    explicit `fuel` argument (structural recursion; fuel 0 yields `None`).
Anything unknown raises `TrError` (never skipped); `generate` then writes a TriSrc.lean that only contains
`def translationFailed`, so exactly the theorems of EG/Props/C19/Generated*.lean and EG/Props/C05/GeneratedTriangle.lean
stop building.
"""
import contextlib
import os
import re
import sys

sys.path.insert(0, os.path.dirname(os.path.abspath(__file__)))
import tr_rect
from tr_rect import RectTrError as TrError, Cursor, tokenize, strip_comments, LEAN_KEYWORDS, contains_kind

# (module tag, file)
FILES = [
    ("tri", "src/primitives/triangle/mod.rs"),
    ("tri", "src/primitives/triangle/scanline_intersections.rs"),
    ("tri", "src/primitives/triangle/scanline_iterator.rs"),
    ("tri", "src/primitives/triangle/points.rs"),
    ("poly", "src/primitives/polyline/mod.rs"),
    ("poly", "src/primitives/polyline/points.rs"),
]

# type names that depend on the module (`Points` is two different structs)
MODULE_TYPES = {("tri", "Points"): "TriPoints", ("poly", "Points"): "PolyPoints"}
# paths of types as written in the sources
PATH_TYPES = {("line", "Points"): "LinePoints"}

# (impl type, trait or None, fn name) in emission order (callees first is not needed: `need` is on demand)
ROOTS = [
    (None, None, "sort_two_yx"),
    ("Triangle", None, "new"), ("Triangle", None, "from_slice"), ("Triangle", None, "area_doubled"),
    ("Triangle", None, "sorted_yx"), ("Triangle", None, "sorted_clockwise"),
    ("Triangle", "Dimensions", "bounding_box"), ("Triangle", "ContainsPoint", "contains"),
    ("Triangle", None, "scanline_intersection"),
    ("ScanlineIntersections", None, "empty"), ("ScanlineIntersections", None, "generate_lines"),
    ("ScanlineIntersections", None, "reset_with_new_scanline"), ("ScanlineIntersections", None, "new"),
    ("ScanlineIntersections", "Iterator", "next"),
    ("ScanlineIterator", None, "empty"), ("ScanlineIterator", None, "new"), ("ScanlineIterator", "Iterator", "next"),
    ("TriPoints", None, "new"), ("TriPoints", "Iterator", "next"), ("Triangle", "PointsIter", "points"),
    ("Polyline", None, "new"), ("Polyline", "Transform", "translate"),
    ("PolyPoints", None, "new"), ("PolyPoints", "Iterator", "next"), ("Polyline", "PointsIter", "points"),
]
INVENTORY_TYPES = ["Triangle", "ScanlineIntersections", "ScanlineIterator", "TriPoints", "Polyline", "PolyPoints"]

OPT = lambda t: ("Option", t)
# structs whose Lean type is a hand model (prelude accessors `<T>_<field>`, `<T>_set_<field>`, constructor `<T>_mk`)
EXT_STRUCTS = {
    "Point": [("x", "i32"), ("y", "i32")],
    "Triangle": [("vertices", ("array3", "Point"))],
    "Polyline": [("translate", "Point"), ("vertices", ("slice", "Point"))],
    "Scanline": [("y", "i32"), ("x", "RangeI32")],
    "RangeI32": [("start", "i32"), ("end", "i32")],
}
# the declaration of `Scanline` (src/primitives/common/scanline.rs, not parsed otherwise) must be this text
SCANLINE_DECL = ("src/primitives/common/scanline.rs", "pub struct Scanline {\n    pub y: i32,\n    pub x: Range<i32>,\n}")
# structs declared in the parsed files that become Lean structures of the generated file
GEN_STRUCTS = ["LineConfig", "ScanlineIntersections", "ScanlineIterator", "TriPoints", "PolyPoints"]
LEAN_STRUCT_NAME = {"LineConfig": "LineConfigS", "ScanlineIntersections": "ScanlineIntersectionsS",
                    "ScanlineIterator": "ScanlineIteratorS", "TriPoints": "TriPointsS", "PolyPoints": "PolyPointsS"}
LEAN_TYPES = {
    "i32": "Int", "u32": "Nat", "usize": "Nat", "bool": "Bool", "unit": "Unit", "Point": "Point", "Rectangle": "Rectangle",
    "Triangle": "EG.Triangle", "Polyline": "EG.Polyline", "Scanline": "EG.Scanline", "Line": "EG.Line",
    "LinePoints": "EG.Line.PointsIt", "EdgeIntersections": "EdgeIntersections", "PointType": "EG.PointType",
    "StrokeOffset": "StrokeOffset", "Ordering": "Ordering", "RangeI32": "RangeI32",
}
# associated functions of types that are not regenerated here: (type, name) -> (lean, parameter types, result)
ASSOC = {
    ("Point", "new"): ("RectSrc.Point_new", ["i32", "i32"], "Point"),
    ("Point", "zero"): ("RectSrc.Point_zero", [], "Point"),
    ("Rectangle", "with_corners"): ("RectSrc.with_corners", ["Point", "Point"], "Rectangle"),
    ("Scanline", "new_empty"): ("Scanline_new_empty", ["i32"], "Scanline"),
    ("Line", "new"): ("Line_new", ["Point", "Point"], "Line"),
    ("LinePoints", "empty"): ("LinePoints_empty", [], "LinePoints"),
}
# methods: (receiver type, name) -> (lean, parameter types, result, mutates receiver)
METHODS = {
    ("Rectangle", "contains"): ("RectSrc.contains", ["Point"], "bool", False),
    ("Rectangle", "rows"): ("RectSrc.rows", [], "RangeI32", False),
    ("RangeI32", "next"): ("range_i32_next", [], OPT("i32"), True),
    ("Scanline", "next"): ("Scanline_next", [], OPT("Point"), True),
    ("Scanline", "bresenham_intersection"): ("Scanline_bresenham_intersection", ["Line"], "unit", True),
    ("Line", "points"): ("Line_points", [], "LinePoints", False),
    ("LinePoints", "next"): ("LinePoints_next", [], OPT("Point"), True),
    ("Scanline", "try_take"): ("Scanline_try_take", [], OPT("Scanline"), True),
    # NOT regenerated (thick strokes: `LineJoin`, `ThickSegment`): bound to the prelude. `edge_intersections` returns a
    # `from_fn` closure that captures `self` and reads `triangle`, `stroke_width`, `stroke_offset`: those are passed.
    ("ScanlineIntersections", "edge_intersections"): ("ScanlineIntersections_edge_intersections {r}.triangle {r}.stroke_width {r}.stroke_offset",
                                                       ["i32"], "EdgeIntersections", False),
    ("EdgeIntersections", "next"): ("EdgeIntersections_next", [], OPT("Scanline"), True),
    ("Triangle", "is_collapsed"): ("Triangle_is_collapsed", ["u32", "StrokeOffset"], "bool", False),
    ("i32", "cmp"): ("i32_cmp", ["i32"], "Ordering", False),
    ("i32", "min"): ("i32_min", ["i32"], "i32", False),
    ("i32", "max"): ("i32_max", ["i32"], "i32", False),
}
FREE_FNS = {"min": ("i32_min", ["i32", "i32"], "i32"), "max": ("i32_max", ["i32", "i32"], "i32")}
# enum constructors (patterns and values)
CTORS = {
    ("Ordering", "Less"): ("Ordering.lt", "Ordering"), ("Ordering", "Equal"): ("Ordering.eq", "Ordering"),
    ("Ordering", "Greater"): ("Ordering.gt", "Ordering"),
    ("StrokeOffset", "None"): ("StrokeOffset.None", "StrokeOffset"), ("StrokeOffset", "Left"): ("StrokeOffset.Left", "StrokeOffset"),
    ("StrokeOffset", "Right"): ("StrokeOffset.Right", "StrokeOffset"),
    ("PointType", "Stroke"): ("EG.PointType.stroke", "PointType"), ("PointType", "Fill"): ("EG.PointType.fill", "PointType"),
}
BIN_ARITH = {"+": "add", "-": "sub", "*": "mul", "/": "div"}
BIN_CMP = {"==": "eq", "!=": "ne", "<": "lt", ">": "gt", "<=": "le", ">=": "ge"}


# ---------------------------------------------------------------------------------------------------------------
# parser additions
# ---------------------------------------------------------------------------------------------------------------

class TriBodyParser(tr_rect.BodyParser):
    def sub(self, s, e):
        return TriBodyParser(self.c.t, s, e, self.where)

    def parse_pattern1(self):
        c = self.c
        t = c.peek()
        if t is not None and c.at("["):
            s, e = c.skip_balanced("[", "]")
            sub = self.sub(s, e)
            items = []
            while not sub.c.eof():
                if sub.c.at(".."):
                    sub.fail("rest patterns `..` not supported")
                items.append(sub.parse_pattern())
                if sub.c.at(","):
                    sub.c.next()
                elif not sub.c.eof():
                    sub.fail("`,` expected in slice pattern")
            return ("parray", t.line, items)
        return super().parse_pattern1()

    def parse_closure(self):
        c = self.c
        t = c.next()
        if t.text == "move":
            t = c.next()
        params = []
        if t.text == "|":
            while not c.at("|"):
                p = self.parse_pattern1()
                if p[0] not in ("pbind", "ptuple") or (p[0] == "ptuple" and any(q[0] != "pbind" for q in p[2])):
                    self.fail("closure parameter must be a name or a tuple of names")
                if c.at(":"):
                    self.fail("closure parameter type annotations not supported")
                params.append(p)
                if c.at(","):
                    c.next()
            c.next()
        body = self.parse_expr()
        return ("closure", t.line, params, body)

    def parse_postfix_from(self, e, nostruct):
        # COPY of tr_rect.BodyParser.parse_postfix_from with `?`, `[i]` and `.0` added
        c = self.c
        while True:
            if c.at("?"):
                t = c.next()
                e = ("try", t.line, e)
                continue
            if c.at("["):
                t = c.peek()
                s, en = c.skip_balanced("[", "]")
                sub = self.sub(s, en)
                idx = sub.parse_expr()
                if not sub.c.eof():
                    sub.fail("tokens after the index")
                e = ("index", t.line, e, idx)
                continue
            if c.at("("):
                t = c.peek()
                e = ("callexpr", t.line, e, self.parse_args())
                continue
            if c.at("."):
                if c.peek(1) is not None and c.peek(1).kind == "int":
                    d = c.next()
                    n = c.next()
                    if not n.text.isdigit():
                        self.fail("tuple field must be a plain number", n)
                    e = ("tfield", d.line, e, int(n.text))
                    continue
                if c.at("await", 1):
                    self.fail("await")
                d = c.next()
                name = c.ident()
                if c.at("::"):
                    self.fail("turbofish not supported")
                if c.at("("):
                    e = ("mcall", d.line, e, name, None, self.parse_args())
                else:
                    e = ("field", d.line, e, name)
                continue
            return e

    def parse_block_body(self):
        """tr_rect.BodyParser.parse_block_body (COPIED: it is one loop) plus: `#[allow(..)]` in front of a statement is
        skipped, and an assignment may be the last thing of a block without `;`."""
        c = self.c
        stmts, tail = [], None
        while not c.eof():
            if tail is not None:
                self.fail("expression in the middle of a block without `;`")
            if c.at(";"):
                c.next()
                continue
            if c.at("#"):
                h = c.next()
                s, e = c.skip_balanced("[", "]")
                if c.t[s].text != "allow":
                    self.fail("attribute other than `#[allow(..)]` inside a body", h)
                continue
            if c.at("let"):
                t = c.next()
                mut = False
                if c.at("mut"):
                    c.next()
                    mut = True
                pat = self.parse_pattern()
                ty = None
                if c.at(":"):
                    self.fail("type annotation on a `let` not supported")
                c.expect("=")
                e = self.parse_expr()
                if c.at("else"):
                    self.fail("let-else not supported")
                c.expect(";")
                stmts.append(("let", t.line, pat, ty, e, mut))
                continue
            if c.peek().kind == "id" and c.peek().text in ("fn", "struct", "enum", "impl", "use", "const", "static", "loop", "for", "unsafe"):
                self.fail(f"`{c.peek().text}` inside a body is not supported")
            e = self.parse_expr(stmt=True)
            if c.at("=") or (c.peek() and c.peek().kind == "p" and c.peek().text in ("+=", "-=", "*=", "/=", "%=")):
                op = c.next()
                rhs = self.parse_expr()
                if not c.eof():
                    c.expect(";")
                stmts.append(("assign", op.line, op.text, e, rhs))
            elif c.at(";"):
                c.next()
                stmts.append(("expr", e[1], e))
            elif c.eof():
                tail = e
            elif e[0] in ("if", "match", "block", "while"):
                stmts.append(("expr", e[1], e))
            else:
                self.fail(f"expected `;` or end of block after expression, found `{c.peek().text}`")
        return stmts, tail

    def parse_primary(self, nostruct):
        c = self.c
        t = c.peek()
        if t is not None and c.at("panic") and c.at("!", 1):
            c.next(); c.next()
            c.skip_balanced("(", ")")
            return ("panic", t.line)
        if t is not None and c.at("["):
            s, e = c.skip_balanced("[", "]")
            sub = self.sub(s, e)
            items = []
            while not sub.c.eof():
                items.append(sub.parse_expr())
                if sub.c.at(";"):
                    sub.fail("array repeat expression `[v; n]` not supported")
                if sub.c.at(","):
                    sub.c.next()
                elif not sub.c.eof():
                    sub.fail("`,` expected in array literal")
            return ("array", t.line, items)
        return super().parse_primary(nostruct)


@contextlib.contextmanager
def scoped_parser():
    old = tr_rect.BodyParser
    tr_rect.BodyParser = TriBodyParser
    try:
        yield
    finally:
        tr_rect.BodyParser = old


# ---------------------------------------------------------------------------------------------------------------
# items
# ---------------------------------------------------------------------------------------------------------------

def parse_type(c, mod):
    if c.at("&"):
        c.next()
        if c.peek() and c.peek().kind == "life":
            c.next()
        if c.at("mut"):
            c.next()
            return ("refmut", parse_type(c, mod))
        return parse_type(c, mod)
    if c.at("("):
        c.next()
        items = []
        while not c.at(")"):
            items.append(parse_type(c, mod))
            if c.at(","):
                c.next()
        c.expect(")")
        if not items:
            return "unit"
        return items[0] if len(items) == 1 else ("tuple", tuple(items))
    if c.at("["):
        c.next()
        el = parse_type(c, mod)
        if c.at(";"):
            c.next()
            n = c.next()
            if n.text != "3":
                raise TrError(f"array type of length {n.text} not supported at {n!r}")
            c.expect("]")
            return ("array3", el)
        c.expect("]")
        return ("slice", el)
    segs = [c.ident()]
    while c.at("::"):
        c.next()
        segs.append(c.ident())
    args = []
    if c.at("<"):
        c.next()
        while not c.at(">"):
            if c.peek().kind == "life":
                c.next()
            else:
                args.append(parse_type(c, mod))
            if c.at(","):
                c.next()
        c.expect(">")
    if len(segs) == 2 and segs[0] == "Self":
        return ("assoc", segs[1])
    if len(segs) >= 2 and (segs[-2], segs[-1]) in PATH_TYPES:
        return PATH_TYPES[(segs[-2], segs[-1])]
    name = segs[-1]
    if len(segs) > 1:
        raise TrError(f"type path `{'::'.join(segs)}` not known")
    if name == "Option":
        return ("Option", args[0])
    if name == "Range":
        if args != ["i32"]:
            raise TrError(f"Range<{args}> not supported")
        return "RangeI32"
    if args:
        raise TrError(f"generic type `{name}<..>` not known")
    return MODULE_TYPES.get((mod, name), name)


class Fn:
    def __init__(self):
        self.name = self.impl_type = self.trait = self.self_kind = self.body = self.rel = self.mod = None
        self.params, self.ret, self.line, self.assoc = [], "unit", 0, {}

    def key(self):
        return (self.impl_type, self.trait, self.name)


class Prog:
    def __init__(self):
        self.structs, self.fns = {}, {}


def skip_attrs_vis(c):
    """returns True when a `#[cfg(test)]` attribute was among the skipped ones."""
    test = False
    while True:
        if c.at("#"):
            c.next()
            if c.at("!"):
                c.next()
            s, e = c.skip_balanced("[", "]")
            txt = "".join(t.text for t in c.t[s:e])
            if txt == "cfg(test)":
                test = True
            elif txt.startswith("cfg(") and not txt.startswith("cfg_attr("):
                raise TrError(f"{c.t[s].rel}:{c.t[s].line}: `#[{txt}]`: conditional compilation of an item is not supported")
        elif c.at("pub"):
            c.next()
            if c.at("("):
                c.skip_balanced("(", ")")
        else:
            return test


def skip_generics(c):
    if c.at("<"):
        depth = 0
        while True:
            t = c.next()
            if t.text == "<":
                depth += 1
            elif t.text == ">":
                depth -= 1
                if depth == 0:
                    return
            elif t.kind != "life" and t.text not in (",", ":"):
                raise TrError(f"{t.rel}:{t.line}: only lifetime parameters are supported (found `{t.text}`)")


def scan_items(c, prog, rel, mod, impl_type=None, trait=None, assoc=None):
    while not c.eof():
        test = skip_attrs_vis(c)
        if c.eof():
            break
        t = c.peek()
        if t.kind != "id":
            raise TrError(f"{rel}:{t.line}: unexpected token {t.text!r} where an item should start")
        kw = t.text
        if kw in ("const", "unsafe") and (c.at("fn", 1)):
            if kw == "unsafe":
                raise TrError(f"{rel}:{t.line}: unsafe fn")
            c.next()
            continue
        if kw == "mod":
            c.next(); c.ident()
            if c.at(";"):
                c.next()
            else:
                s, e = c.skip_balanced("{", "}")
                if not test:
                    raise TrError(f"{rel}:{t.line}: inline module that is not `#[cfg(test)]`")
            continue
        if test:
            raise TrError(f"{rel}:{t.line}: `#[cfg(test)]` on an item other than a module")
        if kw == "use":
            while not c.at(";"):
                c.next()
            c.next()
            continue
        if kw == "type":
            c.next()
            name = c.ident()
            c.expect("=")
            ty = parse_type(c, mod)
            c.expect(";")
            if assoc is None:
                raise TrError(f"{rel}:{t.line}: type alias outside an impl")
            assoc[name] = ty
            continue
        if kw == "struct":
            c.next()
            name = c.ident()
            skip_generics(c)
            if not c.at("{"):
                raise TrError(f"{rel}:{t.line}: struct {name}: only structs with named fields are supported")
            s, e = c.skip_balanced("{", "}")
            fc = Cursor(c.t, s, e)
            fields = []
            while not fc.eof():
                skip_attrs_vis(fc)
                fn_ = fc.ident()
                fc.expect(":")
                fields.append((fn_, parse_type(fc, mod)))
                if fc.at(","):
                    fc.next()
            name = MODULE_TYPES.get((mod, name), name)
            if name in prog.structs:
                raise TrError(f"{rel}: struct {name} declared twice")
            prog.structs[name] = fields
            continue
        if kw == "impl":
            c.next()
            skip_generics(c)
            first = parse_type(c, mod)
            tr_name, ty = None, first
            if c.at("for"):
                c.next()
                tr_name, ty = first, parse_type(c, mod)
            if not isinstance(ty, str) or not isinstance(tr_name, (str, type(None))):
                raise TrError(f"{rel}:{t.line}: impl header not understood")
            if c.at("where"):
                raise TrError(f"{rel}:{t.line}: where clause on an impl")
            s, e = c.skip_balanced("{", "}")
            scan_items(Cursor(c.t, s, e), prog, rel, mod, ty, tr_name, {})
            continue
        if kw == "fn":
            c.next()
            f = Fn()
            f.impl_type, f.trait, f.rel, f.mod, f.line, f.assoc = impl_type, trait, rel, mod, t.line, assoc or {}
            f.name = c.ident()
            skip_generics(c)
            s, e = c.skip_balanced("(", ")")
            pc = Cursor(c.t, s, e)
            while not pc.eof():
                if pc.at("&") and (pc.at("self", 1) or (pc.at("mut", 1) and pc.at("self", 2))):
                    pc.next()
                    f.self_kind = "ref"
                    if pc.at("mut"):
                        pc.next()
                        f.self_kind = "refmut"
                    pc.expect("self")
                elif pc.at("self"):
                    pc.next()
                    f.self_kind = "value"
                else:
                    if pc.at("mut"):
                        raise TrError(f"{rel}: fn {f.name}: `mut` parameter")
                    pn = pc.ident()
                    pc.expect(":")
                    f.params.append((pn, parse_type(pc, mod)))
                if pc.at(","):
                    pc.next()
                elif not pc.eof():
                    raise TrError(f"{rel}: fn {f.name}: cannot parse parameters at {pc.peek()!r}")
            if c.at("->"):
                c.next()
                if c.at("impl"):
                    f.ret = ("opaque", "impl Trait")
                    while not c.at("{"):
                        c.next()
                else:
                    f.ret = parse_type(c, mod)
            if c.at("where"):
                # only lifetime bounds (`'a: 'b`)
                c.next()
                while not c.at("{"):
                    w = c.next()
                    if w.kind != "life" and w.text not in (":", ",", "+"):
                        raise TrError(f"{rel}: fn {f.name}: where clause with a type bound")
            s, e = c.skip_balanced("{", "}")
            f.body = (c.t, s, e)
            if f.key() in prog.fns:
                raise TrError(f"{rel}: function {f.key()} defined twice")
            prog.fns[f.key()] = f
            continue
        raise TrError(f"{rel}:{t.line}: item `{kw}` not supported")


# ---------------------------------------------------------------------------------------------------------------
# emitter
# ---------------------------------------------------------------------------------------------------------------

def tstr(t):
    if isinstance(t, str):
        return t
    if t[0] == "tuple":
        return "(" + ", ".join(tstr(x) for x in t[1]) + ")"
    return f"{t[0]}<{tstr(t[1])}>"


def lvar(n):
    return n + "_" if n in LEAN_KEYWORDS else n


class Ctx:
    def __init__(self, f, self_type, stateful, fuel):
        self.f, self.self_type, self.stateful, self.fuel = f, self_type, stateful, fuel
        self.n = 0

    def fresh(self):
        self.n += 1
        return f"__r{self.n}"

    def wrap(self, v):
        return f"({v}, self)" if self.stateful else v


class Emitter:
    def __init__(self, prog):
        self.prog = prog
        self.done, self.out, self.listing, self.busy = {}, [], [], set()

    # ---- names and types
    def fname(self, f):
        parts = [p for p in (f.impl_type, f.trait, f.name) if p]
        return "_".join(parts)

    def fail(self, f, line, msg):
        raise TrError(f"{f.rel}:{line}: fn {f.name}: {msg}")

    def norm(self, t, f):
        if isinstance(t, str):
            if t == "Self":
                return f.impl_type
            return t
        if t[0] == "refmut":
            return self.norm(t[1], f)
        if t[0] == "opaque":
            raise TrError(f"{f.rel}: fn {f.name}: return type `{t[1]}` is not supported")
        if t[0] == "assoc":
            if t[1] not in f.assoc:
                raise TrError(f"{f.rel}: fn {f.name}: associated type Self::{t[1]} not found in the impl")
            return self.norm(f.assoc[t[1]], f)
        if t[0] == "tuple":
            return ("tuple", tuple(self.norm(x, f) for x in t[1]))
        return (t[0], self.norm(t[1], f))

    def lean_type(self, t):
        if isinstance(t, str):
            if t in LEAN_STRUCT_NAME:
                return LEAN_STRUCT_NAME[t]
            if t in LEAN_TYPES:
                return LEAN_TYPES[t]
            raise TrError(f"type `{t}` has no Lean counterpart")
        if t[0] == "Option":
            return f"(Option {self.lean_type(t[1])})"
        if t[0] == "tuple":
            return "(" + " × ".join(self.lean_type(x) for x in t[1]) + ")"
        if t[0] == "array3":
            e = self.lean_type(t[1])
            return f"({e} × {e} × {e})"
        if t[0] in ("slice", "iter"):
            return f"(List {self.lean_type(t[1])})"
        raise TrError(f"type {t} has no Lean counterpart")

    def fields(self, t, where):
        if t in EXT_STRUCTS:
            return EXT_STRUCTS[t]
        if t in GEN_STRUCTS:
            return [(n, self.norm_struct(ty)) for n, ty in self.prog.structs[t]]
        raise TrError(f"{where}: `{tstr(t)}` has no fields known to the translator")

    @staticmethod
    def norm_struct(t):
        return t

    def getter(self, t, fl, obj):
        if t in GEN_STRUCTS:
            return f"{obj}.{lvar(fl)}"
        return f"({t}_{fl} {obj})"

    def setter(self, t, fl, obj, v):
        if t in GEN_STRUCTS:
            return f"{{ {obj} with {lvar(fl)} := {v} }}"
        return f"({t}_set_{fl} {obj} {v})"

    # ---- functions
    def find(self, impl_type, name, where, trait=None):
        cands = [f for k, f in self.prog.fns.items() if k[0] == impl_type and k[2] == name and (trait is None or k[1] == trait)]
        if not cands:
            return None
        inh = [f for f in cands if f.trait is None]
        if inh:
            return inh[0]
        if len(cands) > 1:
            raise TrError(f"{where}: `{impl_type}::{name}` is ambiguous between traits")
        return cands[0]

    def uses_nth(self, f):
        toks, s, e = f.body
        for i in range(s, e - 2):
            if toks[i].text == "self" and toks[i + 1].text == "." and toks[i + 2].text == "nth":
                return True
        return False

    def sig(self, f):
        """(parameter types incl. self first, value type, mutates self, takes fuel)"""
        ps = ([f.impl_type] if f.self_kind else []) + [self.norm(t, f) for _, t in f.params]
        return ps, self.norm(f.ret, f), f.self_kind == "refmut", self.uses_nth(f)

    def need(self, f):
        k = f.key()
        if k in self.done:
            return self.done[k]
        name = self.fname(f)
        if k in self.busy:
            return name
        self.busy.add(k)
        text = self.emit_fn(f, name)
        self.busy.discard(k)
        self.done[k] = name
        self.out.append(text)
        self.listing.append((name, f"{f.rel}: " + (f"impl {f.trait + ' for ' if f.trait else ''}{f.impl_type}: " if f.impl_type else "") + f"fn {f.name}"))
        return name

    def emit_fn(self, f, name):
        ps, ret, mutself, fuel = self.sig(f)
        ctx = Ctx(f, f.impl_type, mutself, fuel)
        env = {}
        params = []
        if f.self_kind:
            env["self"] = (f.impl_type, mutself)
            params.append(("self", f.impl_type))
        for (pn, pt) in f.params:
            t = self.norm(pt, f)
            env[pn] = (t, False)
            params.append((lvar(pn), t))
        rt = self.lean_type(ret)
        if mutself:
            rt = f"({rt} × {self.lean_type(f.impl_type)})"
        with scoped_parser():
            stmts, tail = TriBodyParser(f.body[0], f.body[1], f.body[2], f"{f.rel}: fn {f.name}").parse_block_body()
        doc = f"/-- {f.rel}:{f.line}: " + (f"impl {f.trait + ' for ' if f.trait else ''}{f.impl_type}: " if f.impl_type else "") + f"`fn {f.name}` -/\n"
        if fuel:
            if [p for p, _ in params] != ["self"]:
                self.fail(f, f.line, "a function that recurses through `nth` must take only `&mut self`")
            body = self.block(stmts, 0, tail, env, ctx, "    ", ret)
            return (doc + f"def {name} : Nat → {self.lean_type(f.impl_type)} → {rt}\n"
                    f"  | 0, self => {ctx.wrap('none')}\n  | fuel + 1, self =>\n{body}\n")
        body = self.block(stmts, 0, tail, env, ctx, "  ", ret)
        ptxt = "".join(f" ({n} : {self.lean_type(t)})" for n, t in params)
        return doc + f"def {name}{ptxt} : {rt} :=\n{body}\n"

    # ---- blocks (final position: the value is the function's / the stateful closure's result)
    def seal(self, pre, k, ctx, ind):
        if not pre:
            return k(ind)
        p = pre[0]
        if p[0] == "let":
            return f"{ind}let {p[1]} := {p[2]}\n" + self.seal(pre[1:], k, ctx, ind)
        return (f"{ind}match {p[2]} with\n{ind}| none => {ctx.wrap('none')}\n{ind}| some {p[1]} =>\n"
                + self.seal(pre[1:], k, ctx, ind + "  "))

    def bound_names(self, stmts):
        out = set()

        def pat(p):
            if p[0] == "pbind":
                out.add(p[2])
            elif p[0] in ("ptuple", "parray", "por"):
                for q in p[2]:
                    pat(q)
            elif p[0] == "pctor":
                for q in p[3]:
                    pat(q)
        for s in stmts:
            if s[0] == "let":
                pat(s[2])
        return out

    def inline(self, blk, rest, tail, env, ctx, what):
        """statements of `blk` followed by `rest`; a name bound inside must not hide one of the enclosing scope."""
        clash = self.bound_names(blk[2]) & set(env)
        if clash:
            self.fail(ctx.f, blk[1], f"{what}: `{sorted(clash)[0]}` bound inside would hide the outer binding in the copied continuation")
        stmts = list(blk[2])
        if blk[3] is not None:
            stmts.append(("expr", blk[3][1], blk[3]))
        if stmts and stmts[-1][0] == "expr" and stmts[-1][2][0] == "return":
            return stmts, None      # the arm leaves the function: the continuation is not reached
        return stmts + rest, tail

    def has_effect(self, node, env):
        return contains_kind(node, "return") or contains_kind(node, "try") or contains_kind(node, "assign") or self.mut_call_inside(node, env)

    def mut_call_inside(self, node, env):
        if isinstance(node, tuple):
            if node and node[0] == "mcall":
                # a call on a place rooted at a mutable variable of a method that mutates: decided by name tables
                root = node[2]
                while root[0] == "field":
                    root = root[2]
                if root[0] == "path" and len(root[2]) == 1 and env.get(root[2][0], (None, False))[1]:
                    if node[3] in ("next", "nth", "bresenham_intersection", "reset_with_new_scanline", "try_take"):
                        return True
            return any(self.mut_call_inside(x, env) for x in node)
        if isinstance(node, list):
            return any(self.mut_call_inside(x, env) for x in node)
        return False

    def block(self, stmts, i, tail, env, ctx, ind, want):
        f = ctx.f
        if i == len(stmts):
            if tail is None:
                if want != "unit":
                    self.fail(f, f.line, "block without a value")
                return ind + ctx.wrap("()")
            return self.final_expr(tail, env, ctx, ind, want)
        s = stmts[i]
        rest = stmts[i + 1:]
        if s[0] == "let":
            _, line, pat, ty, e, mut = s
            if e[0] == "block" and contains_kind(e, "return"):
                # `let x = { ..; return ..; v };`: the block's statements, then `let x = v;`
                if e[3] is None:
                    self.fail(f, line, "let bound to a block without a value")
                clash = self.bound_names(e[2]) & set(env)
                if clash:
                    self.fail(f, line, f"`{sorted(clash)[0]}` bound inside the block would hide an outer binding")
                return self.block(list(e[2]) + [("let", line, pat, ty, e[3], mut)] + rest, 0, tail, env, ctx, ind, want)
            pre, txt, t = self.expr(e, env, ctx, self.norm(ty, f) if ty is not None else None)
            ptxt, binds = self.pattern(pat, t, f, line)
            env2 = dict(env)
            for n, bt in binds:
                env2[n] = (bt, mut)
            return self.seal(pre, lambda ind2: f"{ind2}let {ptxt} := {txt}\n" + self.block(rest, 0, tail, env2, ctx, ind2, want), ctx, ind)
        if s[0] == "assign":
            _, line, op, lhs, rhs = s
            if op != "=":
                self.fail(f, line, f"compound assignment `{op}` not supported")
            root, fls, t = self.place(lhs, env, ctx, line)
            pre, txt, rt_ = self.expr(rhs, env, ctx, t)
            self.unify(rt_, t, f, line)
            new = self.place_write(root, fls, env, txt)
            return self.seal(pre, lambda ind2: f"{ind2}let {lvar(root)} := {new}\n" + self.block(rest, 0, tail, env, ctx, ind2, want), ctx, ind)
        if s[0] == "expr":
            e = s[2]
            line = s[1]
            if e[0] == "return":
                if rest or tail is not None:
                    self.fail(f, line, "code after `return`")
                return self.final_expr(e[2], env, ctx, ind, want)
            if e[0] == "if" and self.has_effect(e, env):
                pre, ctxt, _ = self.expr(e[2], env, ctx, "bool")
                then, t1 = self.inline(e[3], rest, tail, env, ctx, "statement-position `if`")
                els, t2 = self.inline(e[4], rest, tail, env, ctx, "statement-position `if`") if e[4] is not None else (rest, tail)
                return self.seal(pre, lambda ind2: (f"{ind2}if {ctxt} then\n" + self.block(then, 0, t1, env, ctx, ind2 + "  ", want)
                                                    + f"\n{ind2}else\n" + self.block(els, 0, t2, env, ctx, ind2 + "  ", want)), ctx, ind)
            if e[0] == "mcall":
                pre, txt, t = self.expr(e, env, ctx, None, discard=True)
                return self.seal(pre, lambda ind2: self.block(rest, 0, tail, env, ctx, ind2, want), ctx, ind)
            self.fail(f, line, f"expression statement `{e[0]}` has no translation")
        self.fail(f, s[1], f"statement `{s[0]}` not supported")

    def final_expr(self, e, env, ctx, ind, want):
        f = ctx.f
        if e[0] == "paren":
            return self.final_expr(e[2], env, ctx, ind, want)
        if e[0] == "block":
            return self.block(e[2], 0, e[3], env, ctx, ind, want)
        if e[0] == "return":
            return self.final_expr(e[2], env, ctx, ind, want)
        if e[0] == "if" and (ctx.stateful or self.has_effect(e, env)):
            if e[4] is None:
                self.fail(f, e[1], "`if` without `else` as a value")
            pre, ctxt, _ = self.expr(e[2], env, ctx, "bool")
            return self.seal(pre, lambda ind2: (f"{ind2}if {ctxt} then\n" + self.block(e[3][2], 0, e[3][3], env, ctx, ind2 + "  ", want)
                                                + f"\n{ind2}else\n" + self.block(e[4][2], 0, e[4][3], env, ctx, ind2 + "  ", want)), ctx, ind)
        if e[0] == "match" and (ctx.stateful or self.has_effect(e, env)):
            pre, stxt, st = self.expr(e[2], env, ctx, None)

            def k(ind2):
                out = f"{ind2}match {stxt} with"
                for pat, body in e[3]:
                    ptxt, binds = self.pattern(pat, st, f, e[1])
                    env2 = dict(env)
                    for n, bt in binds:
                        env2[n] = (bt, False)
                    b = body if body[0] == "block" else ("block", body[1], [], body)
                    out += f"\n{ind2}| {ptxt} =>\n" + self.block(b[2], 0, b[3], env2, ctx, ind2 + "  ", want)
                return out
            return self.seal(pre, k, ctx, ind)
        if e[0] == "mcall" and e[3] == "or_else" and ctx.stateful:
            pre, rtxt, rt = self.expr(e[2], env, ctx, want)
            if not (isinstance(rt, tuple) and rt[0] == "Option"):
                self.fail(f, e[1], "`or_else` on something that is not an Option")
            cl = e[5][0] if len(e[5]) == 1 else None
            if cl is None or cl[0] != "closure" or cl[2]:
                self.fail(f, e[1], "`or_else` needs a closure without parameters")
            body = cl[3] if cl[3][0] == "block" else ("block", cl[3][1], [], cl[3])
            return self.seal(pre, lambda ind2: (f"{ind2}option_or_else_st {rtxt} self (fun self =>\n"
                                                + self.block(body[2], 0, body[3], env, ctx, ind2 + "  ", rt) + ")"), ctx, ind)
        pre, txt, t = self.expr(e, env, ctx, want)
        self.unify(t, want, f, e[1])
        return self.seal(pre, lambda ind2: ind2 + ctx.wrap(txt), ctx, ind)

    def order_guard(self, parts, f, line):
        """operands are evaluated left to right, but the effects of ALL of them are hoisted in front of the whole
        expression: refuse when an earlier operand reads a variable that a later operand's effect re-binds."""
        for j, (pre, _) in enumerate(parts):
            rebound = {p[1] for p in pre if p[0] == "let" and not p[1].startswith("__r")}
            for i in range(j):
                words = set(re.findall(r"[A-Za-z_][A-Za-z_0-9]*", parts[i][1]))
                if rebound & words:
                    self.fail(f, line, f"evaluation order: `{sorted(rebound & words)[0]}` is read by an operand and re-bound by the effect of a later one")

    def unify(self, got, want, f, line):
        if want is not None and got is not None and got != want:
            self.fail(f, line, f"type mismatch: got {tstr(got)}, expected {tstr(want)}")

    # ---- patterns
    def pattern(self, p, t, f, line):
        """(lean text, [(name, type)])"""
        k = p[0]
        if k == "pwild":
            return "_", []
        if k == "pbind":
            return lvar(p[2]), [(p[2], t)]
        if k == "ptuple":
            if not (isinstance(t, tuple) and t[0] == "tuple" and len(t[1]) == len(p[2])):
                self.fail(f, line, f"tuple pattern against {tstr(t)}")
            parts = [self.pattern(q, qt, f, line) for q, qt in zip(p[2], t[1])]
            return "(" + ", ".join(x for x, _ in parts) + ")", [b for _, bs in parts for b in bs]
        if k == "parray":
            if isinstance(t, tuple) and t[0] == "array3":
                if len(p[2]) != 3:
                    self.fail(f, line, "array pattern of the wrong length")
                parts = [self.pattern(q, t[1], f, line) for q in p[2]]
                return "(" + ", ".join(x for x, _ in parts) + ")", [b for _, bs in parts for b in bs]
            if isinstance(t, tuple) and t[0] == "slice":
                parts = [self.pattern(q, t[1], f, line) for q in p[2]]
                return "[" + ", ".join(x for x, _ in parts) + "]", [b for _, bs in parts for b in bs]
            self.fail(f, line, f"slice pattern against {tstr(t)}")
        if k == "pctor":
            segs, args = p[2], p[3]
            if segs == ["Some"] and len(args) == 1:
                if not (isinstance(t, tuple) and t[0] == "Option"):
                    self.fail(f, line, f"`Some(..)` against {tstr(t)}")
                a, bs = self.pattern(args[0], t[1], f, line)
                return f"some {a}", bs
            if segs == ["None"] and not args:
                return "none", []
            self.fail(f, line, f"constructor pattern `{'::'.join(segs)}` not supported")
        if k == "ppath":
            segs = p[2]
            if len(segs) >= 2 and (segs[-2], segs[-1]) in CTORS:
                lt, ty = CTORS[(segs[-2], segs[-1])]
                self.unify(ty, t, f, line)
                return lt, []
            self.fail(f, line, f"path pattern `{'::'.join(segs)}` not known")
        self.fail(f, line, f"pattern `{k}` not supported")

    # ---- places
    def place(self, e, env, ctx, line):
        """(root variable, [fields], type of the place); the root must be mutable."""
        f = ctx.f
        fls = []
        while e[0] == "field":
            fls.insert(0, e[3])
            e = e[2]
        if e[0] != "path" or len(e[2]) != 1 or e[2][0] not in env:
            self.fail(f, line, "assignment / mutation target must be a local or a field path of a local")
        root = e[2][0]
        t, mut = env[root]
        if not mut:
            self.fail(f, line, f"`{root}` is not mutable")
        for fl in fls:
            for n, ft in self.fields(t, f"{f.rel}:{line}"):
                if n == fl:
                    t = ft
                    break
            else:
                self.fail(f, line, f"`{tstr(t)}` has no field `{fl}`")
        return root, fls, t

    def place_read(self, root, fls, env):
        t, cur = env[root][0], lvar(root)
        for fl in fls:
            cur = self.getter(t, fl, cur)
            t = dict(self.fields(t, "place"))[fl]
        return cur

    def place_write(self, root, fls, env, val):
        def go(t, cur, rest):
            if not rest:
                return val
            inner = go(dict(self.fields(t, "place"))[rest[0]], self.getter(t, rest[0], cur), rest[1:])
            return self.setter(t, rest[0], cur, inner)
        return go(env[root][0], lvar(root), fls)

    # ---- expressions: (pre, text, type)
    def pure(self, e, env, ctx, want=None):
        pre, txt, t = self.expr(e, env, ctx, want)
        if pre:
            self.fail(ctx.f, e[1], "an effect (`?`, a mutating call) inside an expression that is evaluated conditionally or inside a closure")
        return txt, t

    def expr(self, e, env, ctx, want=None, discard=False):
        f = ctx.f
        k, line = e[0], e[1]
        if k == "paren":
            return self.expr(e[2], env, ctx, want)
        if k in ("deref", "ref"):
            return self.expr(e[2], env, ctx, want)
        if k == "int":
            t = e[3] or (want if want in ("i32", "u32", "usize") else None)
            if t is None:
                self.fail(f, line, f"cannot tell the type of the literal {e[2]}")
            return [], f"({e[2]} : {LEAN_TYPES[t]})", t
        if k == "path":
            segs = e[2]
            if len(segs) == 1:
                n = segs[0]
                if n in env:
                    return [], lvar(n), env[n][0]
                if n == "true" or n == "false":
                    return [], n, "bool"
                if n == "None":
                    if not (isinstance(want, tuple) and want[0] == "Option"):
                        self.fail(f, line, "cannot tell the type of `None`")
                    return [], f"(none : {self.lean_type(want)})", want
                self.fail(f, line, f"unknown name `{n}`")
            if (segs[-2], segs[-1]) in CTORS:
                lt, ty = CTORS[(segs[-2], segs[-1])]
                return [], lt, ty
            self.fail(f, line, f"path `{'::'.join(segs)}` not known")
        if k == "unit":
            return [], "()", "unit"
        if k == "neg":
            pre, a, t = self.expr(e[2], env, ctx, "i32")
            self.unify(t, "i32", f, line)
            return pre, f"(i32_neg {a})", "i32"
        if k == "not":
            pre, a, t = self.expr(e[2], env, ctx, "bool")
            self.unify(t, "bool", f, line)
            return pre, f"(bool_not {a})", "bool"
        if k == "bin":
            return self.binop(e, env, ctx, want)
        if k == "tuple":
            wants = want[1] if isinstance(want, tuple) and want[0] == "tuple" and len(want[1]) == len(e[2]) else [None] * len(e[2])
            pre, txts, ts, parts = [], [], [], []
            for x, w in zip(e[2], wants):
                p, a, t = self.expr(x, env, ctx, w)
                pre += p; txts.append(a); ts.append(t); parts.append((p, a))
            self.order_guard(parts, f, line)
            return pre, "(" + ", ".join(txts) + ")", ("tuple", tuple(ts))
        if k == "array":
            if len(e[2]) == 0:
                if not (isinstance(want, tuple) and want[0] == "slice"):
                    self.fail(f, line, "cannot tell the type of `[]`")
                return [], f"(slice_empty : {self.lean_type(want)})", want
            if len(e[2]) != 3:
                self.fail(f, line, "only arrays of three elements are supported")
            w = want[1] if isinstance(want, tuple) and want[0] == "array3" else None
            pre, txts, ts, parts = [], [], [], []
            for x in e[2]:
                p, a, t = self.expr(x, env, ctx, w)
                pre += p; txts.append(a); ts.append(t); parts.append((p, a))
            self.order_guard(parts, f, line)
            if len(set(ts)) != 1:
                self.fail(f, line, "array elements of different types")
            return pre, f"(array3_mk {' '.join(txts)})", ("array3", ts[0])
        if k == "index":
            pre, a, t = self.expr(e[2], env, ctx)
            if not (isinstance(t, tuple) and t[0] == "array3"):
                self.fail(f, line, f"indexing into {tstr(t)} not supported")
            if e[3][0] != "int" or e[3][2] > 2:
                self.fail(f, line, "only literal indices below 3 are supported")
            return pre, f"(array3_index {a} {e[3][2]})", t[1]
        if k == "tfield":
            pre, a, t = self.expr(e[2], env, ctx)
            if not (isinstance(t, tuple) and t[0] == "tuple" and e[3] < len(t[1])):
                self.fail(f, line, f"`.{e[3]}` on {tstr(t)}")
            if len(t[1]) != 2:
                self.fail(f, line, "tuple fields of tuples other than pairs not supported")
            return pre, f"(tuple2_{e[3]} {a})", t[1][e[3]]
        if k == "field":
            pre, a, t = self.expr(e[2], env, ctx)
            for n, ft in self.fields(t, f"{f.rel}:{line}"):
                if n == e[3]:
                    return pre, self.getter(t, n, a), ft
            self.fail(f, line, f"`{tstr(t)}` has no field `{e[3]}`")
        if k == "try":
            pre, a, t = self.expr(e[2], env, ctx)
            if not (isinstance(t, tuple) and t[0] == "Option"):
                self.fail(f, line, f"`?` on {tstr(t)}")
            if not (isinstance(self.norm(f.ret, f), tuple) and self.norm(f.ret, f)[0] == "Option"):
                self.fail(f, line, "`?` in a function that does not return an Option")
            v = ctx.fresh()
            return pre + [("try", v, a)], v, t[1]
        if k == "range":
            if e[2]:
                self.fail(f, line, "`..=` not supported")
            p1, a, t1 = self.expr(e[3], env, ctx, "i32")
            p2, b, t2 = self.expr(e[4], env, ctx, "i32")
            self.unify(t1, "i32", f, line); self.unify(t2, "i32", f, line)
            self.order_guard([(p1, a), (p2, b)], f, line)
            return p1 + p2, f"(range_i32_new {a} {b})", "RangeI32"
        if k == "panic":
            if want is None:
                self.fail(f, line, "cannot tell the type of `panic!`")
            return [], f"(rust_panic : {self.lean_type(want)})", want
        if k == "if":
            if e[4] is None:
                self.fail(f, line, "`if` without `else` as a value")
            c, _ = self.pure(e[2], env, ctx, "bool")
            a, ta = self.value_block(e[3], env, ctx, want)
            b, tb = self.value_block(e[4], env, ctx, want or ta)
            self.unify(tb, ta, f, line)
            return [], f"(if {c} then {a} else {b})", ta
        if k == "block":
            a, t = self.value_block(e, env, ctx, want)
            return [], a, t
        if k == "match":
            pre, s, st = self.expr(e[2], env, ctx)
            arms, rt = [], want
            for pat, body in e[3]:
                ptxt, binds = self.pattern(pat, st, f, line)
                env2 = dict(env)
                for n, bt in binds:
                    env2[n] = (bt, False)
                a, t = self.pure(body, env2, ctx, rt)
                if rt is None:
                    rt = t
                self.unify(t, rt, f, line)
                arms.append(f"| {ptxt} => {a}")
            return pre, f"(match {s} with {' '.join(arms)})", rt
        if k == "struct":
            return self.struct_lit(e, env, ctx, want)
        if k == "callexpr":
            return self.call(e, env, ctx, want)
        if k == "mcall":
            return self.mcall(e, env, ctx, want, discard)
        if k == "closure":
            self.fail(f, line, "closure outside a supported combinator")
        self.fail(f, line, f"expression `{k}` not supported")

    def value_block(self, b, env, ctx, want):
        """a block used as a value: only `let`s and a tail, no effects."""
        f = ctx.f
        if b[0] != "block":
            return self.pure(b, env, ctx, want)
        if b[3] is None:
            self.fail(f, b[1], "block without a value used as a value")
        env2 = dict(env)
        out = ""
        for s in b[2]:
            if s[0] != "let":
                self.fail(f, s[1], f"statement `{s[0]}` inside a block used as a value")
            txt, t = self.pure(s[4], env2, ctx, self.norm(s[3], f) if s[3] is not None else None)
            ptxt, binds = self.pattern(s[2], t, f, s[1])
            for n, bt in binds:
                env2[n] = (bt, False)
            out += f"let {ptxt} := {txt}; "
        a, t = self.pure(b[3], env2, ctx, want)
        return (f"({out}{a})" if out else a), t

    def binop(self, e, env, ctx, want):
        f = ctx.f
        _, line, op, l, r = e
        if op in ("&&", "||"):
            p1, a, t1 = self.expr(l, env, ctx, "bool")
            b, t2 = self.pure(r, env, ctx, "bool")      # the right operand is evaluated conditionally
            self.unify(t1, "bool", f, line); self.unify(t2, "bool", f, line)
            return p1, f"({'bool_and' if op == '&&' else 'bool_or'} {a} {b})", "bool"
        w = want if op in BIN_ARITH else None
        if l[0] == "int" and r[0] != "int":
            p2, b, t2 = self.expr(r, env, ctx, w)
            p1, a, t1 = self.expr(l, env, ctx, t2)
            if p1 or p2:
                self.fail(f, line, "effects in both operands")
        else:
            p1, a, t1 = self.expr(l, env, ctx, w)
            p2, b, t2 = self.expr(r, env, ctx, t1)
        self.order_guard([(p1, a), (p2, b)], f, line)
        if op in BIN_ARITH:
            if t1 == t2 and t1 in ("i32", "u32"):
                return p1 + p2, f"({t1}_{BIN_ARITH[op]} {a} {b})", t1
            if t1 == "Point" and t2 == "Point" and op == "+":
                return p1 + p2, f"(RectSrc.Point_op_add_Point {a} {b})", "Point"
            self.fail(f, line, f"operator `{op}` on {tstr(t1)} and {tstr(t2)} not supported")
        if op in BIN_CMP:
            if t1 == t2 and t1 in ("i32", "u32"):
                return p1 + p2, f"({t1}_{BIN_CMP[op]} {a} {b})", "bool"
            if t1 == t2 and t1 in ("Point", "StrokeOffset") and op in ("==", "!="):
                return p1 + p2, f"({t1}_{BIN_CMP[op]} {a} {b})", "bool"
            self.fail(f, line, f"comparison `{op}` on {tstr(t1)} and {tstr(t2)} not supported")
        self.fail(f, line, f"operator `{op}` not supported")

    def struct_lit(self, e, env, ctx, want):
        f = ctx.f
        _, line, segs, flds, base = e
        name = segs[-1]
        if len(segs) != 1:
            self.fail(f, line, f"struct path `{'::'.join(segs)}`")
        t = f.impl_type if name == "Self" else MODULE_TYPES.get((f.mod, name), name)
        decl = self.fields(t, f"{f.rel}:{line}")
        names = [n for n, _ in decl]
        for n, _ in flds:
            if n not in names:
                self.fail(f, line, f"`{tstr(t)}` has no field `{n}`")
        if len({n for n, _ in flds}) != len(flds):
            self.fail(f, line, "field given twice")
        pre, vals, parts = [], {}, []
        for n, fe in flds:
            p, a, ft = self.expr(fe, env, ctx, dict(decl)[n])
            self.unify(ft, dict(decl)[n], f, line)
            pre += p
            vals[n] = a
            parts.append((p, a))
        if base is not None:
            p, b, bt = self.expr(base, env, ctx, t)
            self.unify(bt, t, f, line)
            pre += p
            parts.append((p, b))
        self.order_guard(parts, f, line)
        if base is not None:
            for n, _ in decl:
                if n in vals:
                    b = self.setter(t, n, b, vals[n])
            return pre, f"({b})" if t in GEN_STRUCTS else b, t
        if set(vals) != set(names):
            self.fail(f, line, "struct literal without all fields")
        if t in GEN_STRUCTS:
            return pre, "({ " + ", ".join(f"{lvar(n)} := {vals[n]}" for n in names) + f" }} : {LEAN_STRUCT_NAME[t]})", t
        return pre, f"({t}_mk " + " ".join(vals[n] for n in names) + ")", t

    def args(self, argv, ptypes, env, ctx, line, what):
        f = ctx.f
        if len(argv) != len(ptypes):
            self.fail(f, line, f"{what}: {len(argv)} arguments for {len(ptypes)} parameters")
        pre, txts, parts = [], [], []
        for a, pt in zip(argv, ptypes):
            p, x, t = self.expr(a, env, ctx, pt)
            self.unify(t, pt, f, line)
            pre += p
            txts.append(x)
            parts.append((p, x))
        self.order_guard(parts, f, line)
        return pre, "".join(" " + x for x in txts)

    def call(self, e, env, ctx, want):
        f = ctx.f
        _, line, fn, argv = e
        if fn[0] != "path":
            self.fail(f, line, "call of something that is not a path")
        segs = fn[2]
        if segs == ["Some"]:
            w = want[1] if isinstance(want, tuple) and want[0] == "Option" else None
            if len(argv) != 1:
                self.fail(f, line, "Some with other than one argument")
            p, a, t = self.expr(argv[0], env, ctx, w)
            return p, f"(some {a})", ("Option", t)
        if len(segs) == 1:
            n = segs[0]
            if n in FREE_FNS:
                lean, pts, rt = FREE_FNS[n]
                pre, a = self.args(argv, pts, env, ctx, line, n)
                return pre, f"({lean}{a})", rt
            g = self.find(None, n, f"{f.rel}:{line}")
            if g is None:
                self.fail(f, line, f"function `{n}` not found in the parsed sources")
            return self.call_user(g, None, argv, env, ctx, line)
        if len(segs) >= 2:
            tn = segs[-2]
            if len(segs) == 3 and (segs[0], segs[1]) in PATH_TYPES:
                ty = PATH_TYPES[(segs[0], segs[1])]
            elif len(segs) == 2:
                ty = f.impl_type if tn == "Self" else MODULE_TYPES.get((f.mod, tn), tn)
            else:
                self.fail(f, line, f"path `{'::'.join(segs)}` not known")
            if (ty, segs[-1]) in ASSOC:
                lean, pts, rt = ASSOC[(ty, segs[-1])]
                pre, a = self.args(argv, pts, env, ctx, line, "::".join(segs))
                return pre, (f"({lean}{a})" if a else lean), rt
            g = self.find(ty, segs[-1], f"{f.rel}:{line}")
            if g is None:
                self.fail(f, line, f"function `{'::'.join(segs)}` is not known to the translator")
            if g.self_kind:
                self.fail(f, line, "UFCS call of a method not supported")
            return self.call_user(g, None, argv, env, ctx, line)
        self.fail(f, line, "call not understood")

    def call_user(self, g, self_txt, argv, env, ctx, line):
        f = ctx.f
        ps, rt, mutself, fuel = self.sig(g)
        name = self.need(g)
        if fuel:
            self.fail(f, line, f"call of the fuel-carrying `{name}`")
        pts = ps[1:] if g.self_kind else ps
        pre, a = self.args(argv, pts, env, ctx, line, name)
        s = f" {self_txt}" if self_txt is not None else ""
        return pre, (f"({name}{s}{a})" if (s or a) else name), rt

    def mcall(self, e, env, ctx, want, discard=False):
        f = ctx.f
        _, line, recv, name, _, argv = e
        # recursion through the default `Iterator::nth` on the function's own iterator
        if name == "nth" and recv[0] == "path" and recv[2] == ["self"] and f.trait == "Iterator" and f.name == "next":
            if not ctx.fuel or not ctx.stateful:
                self.fail(f, line, "`self.nth` outside a fuel-carrying `next`")
            if self.find(f.impl_type, "nth", "nth") is not None:
                self.fail(f, line, "`nth` is overridden")
            pre, a = self.args(argv, ["usize"], env, ctx, line, "nth")
            v = ctx.fresh()
            return pre + [("let", v, f"iterator_nth ({self.fname(f)} fuel){a} self"), ("let", "self", f"{v}.2")], f"{v}.1", self.norm(f.ret, f)
        # Option / iterator combinators with closures
        if name in ("and_then", "map", "unwrap_or_else", "unwrap_or", "or_else", "chain", "any"):
            return self.combinator(e, env, ctx, want)
        pre, r, rt = self.expr(recv, env, ctx)
        if isinstance(rt, tuple) and rt[0] == "slice" and name in ("split_first", "first"):
            if argv:
                self.fail(f, line, f"`{name}` with arguments")
            if name == "first":
                return pre, f"(slice_first {r})", ("Option", rt[1])
            return pre, f"(slice_split_first {r})", ("Option", ("tuple", (rt[1], rt)))
        if (rt, name) in METHODS:
            lean, pts, vt, mut = METHODS[(rt, name)]
            p2, a = self.args(argv, pts, env, ctx, line, name)
            self.order_guard([(pre, r), (p2, a)], f, line)
            if not mut:
                head = lean.format(r=r) if "{r}" in lean else f"{lean} {r}"
                return pre + p2, f"({head}{a})", vt
            return self.mut_apply(recv, f"{lean} {{}}{a}", vt, pre + p2, env, ctx, line, discard)
        g = self.find(rt, name, f"{f.rel}:{line}") if isinstance(rt, str) else None
        if g is None:
            self.fail(f, line, f"method `{name}` on {tstr(rt)} is not known to the translator")
        ps, vt, mutself, fuel = self.sig(g)
        if not mutself:
            p2, txt, t = self.call_user(g, r, argv, env, ctx, line)
            self.order_guard([(pre, r), (p2, txt)], f, line)
            return pre + p2, txt, t
        gname = self.need(g)
        if fuel:
            self.fail(f, line, f"call of the fuel-carrying `{gname}`")
        p2, a = self.args(argv, ps[1:], env, ctx, line, name)
        return self.mut_apply(recv, f"{gname} {{}}{a}", ("tuple", (vt,)) and vt, pre + p2, env, ctx, line, discard, pair_always=True)

    def mut_apply(self, recv, call_fmt, vt, pre, env, ctx, line, discard, pair_always=False):
        """a method that mutates its receiver, applied to a place: re-bind the root; value (if any) is `.1`."""
        root, fls, t = self.place(recv, env, ctx, line)
        callt = call_fmt.format(self.place_read(root, fls, env))
        if vt == "unit" and not pair_always:
            return pre + [("let", lvar(root), self.place_write(root, fls, env, f"({callt})"))], "()", "unit"
        v = ctx.fresh()
        return pre + [("let", v, callt), ("let", lvar(root), self.place_write(root, fls, env, f"{v}.2"))], f"{v}.1", vt

    def closure(self, cl, ptypes, env, ctx, want, line):
        """a closure without effects: (lean `fun` text, result type)."""
        f = ctx.f
        if cl[0] != "closure":
            self.fail(f, line, "a closure is expected here")
        if len(cl[2]) != len(ptypes):
            self.fail(f, line, "closure with the wrong number of parameters")
        env2 = {n: (t, False) for n, (t, _) in env.items()}      # nothing is mutable inside
        ps = []
        for p, pt in zip(cl[2], ptypes):
            ptxt, binds = self.pattern(p, pt, f, line)
            for n, bt in binds:
                env2[n] = (bt, False)
            ps.append(ptxt)
        if contains_kind(cl[3], "return") or contains_kind(cl[3], "try") or contains_kind(cl[3], "assign"):
            self.fail(f, line, "`return` / `?` / assignment inside a closure that is not the argument of a final `or_else`")
        body, t = self.value_block(cl[3], env2, ctx, want)
        return f"(fun {' '.join(ps) if ps else '(_ : Unit)'} => {body})", t

    def combinator(self, e, env, ctx, want):
        f = ctx.f
        _, line, recv, name, _, argv = e
        pre, r, rt = self.expr(recv, env, ctx)
        if len(argv) != 1:
            self.fail(f, line, f"`{name}` with other than one argument")
        isopt = isinstance(rt, tuple) and rt[0] == "Option"
        if name == "and_then" and isopt:
            c, t = self.closure(argv[0], [rt[1]], env, ctx, want, line)
            if not (isinstance(t, tuple) and t[0] == "Option"):
                self.fail(f, line, "`and_then` closure must return an Option")
            return pre, f"(option_and_then {r} {c})", t
        if name == "map" and isopt:
            w = want[1] if isinstance(want, tuple) and want[0] == "Option" else None
            c, t = self.closure(argv[0], [rt[1]], env, ctx, w, line)
            return pre, f"(option_map {r} {c})", ("Option", t)
        if name == "unwrap_or_else" and isopt:
            c, t = self.closure(argv[0], [], env, ctx, rt[1], line)
            self.unify(t, rt[1], f, line)
            return pre, f"(option_unwrap_or_else {r} {c})", t
        if name == "unwrap_or" and isopt:
            p2, d, dt = self.expr(argv[0], env, ctx, rt[1])        # the argument is evaluated eagerly
            self.unify(dt, rt[1], f, line)
            self.order_guard([(pre, r), (p2, d)], f, line)
            return pre + p2, f"(option_unwrap_or {r} {d})", dt
        if name == "or_else" and isopt:
            c, t = self.closure(argv[0], [], env, ctx, rt, line)
            self.unify(t, rt, f, line)
            return pre, f"(option_or_else {r} {c})", t
        isiter = rt == "LinePoints" or (isinstance(rt, tuple) and rt[0] == "iter")
        if isiter:
            el = "Point" if rt == "LinePoints" else rt[1]
            it = f"(LinePoints_into_iter {r})" if rt == "LinePoints" else r
            if name == "chain":
                p2, o, ot = self.expr(argv[0], env, ctx)
                if ot == "LinePoints":
                    o = f"(LinePoints_into_iter {o})"
                elif ot != ("iter", el):
                    self.fail(f, line, f"`chain` with {tstr(ot)}")
                self.order_guard([(pre, it), (p2, o)], f, line)
                return pre + p2, f"(iter_chain {it} {o})", ("iter", el)
            if name == "any":
                c, t = self.closure(argv[0], [el], env, ctx, "bool", line)
                self.unify(t, "bool", f, line)
                return pre, f"(iter_any {it} {c})", "bool"
        self.fail(f, line, f"`{name}` on {tstr(rt)} is not known to the translator")


# ---------------------------------------------------------------------------------------------------------------
# driver
# ---------------------------------------------------------------------------------------------------------------

HEADER = """/-
  EG.Generated.TriSrc — GENERATED by tools/tr_trisrc.py from /repo's Rust text. DO NOT EDIT.
  Sources: src/primitives/triangle/{mod,scanline_iterator,points}.rs, src/primitives/polyline/{mod,points}.rs.
  One `def` per Rust function, arm for arm; every Rust primitive is a function of the trusted preludes
  EG/Model/RectSrcPrelude.lean and EG/Model/TriSrcPrelude.lean, `Point` / `Rectangle` helpers are the regenerated
  functions of EG/Generated/RectSrc.lean. The theorems `<name>_src_eq_model` of EG/Props/C19/Generated*.lean and
  EG/Props/C05/GeneratedTriangle.lean prove each definition equal to the hand-written model.
-/
import EG.Generated.RectSrc
import EG.Model.TriSrcPrelude
set_option linter.unusedVariables false

namespace EG.Generated.TriSrc
open EG.RectSrcPrelude EG.TriSrcPrelude EG.Generated

"""


def load(repo):
    prog = Prog()
    for mod, rel in FILES:
        path = os.path.join(repo, rel)
        if not os.path.exists(path):
            raise TrError(f"{rel}: file not found")
        src = strip_comments(open(path).read(), rel)
        scan_items(Cursor(tokenize(src, rel)), prog, rel, mod)
    return prog


def translate(repo):
    prog = load(repo)
    for name, fields in EXT_STRUCTS.items():
        if name in ("Point", "Scanline", "RangeI32"):
            continue        # Point: core/src/geometry/point.rs, checked by tr_rect.py; Scanline: SCANLINE_DECL below; Range: core
        if prog.structs.get(name) != fields:
            raise TrError(f"struct {name}: fields {prog.structs.get(name)} differ from the prelude's {fields}")
    rel_, decl_ = SCANLINE_DECL
    if decl_ not in open(os.path.join(repo, rel_)).read():
        raise TrError(f"{rel_}: the declaration of `Scanline` differs from the prelude's (`y: i32, x: Range<i32>`)")
    em = Emitter(prog)
    text = [HEADER]
    for sn in GEN_STRUCTS:
        if sn not in prog.structs:
            raise TrError(f"struct {sn} not found")
        text.append(f"/-- `struct {sn}` -/\nstructure {LEAN_STRUCT_NAME[sn]} where\n"
                    + "".join(f"  {lvar(n)} : {em.lean_type(t)}\n" for n, t in prog.structs[sn]) + "\n")
    for (it, trn, n) in ROOTS:
        g = prog.fns.get((it, trn, n))
        if g is None:
            raise TrError(f"function {(it, trn, n)} not found")
        em.need(g)
    text.append("\n".join(em.out))
    untranslated = {}
    for (it, trn, n), g in sorted(prog.fns.items(), key=lambda kv: (kv[0][0] or "", kv[0][1] or "", kv[0][2])):
        if it in INVENTORY_TYPES and (it, trn, n) not in em.done:
            untranslated.setdefault(f"impl {trn + ' for ' if trn else ''}{it}", []).append(n)
    text.append("\n/-- functions of the impls of " + " / ".join(INVENTORY_TYPES) + " (in the parsed files) that are NOT translated -/\n"
                "def untranslated : List (String × List String) := [\n"
                + ",\n".join(f'  ("{k}", [' + ", ".join(f'"{n}"' for n in v) + "])" for k, v in untranslated.items()) + "]\n")
    text.append("\n/-- what was translated (Lean name, Rust origin) -/\ndef translated : List (String × String) := [\n"
                + ",\n".join(f'  ("{a}", "{b}")' for a, b in em.listing) + "]\n")
    text.append("\nend EG.Generated.TriSrc\n")
    return "".join(text), {"functions": len(em.listing), "untranslated": untranslated, "names": [a for a, _ in em.listing]}


def failed_file(reason):
    r = reason.replace("\\", "\\\\").replace('"', '\\"').replace("\n", " ")
    return ("/-\n  EG.Generated.TriSrc — GENERATED by tools/tr_trisrc.py. THE TRANSLATION FAILED: the Rust source of `Triangle` /\n"
            "  `Polyline` (points path) contains a construct the translator does not know. No function is defined here, so\n"
            "  the `_src_eq_model` theorems of EG/Props/C19/Generated*.lean and EG/Props/C05/GeneratedTriangle.lean do not build.\n-/\n"
            "namespace EG.Generated.TriSrc\n\n"
            f"def translationFailed : String := \"{r}\"\n\nend EG.Generated.TriSrc\n")


# ---------------------------------------------------------------------------------------------------------------
# self test: constructs that must be REFUSED (loudly) and a few that must translate to a known text
# ---------------------------------------------------------------------------------------------------------------

SELFTEST_SRC = """
pub struct Triangle { pub vertices: [Point; 3], }
pub struct Points { scanline_iter: ScanlineIterator, current_line: Scanline, }
pub struct ScanlineIterator { rows: Range<i32>, scanline_y: i32, }
impl ScanlineIterator { fn bump(&mut self) -> Option<i32> { self.rows.next() } }
impl Triangle {
    fn helper(&self, a: i32) -> i32 { a }
"""
# (name, signature tail after the name, body, expected error fragment or None, expected Lean fragment or None)
SELFTEST_CASES = [
    ("ok_array_pat", "(&self) -> i32", "let [p1, p2, p3] = self.vertices; p1.x + p3.y", None, "let (p1, p2, p3) := (Triangle_vertices self)"),
    ("ok_early_return", "(&self, a: i32) -> i32", "if a > 0 { return 1; } let c = a + 1; c", None, "if (i32_gt a (0 : Int)) then\n    (1 : Int)\n  else\n    let c := (i32_add a (1 : Int))"),
    ("ok_let_block_return", "(&self, a: i32) -> bool", "let b = { let s = a + 1; if s == 0 { return false; } s > 2 }; b", None, "let b := (i32_gt s (2 : Int))"),
    ("ok_try", "(&self, o: Option<i32>) -> Option<i32>", "let v = o?; Some(v + 1)", None, "| none => none"),
    ("ok_index", "(&self) -> i32", "self.vertices[2].x", None, "(array3_index (Triangle_vertices self) 2)"),
    ("bad_index_range", "(&self) -> i32", "self.vertices[3].x", "literal indices below 3", None),
    ("bad_index_var", "(&self, i: i32) -> i32", "self.vertices[i].x", "literal indices below 3", None),
    ("bad_for", "(&self, a: i32) -> i32", "for i in 0..a { } a", "`for`", None),
    ("bad_while", "(&self, a: i32) -> i32", "while a > 0 { } a", "while", None),
    ("bad_loop", "(&self, a: i32) -> i32", "loop { return a; }", "`loop`", None),
    ("bad_unknown_method", "(&self, a: i32) -> i32", "a.wrapping_add(1)", "not known to the translator", None),
    ("bad_unknown_fn", "(&self, a: i32) -> i32", "other(a)", "not found in the parsed sources", None),
    ("bad_try_in_arm", "(&self, a: i32, o: Option<i32>) -> Option<i32>", "let v = if a > 0 { o? } else { 1 }; Some(v)", "evaluated conditionally", None),
    ("bad_try_in_and", "(&self, a: i32, o: Option<bool>) -> Option<bool>", "let v = a > 0 && o?; Some(v)", "evaluated conditionally", None),
    ("bad_try_non_option", "(&self, o: Option<i32>) -> i32", "let v = o?; v", "does not return an Option", None),
    ("bad_shadow_in_copied_arm", "(&self, a: i32) -> i32", "let c = a; if a > 0 { let c = a + 2; if c > a { return c; } } c", "would hide the outer binding", None),
    ("bad_code_after_return", "(&self, a: i32) -> i32", "return a; a", "code after `return`", None),
    ("bad_type_mismatch", "(&self, a: i32, b: u32) -> i32", "b", "type mismatch", None),
    ("bad_mixed_arith", "(&self, a: i32, b: u32) -> i32", "a + b", "not supported", None),
    ("bad_assign_immutable", "(&self, a: i32) -> i32", "let c = a; c = 2; c", "is not mutable", None),
    ("bad_compound_assign", "(&self, a: i32) -> i32", "let mut c = a; c += 2; c", "compound assignment", None),
    ("bad_closure", "(&self, a: i32) -> i32", "let g = |x| x + 1; a", "closure outside a supported combinator", None),
    ("bad_closure_mutates", "(&self, o: Option<i32>) -> Option<i32>", "let mut c = 1i32; o.map(|v| { c = 2; v })", "inside a closure", None),
    ("bad_match_guard", "(&self, a: i32, o: Option<i32>) -> i32", "match o { Some(v) if a > 0 => v, _ => a }", "match guards", None),
    ("bad_rest_pattern", "(&self, v: &[Point]) -> i32", "match v { [p, ..] => p.x, _ => 0 }", "rest patterns", None),
    ("bad_array_repeat", "(&self, a: Point) -> Triangle", "Triangle { vertices: [a; 3] }", "array repeat", None),
    ("bad_shift", "(&self, a: i32) -> i32", "a << 1", "unexpected token `<`", None),
    ("bad_cast", "(&self, a: i32) -> u32", "a as u32", "`cast` not supported", None),
    ("bad_unsafe", "(&self, a: i32) -> i32", "unsafe { a }", "`unsafe`", None),
    ("bad_dropped_value", "(&self, a: i32) -> i32", "a + 1; a", "has no translation", None),
]
SELFTEST_MUT = [
    ("ok_mut_field_call", "(&mut self) -> Option<Point>", "self.current_line.next()", None, "let self := { self with current_line := __r1.2 }"),
    ("ok_or_else_state", "(&mut self) -> Option<Point>", "self.current_line.next().or_else(|| { self.current_line = self.scanline_iter.next()?.0; self.current_line.next() })", None, "option_or_else_st __r1.1 self (fun self =>"),
    ("bad_order", "(&mut self) -> Option<(i32, Option<i32>)>", "Some((self.scanline_iter.scanline_y, self.scanline_iter.bump()))", "evaluation order", None),
    ("bad_nth_elsewhere", "(&mut self) -> Option<Point>", "self.nth(1)", "method `nth` on TriPoints is not known", None),
]


def selftest():
    """returns a list of problems (empty = fine)."""
    problems = []
    src = SELFTEST_SRC
    for (name, sig, body, _, _) in SELFTEST_CASES:
        src += f"    fn {name}{sig} {{ {body} }}\n"
    src += "}\nimpl Points {\n"
    for (name, sig, body, _, _) in SELFTEST_MUT:
        src += f"    fn {name}{sig} {{ {body} }}\n"
    src += "}\nimpl Iterator for ScanlineIterator { type Item = (Scanline, PointType); fn next(&mut self) -> Option<Self::Item> { let y = self.rows.next()?; Some((Scanline::new_empty(y), PointType::Fill)) } }\n"
    try:
        prog = Prog()
        scan_items(Cursor(tokenize(strip_comments(src, "selftest"), "selftest")), prog, "selftest", "tri")
    except TrError as ex:
        return [f"selftest input does not parse: {ex}"]
    for (it, cases) in (("Triangle", SELFTEST_CASES), ("TriPoints", SELFTEST_MUT)):
        for (name, sig, body, err, frag) in cases:
            em = Emitter(prog)
            try:
                em.need(prog.fns[(it, None, name)])
                text = em.out[-1]
                if err is not None:
                    problems.append(f"{name}: `{body}` was ACCEPTED but must be refused ({err}); output: {text.strip()[-200:]}")
                elif frag not in text:
                    problems.append(f"{name}: `{body}` translated to unexpected text: {text}")
            except TrError as ex:
                if err is None:
                    problems.append(f"{name}: `{body}` refused: {ex}")
                elif err not in str(ex):
                    problems.append(f"{name}: refused with an unexpected message: {ex} (expected `{err}`)")
    return problems


def generate(repo):
    try:
        problems = selftest()
        if problems:
            raise TrError("translator self test failed: " + "; ".join(problems[:3]))
        text, info = translate(repo)
        info["selftest_cases"] = len(SELFTEST_CASES) + len(SELFTEST_MUT)
        return {"TriSrc.lean": text}, info
    except TrError as ex:
        reason = str(ex)
    except RecursionError:
        reason = "recursion limit reached while parsing"
    except Exception as ex:
        reason = f"internal error {type(ex).__name__}: {ex}"
    return {"TriSrc.lean": failed_file(reason)}, {"failed": reason}


if __name__ == "__main__":
    import json
    repo = os.environ.get("EG_REPO", "/repo")
    if len(sys.argv) > 1 and sys.argv[1] == "--selftest":
        ps = selftest()
        print("\n".join(ps) if ps else f"selftest: {len(SELFTEST_CASES) + len(SELFTEST_MUT)} cases fine")
        sys.exit(1 if ps else 0)
    elif len(sys.argv) > 1 and sys.argv[1] == "--strict":
        t, i = translate(repo)
        print(t)
    else:
        files, info = generate(repo)
        print(files["TriSrc.lean"])
        print(json.dumps(info), file=sys.stderr)
