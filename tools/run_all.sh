#!/bin/sh
# run_all.sh [tier] — run every claimed check (4 in parallel) and print one line each.
tier=${1:-quick}
cd "$(dirname "$0")/.."
mkdir -p .work
ids=$(python3 -c "import json;print(' '.join(c['property_id'] for c in json.load(open('MANIFEST.json'))['checks']))")
echo $ids | tr ' ' '\n' | xargs -P 4 -I{} sh -c "./check {} --tier $tier > .work/all-{}.log 2>&1; echo \"rc=\$? \$(grep -E '^\[' .work/all-{}.log | tail -1) \$(grep -c '^VIOLATION' .work/all-{}.log) violation line(s)\""
