#!/usr/bin/env python3
"""tr_rrect.py — SOURCE-TO-LEAN translator for the ROUNDED RECTANGLE code that C18 (corner radii, `confine`), C05
(points() = contains()) and C06 rest on.

It reads, from /repo's current working tree,
  src/primitives/rounded_rectangle/corner_radii.rs      `CornerRadii::{new, confine}`, every `CornerRadiiBuilder` method
  src/primitives/rounded_rectangle/mod.rs               `RoundedRectangle::{new, with_equal_corners, confine_radii,
                                                        get_confined_corner_quadrant}`, `OffsetOutline::offset`,
                                                        `ContainsPoint::contains`, `Dimensions::bounding_box`,
                                                        `Transform::translate`, `PointsIter::points`,
                                                        `RoundedRectangleContains::{new, contains}`
  src/primitives/rounded_rectangle/ellipse_quadrant.rs  `enum Quadrant`, `EllipseQuadrant::new`, `bounding_box`, `contains`
  src/primitives/rounded_rectangle/points.rs            `Points::new`, `Points::next`, `Scanlines::new`, `Scanlines::next`
  src/primitives/ellipse/mod.rs                         only the free function `center_2x`
  src/primitives/common/scanline.rs                     only the SIGNATURES of `Scanline::{new, new_empty, next}`
and writes EG/Generated/RRectSrc.lean: one Lean `def` per Rust function, mirroring the Rust text arm for arm, one
`structure` per Rust `struct` of the rounded rectangle files and the `inductive Quadrant`.

REUSES tools/tr_rect.py (imported, never edited): tokenizer, `Cursor`, item scanner `parse_items`, the statement /
expression parser `BodyParser` (subclassed), the typed syntax-directed `Translator` (subclassed) and its struct emitter.
The `Rectangle` / `Point` / `Size` functions the bodies call (`rows`, `columns`, `offset`, `translate`, `Point + Size`,
`Point - Size`, `Point * i32`, `Size * u32`, `Size::saturating_add` ...) are NOT translated again: the generated text calls
`RectSrc.<name>` of EG/Generated/RectSrc.lean (tr_rect's output; this part checks that tr_rect does translate that
function). `tr_rect.BodyParser` creates its sub-parsers through the module-level name, so the subclass is bound to that
name only while this part parses (`scoped_parser`, restored in `finally`). `parse_postfix_from` and `parse_block_body`
are copies with `?` / `for` / `loop` added (they cannot be extended by calling the original). The desugarings of
`let p = e?;` / `place = e?;` follow the circle / ellipse part (tools/tr_curve.py, developed concurrently).

`EllipseContains::{new, contains}` (ellipse/mod.rs) and `Scanline::{new, new_empty, next}` (common/scanline.rs) are NOT
regenerated here: the prelude binds them to the hand models `EG.EllipseContains` / `EG.Scanline` (table `BOUND`); their
tie to the Rust text belongs to the circle / ellipse part.

Two files of the library declare a `Points` that this part sees (core rectangle's and the rounded rectangle's):
identifiers are made module-qualified while a file is loaded (table `RENAMES`: `Points` -> `RRectPoints`, `Scanlines` ->
`RRectScanlines`), and the module prefix of `ellipse::center_2x` is dropped (table `MODULE_PREFIXES`).

What the translator does beyond re-spelling (each is the DEFINITION of the Rust construct, not knowledge about the code):
  * `let p = e?;`              is  `match e { Some(p) => <rest>, None => return None }`
  * `place = e?;`              is  `match e { Some(v) => { place = v; <rest> }, None => return None }`
  * `let S { a, b, .. } = v;`  is  `let a = v.a; let b = v.b;`   (`v` a local, `self`, or a `*` / `&` of one)
  * `for PAT in ARRAY { B }`   is  a left fold of `B` over the array; the fold state is the tuple of the locals `B` assigns
  * `loop { B }`               is  `while true { B }`
  * `let f = |x: T| body;`     is  a Lean `fun`, `f(a)` its application (closures may read but not assign captured locals)
  * closures are otherwise only accepted as arguments of `Range::find` / `rfind` (on a `.clone()`), `Option::map` /
    `filter`, `Iterator::all`.
All semantics live in the hand-written prelude EG/Model/RRectSrcPrelude.lean and in tr_rect's prelude. Anything unknown
raises; `generate` then writes a RRectSrc.lean that only contains `def translationFailed`, so exactly the theorems of
Props/C18/GeneratedRRect.lean and Props/C05/GeneratedRRect.lean stop building.
"""
import contextlib
import os
import re
import sys

sys.path.insert(0, os.path.dirname(os.path.abspath(__file__)))
import tr_rect
from tr_rect import RectTrError as TrError, Cursor, tokenize, strip_comments, parse_items, Program, type_str

RECT_RELS = set(tr_rect.FILES.values())

FILES = {
    "scanline": "src/primitives/common/scanline.rs",
    "ellipse": "src/primitives/ellipse/mod.rs",
    "corner_radii": "src/primitives/rounded_rectangle/corner_radii.rs",
    "quadrant": "src/primitives/rounded_rectangle/ellipse_quadrant.rs",
    "rrect": "src/primitives/rounded_rectangle/mod.rs",
    "rr_points": "src/primitives/rounded_rectangle/points.rs",
}
RENAMES = {
    "ellipse": {"Points": "EllipsePoints"},
    "rrect": {"Points": "RRectPoints"},
    "rr_points": {"Points": "RRectPoints", "Scanlines": "RRectScanlines"},
}
MODULE_PREFIXES = {"ellipse"}

GENERATED_STRUCTS = ["CornerRadii", "CornerRadiiBuilder", "EllipseQuadrant", "RoundedRectangle", "RoundedRectangleContains",
                     "RRectScanlines", "RRectPoints"]
GENERATED_ENUMS = ["Quadrant"]
INVENTORY_TYPES = ["CornerRadii", "CornerRadiiBuilder", "EllipseQuadrant", "RoundedRectangle", "RoundedRectangleContains",
                   "RRectScanlines", "RRectPoints"]
# functions bound to the hand models by the prelude: (impl type, fn name) -> prelude name
BOUND = {
    ("EllipseContains", "new"): "EllipseContains_new",
    ("EllipseContains", "contains"): "EllipseContains_contains",
    ("Scanline", "new"): "Scanline_new",
    ("Scanline", "new_empty"): "Scanline_new_empty",
    ("Scanline", "next"): "Scanline_Iterator_next",
}
BOUND_TYPES = {"EllipseContains", "Scanline"}

ROOTS_CORE = [
    ("CornerRadii", None, "new"), ("CornerRadii", None, "confine"),
    (None, None, "center_2x"),
    ("EllipseQuadrant", None, "new"), ("EllipseQuadrant", "Dimensions", "bounding_box"),
    ("EllipseQuadrant", "ContainsPoint", "contains"),
    ("RoundedRectangle", None, "new"), ("RoundedRectangle", None, "with_equal_corners"),
    ("RoundedRectangle", None, "confine_radii"), ("RoundedRectangle", None, "get_confined_corner_quadrant"),
    ("RoundedRectangle", "OffsetOutline", "offset"), ("RoundedRectangle", "Dimensions", "bounding_box"),
    ("RoundedRectangle", "Transform", "translate"),
    ("RoundedRectangleContains", None, "new"), ("RoundedRectangleContains", None, "contains"),
    ("RoundedRectangle", "ContainsPoint", "contains"),
    ("CornerRadiiBuilder", None, "new"), ("CornerRadiiBuilder", None, "all"), ("CornerRadiiBuilder", None, "top"),
    ("CornerRadiiBuilder", None, "right"), ("CornerRadiiBuilder", None, "bottom"), ("CornerRadiiBuilder", None, "left"),
    ("CornerRadiiBuilder", None, "top_left"), ("CornerRadiiBuilder", None, "top_right"),
    ("CornerRadiiBuilder", None, "bottom_right"), ("CornerRadiiBuilder", None, "bottom_left"),
    ("CornerRadiiBuilder", None, "build"),
]
ROOTS_POINTS = [
    ("RRectScanlines", None, "new"), ("RRectScanlines", "Iterator", "next"),
    ("RRectPoints", None, "new"), ("RRectPoints", "Iterator", "next"), ("RoundedRectangle", "PointsIter", "points"),
]
ROOTS = ROOTS_CORE + ROOTS_POINTS

RANGE_I32 = ("Range", ("i32",))
WIDE = ("u64", "u128")
LEAN_INT_TYPES = {"i32": "Int", "u32": "Nat", "u64": "Nat", "u128": "Nat"}

RR_PRELUDE_NAMES = {"u64_from_u32", "u128_from_u32", "u128_from_u64", "u64_as_u32", "array_for", "range_i32_contains",
                    "range_i32_clone", "range_i32_find", "range_i32_rfind", "option_filter", "option_map", "option_unwrap_or",
                    "option_into_iter", "iter_chain_option", "iter_all", "EllipseContains", "Scanline", "RRectSrc"} \
    | set(BOUND.values()) | {f"{t}_{o}" for t in WIDE for o in ("add", "mul", "div", "lt", "le", "gt", "ge", "eq", "ne")}


# ---------------------------------------------------------------------------------------------------------------
# parser extension
# ---------------------------------------------------------------------------------------------------------------

class RRBodyParser(tr_rect.BodyParser):
    """adds `e?` (node `try`), struct patterns `S { a, b, .. }` (node `pstruct`), typed closure parameters, `u64` /
    `u128` literal suffixes, array literals `[a, b]` (node `array`), `for PAT in E { .. }` (node `for`) and
    `loop { .. }` (node `while` with the condition `true`)."""

    def parse_block_body(self):
        """copy of tr_rect.BodyParser.parse_block_body with `for` / `loop` statements accepted"""
        c = self.c
        stmts, tail = [], None
        while not c.eof():
            if tail is not None:
                self.fail("expression in the middle of a block without `;`")
            if c.at(";"):
                c.next()
                continue
            if c.at("let"):
                t = c.next()
                mut = False
                if c.at("mut"):
                    c.next()
                    mut = True
                pat = self.parse_pattern()
                ty = None
                if c.at(":"):
                    c.next()
                    ty = tr_rect.parse_type(c)
                c.expect("=")
                e = self.parse_expr()
                if c.at("else"):
                    self.fail("let-else not supported")
                c.expect(";")
                stmts.append(("let", t.line, pat, ty, e, mut))
                continue
            if c.at("for"):
                t = c.next()
                pat = self.parse_pattern()
                if not c.at("in"):
                    self.fail("`in` expected")
                c.next()
                it = self.parse_expr(nostruct=True)
                body = self.parse_braced_block()
                stmts.append(("expr", t.line, ("for", t.line, pat, it, body)))
                continue
            if c.at("loop"):
                t = c.next()
                body = self.parse_braced_block()
                stmts.append(("expr", t.line, ("while", t.line, ("path", t.line, ["true"]), body)))
                continue
            if c.peek().kind == "id" and c.peek().text in ("fn", "struct", "enum", "impl", "use", "const", "static", "unsafe"):
                self.fail(f"`{c.peek().text}` inside a body is not supported")
            e = self.parse_expr(stmt=True)
            if c.at("=") or (c.peek() and c.peek().kind == "p" and c.peek().text in ("+=", "-=", "*=", "/=", "%=")):
                op = c.next()
                rhs = self.parse_expr()
                c.expect(";")
                stmts.append(("assign", op.line, op.text, e, rhs))
            elif c.at(";"):
                c.next()
                stmts.append(("expr", e[1], e))
            elif c.eof():
                tail = e
            elif e[0] in ("if", "match", "block", "while"):
                stmts.append(("expr", e[1], e))
            else:
                self.fail(f"expected `;` or end of block after expression, found `{c.peek().text}`")
        return stmts, tail

    def parse_postfix_from(self, e, nostruct):
        """copy of tr_rect.BodyParser.parse_postfix_from with `?` accepted (node `try`)"""
        c = self.c
        while True:
            if c.at("?"):
                q = c.next()
                e = ("try", q.line, e)
                continue
            if c.at("["):
                self.fail("indexing not supported")
            if c.at("("):
                t = c.peek()
                e = ("callexpr", t.line, e, self.parse_args())
                continue
            if c.at("."):
                if c.peek(1) is not None and c.peek(1).kind == "int":
                    self.fail("tuple field access not supported")
                if c.at("await", 1):
                    self.fail("await")
                d = c.next()
                name = c.ident()
                turbofish = None
                if c.at("::"):
                    c.next()
                    c.expect("<")
                    turbofish = tr_rect.parse_type(c)
                    c.expect(">")
                if c.at("("):
                    e = ("mcall", d.line, e, name, turbofish, self.parse_args())
                else:
                    if turbofish is not None:
                        self.fail("turbofish without a call")
                    e = ("field", d.line, e, name)
                continue
            return e

    def parse_pattern1(self):
        c = self.c
        t = c.peek()
        if t is not None and t.kind == "id" and t.text[0].isupper() and c.at("{", 1):
            name = c.ident()
            s, e = c.skip_balanced("{", "}")
            fc = Cursor(c.t, s, e)
            names, rest = [], False
            while not fc.eof():
                if fc.at(".."):
                    fc.next()
                    rest = True
                    if not fc.eof():
                        self.fail("`..` must end a struct pattern", t)
                    break
                n = fc.ident()
                if not (fc.eof() or fc.at(",")):
                    self.fail("only shorthand struct patterns `S { a, b, .. }` are supported", t)
                names.append(n)
                if fc.at(","):
                    fc.next()
            return ("pstruct", t.line, name, names, rest)
        return super().parse_pattern1()

    def parse_closure(self):
        c = self.c
        t = c.next()
        if t.text == "move":
            self.fail("`move` closures not supported", t)
        params, ptypes = [], []
        if t.text == "|":
            while not c.at("|"):
                p = self.parse_pattern1()
                if p[0] != "pbind":
                    self.fail("closure parameter must be a plain name")
                ty = None
                if c.at(":"):
                    c.next()
                    ty = tr_rect.parse_type(c)
                params.append(p[2])
                ptypes.append(ty)
                if c.at(","):
                    c.next()
            c.next()
        body = self.parse_expr()
        return ("closure", t.line, params, body, ptypes)

    def parse_primary(self, nostruct):
        c = self.c
        t = c.peek()
        if t is not None and t.kind == "int":
            m = re.fullmatch(r"([0-9][0-9_]*)(u64|u128)", t.text)
            if m:
                c.next()
                return ("int", t.line, int(m.group(1).replace("_", "")), m.group(2))
        if t is not None and c.at("["):
            s, e = c.skip_balanced("[", "]")
            sub = tr_rect.BodyParser(c.t, s, e, self.where)
            items = []
            while not sub.c.eof():
                items.append(sub.parse_expr())
                if sub.c.at(","):
                    sub.c.next()
                elif sub.c.at(";"):
                    sub.fail("array repeat expressions `[v; n]` not supported")
                elif not sub.c.eof():
                    sub.fail("`,` expected in array literal")
            if not items:
                self.fail("empty array literal not supported", t)
            return ("array", t.line, items)
        return super().parse_primary(nostruct)


@contextlib.contextmanager
def scoped_parser():
    saved = tr_rect.BodyParser
    tr_rect.BodyParser = RRBodyParser
    try:
        yield
    finally:
        tr_rect.BodyParser = saved


# ---------------------------------------------------------------------------------------------------------------
# translator extension
# ---------------------------------------------------------------------------------------------------------------

def is_opt(t):
    return t is not None and not isinstance(t, str) and t[0] == "Option" and len(t[1]) == 1


class RRTranslator(tr_rect.Translator):
    def __init__(self, prog, rect_names, rect_loopy):
        super().__init__(prog)
        self.rect_names = rect_names
        self.rect_loopy = rect_loopy
        self.extern_used = set()
        self.bound_used = set()
        self.fresh = 0

    def translate_fn(self, f):
        saved, self.fresh = self.fresh, 0       # fresh names are numbered per function
        try:
            return super().translate_fn(f)
        finally:
            self.fresh = saved

    # ---- names
    def is_extern(self, f):
        return f.rel in RECT_RELS

    def is_bound(self, f):
        return f.impl_type in BOUND_TYPES

    def prefix(self, f):
        return "RectSrc." if self.is_extern(f) else ("" if self.is_bound(f) else "RRectSrc.")

    def lean_fn_name(self, f):
        if self.is_extern(f):
            return super().lean_fn_name(f)
        if self.is_bound(f):
            k = (f.impl_type, f.name)
            if k not in BOUND:
                raise TrError(f"{self.where}: `{f.impl_type}::{f.name}` is not one of the functions the prelude binds to the hand model")
            return BOUND[k]
        if f.impl_type is None:
            return f.name
        if f.trait is None:
            return f"{f.impl_type}_{f.name}"
        m = re.fullmatch(r"(\w+)(?:<(\w+)>)?", f.trait)
        if not m:
            raise TrError(f"trait name `{f.trait}` not understood")
        if m.group(1) in tr_rect.OP_TRAIT_NAMES:
            return super().lean_fn_name(f)
        return f"{f.impl_type}_{m.group(1)}_{f.name}"

    def lvar(self, name):
        if name in RR_PRELUDE_NAMES or name in GENERATED_STRUCTS or name in GENERATED_ENUMS:
            return name + "_"
        return super().lvar(name)

    def lean_type(self, t, self_type=None):
        if t == "Self":
            t = self_type
        if isinstance(t, str):
            if t in LEAN_INT_TYPES:
                return LEAN_INT_TYPES[t]
            if t in BOUND_TYPES:
                return t
            if t in GENERATED_STRUCTS and t in self.prog.structs:
                return t
            if t in GENERATED_ENUMS and t in self.prog.enums:
                return t
            if t in self.prog.structs and t not in tr_rect.EXPECTED_STRUCTS:
                raise TrError(f"struct {t} is neither generated by this part nor one of the prelude's")
        elif t[0] == "array" and len(t[1]) == 1:
            return f"(List {self.lean_type(t[1][0], self_type)})"
        return super().lean_type(t, self_type)

    def need(self, f):
        if self.is_extern(f):
            name = super().lean_fn_name(f)
            if name not in self.rect_names:
                raise TrError(f"{self.where}: `{name}` ({f.rel}) is not among the functions tools/tr_rect.py translates")
            if name in self.rect_loopy:
                raise TrError(f"{self.where}: `{name}` contains a loop: not supported here")
            self.extern_used.add(name)
            return name
        if self.is_bound(f):
            name = self.lean_fn_name(f)
            self.bound_used.add(name)
            return name
        return super().need(f)

    def call_user(self, g, self_arg, args, env, ctx, line, ind):
        txt, t = super().call_user(g, self_arg, args, env, ctx, line, ind)
        return self.requalify(txt, g), t

    def requalify(self, txt, g):
        p = self.prefix(g)
        if txt.startswith("(RectSrc."):
            return "(" + p + txt[len("(RectSrc."):]
        if txt.startswith("RectSrc."):
            return p + txt[len("RectSrc."):]
        raise TrError(f"internal: call text `{txt[:40]}` has an unexpected shape")

    def mut_call(self, e, env, ctx, line, ind):
        mc = super().mut_call(e, env, ctx, line, ind)
        if mc is None:
            return None
        root, fields, rtype, call, vt = mc
        if call.startswith("(RectSrc."):
            t = rtype
            for fl in fields:
                t = self.field_type(t, fl, line)
            g = self.find_method(t, e[3], f"{self.where}: line {line}")
            call = self.requalify(call, g)
        return root, fields, rtype, call, vt

    def var(self, stem):
        self.fresh += 1
        return f"{stem}'{self.fresh}"

    # ---- statements
    def desugar(self, s, env, ctx, ind):
        """None, or the list of statements that statement `s` stands for"""
        kind, line = s[0], s[1]
        W = f"{self.where}: line {line}"
        none_ret = ("return", line, ("path", line, ["None"]))

        def need_option():
            if not is_opt(ctx["ret"]):
                raise TrError(f"{W}: `?` in a function that does not return an Option")
            if not env.get("%tail"):
                raise TrError(f"{W}: `?` inside an expression whose value is used: not supported")

        if kind == "let":
            _, _, pat, ty, e, mut = s
            if e[0] == "try":
                need_option()
                if ty is not None:
                    raise TrError(f"{W}: type annotation on `let .. = e?` not supported")
                return [("expr", line, ("match", line, e[2], [(("pctor", line, ["Some"], [pat]), ("unit", line)),
                                                              (("pctor", line, ["None"], []), none_ret)]))]
            if pat[0] == "pstruct":
                _, _, sname, names, rest = pat
                src = e
                while src[0] in ("deref", "ref", "paren"):
                    src = src[2]
                if src[0] != "path" or len(src[2]) != 1 or src[2][0] not in env:
                    raise TrError(f"{W}: `let {sname} {{ .. }} = <expr>`: only a local variable (or `*` / `&` of one) may be destructured")
                if ctx["mut_self"] and src[2][0] == "self":
                    raise TrError(f"{W}: destructuring `self` of a `&mut self` function binds reborrows: not supported")
                vt = env[src[2][0]]
                st = ctx["self_type"] if sname == "Self" else sname
                if vt != st:
                    raise TrError(f"{W}: pattern `{sname} {{..}}` against type {type_str(vt)}")
                decl = [n for n, _ in self.prog.structs[st]]
                if len(set(names)) != len(names) or any(n not in decl for n in names):
                    raise TrError(f"{W}: pattern `{sname} {{..}}` names an unknown field or a field twice")
                if not rest and sorted(decl) != sorted(names):
                    raise TrError(f"{W}: pattern `{sname} {{..}}` without `..` must name every field")
                if mut or ty is not None:
                    raise TrError(f"{W}: `mut` / type annotation on a struct pattern not supported")
                if src[2][0] in names:
                    raise TrError(f"{W}: a bound field shadows the destructured variable")
                return [("let", line, ("pbind", line, n), None, ("field", line, src, n), False) for n in names]
            return None
        if kind == "assign":
            _, _, op, lhs, rhs = s
            if rhs[0] == "try":
                need_option()
                if op != "=":
                    raise TrError(f"{W}: `{op}` with `?` not supported")
                v = self.var("opt")
                body = ("block", line, [("assign", line, "=", lhs, ("path", line, [v]))], None)
                return [("expr", line, ("match", line, rhs[2], [(("pctor", line, ["Some"], [("pbind", line, v)]), body),
                                                                (("pctor", line, ["None"], []), none_ret)]))]
            return None
        return None

    @staticmethod
    def assigned_roots(node, out):
        """local variables assigned (as `var = ..` / `var.f = ..` / `var += ..`) anywhere inside the statements"""
        if isinstance(node, list):
            for x in node:
                RRTranslator.assigned_roots(x, out)
        elif isinstance(node, tuple):
            if node and node[0] == "assign" and len(node) == 5:
                r = node[3]
                while r[0] == "field":
                    r = r[2]
                if r[0] == "path" and len(r[2]) == 1 and r[2][0] not in out:
                    out.append(r[2][0])
            for x in node:
                RRTranslator.assigned_roots(x, out)

    def tr_for(self, e, env, ctx, rest, ind):
        _, line, pat, it, body = e
        W = f"{self.where}: line {line}"
        pad = " " * ind
        if ctx["in_loop"]:
            raise TrError(f"{W}: `for` inside a `loop` / `while` not supported")
        itxt, itype = self.tr_expr(it, self.nt(env), ctx, None, ind + 2)
        if isinstance(itype, str) or itype[0] != "array":
            raise TrError(f"{W}: `for` is only supported over an array (by value), not over {type_str(itype)}")
        if tr_rect.contains_kind(body, "return") or tr_rect.contains_kind(body, "try") or tr_rect.contains_kind(body, "for") \
                or tr_rect.contains_kind(body, "while"):
            raise TrError(f"{W}: `return` / `?` / a nested loop inside a `for` body not supported")
        roots = []
        self.assigned_roots(body, roots)
        if not roots:
            raise TrError(f"{W}: a `for` body that assigns no local variable has no translation (no effect)")
        for r in roots:
            if r not in env or r.startswith("%"):
                raise TrError(f"{W}: the `for` body assigns `{r}`, which is not a local variable declared before the loop")
            self.check_assignable(r, env, line)
        binds = {}
        ptxt = self.tr_pat(pat, itype[1][0], binds, line)
        for b in binds:
            if b in roots:
                raise TrError(f"{W}: the loop pattern shadows the assigned variable `{b}`")
        state = ", ".join(self.lvar(r) for r in roots)
        state = f"({state})" if len(roots) > 1 else state
        envb = dict(env)
        envb.update(binds)
        envb["%tail"] = False
        envb["%frozen"] = frozenset(k for k in envb if not k.startswith("%") and k not in roots)
        btxt, _ = self.tr_stmts(body[2], 0, body[3], envb, ctx, None, lambda env2, ind2=0: (state, "never"), ind + 4)
        rtxt, rt = rest(env)
        return (f"let {state} := array_for {self.atom(itxt)} {state} (fun {state} {ptxt} =>\n{pad}    {btxt});\n{pad}{rtxt}"), rt

    def tr_while(self, e, env, ctx, rest, ind):
        if e[2][0] == "path" and e[2][2] == ["true"]:
            # `loop { .. }` (no `break` in the subset): the code after it is unreachable; `while_loop` with the condition
            # `true` never ends normally, so the arm for a normal end is dead and says "no answer" like missing fuel
            rest = lambda env2, ind2=ind: ("Option.none", "never")
        return super().tr_while(e, env, ctx, rest, ind)

    def tr_let_closure(self, s, env, ctx, rest, ind):
        _, line, pat, ty, cl, mut = s
        W = f"{self.where}: line {line}"
        pad = " " * ind
        if pat[0] != "pbind" or ty is not None or mut:
            raise TrError(f"{W}: a closure must be bound by a plain `let name = |..| ..;`")
        ptypes = cl[4] if len(cl) > 4 else [None] * len(cl[2])
        if any(t is None for t in ptypes) or not ptypes:
            raise TrError(f"{W}: the parameters of a `let`-bound closure need type annotations")
        ptypes = [self.norm_type(t, ctx["self_type"]) for t in ptypes]
        ftxt, ft = self.closure_body(cl, ptypes, env, ctx, None, ind, W, typed=True)
        env2 = dict(env)
        env2[pat[2]] = ("fn", tuple(ptypes) + (ft,))
        env2["%frozen"] = env["%frozen"] - {pat[2]}
        r, rt = rest(env2)
        return f"let {self.lvar(pat[2])} := {ftxt};\n{pad}{r}", rt

    def tr_stmts(self, stmts, i, tail, env, ctx, expected, final, ind):
        if i < len(stmts):
            s = stmts[i]
            new = self.desugar(s, env, ctx, ind)
            if new is not None:
                stmts = list(stmts[:i]) + new + list(stmts[i + 1:])
                return self.tr_stmts(stmts, i, tail, env, ctx, expected, final, ind)
            rest = lambda env2, ind2=ind: self.tr_stmts(stmts, i + 1, tail, env2, ctx, expected, final, ind2)
            if s[0] == "let" and s[4][0] == "closure":
                return self.tr_let_closure(s, env, ctx, rest, ind)
            if s[0] == "expr" and s[2][0] == "for":
                return self.tr_for(s[2], env, ctx, rest, ind)
        return super().tr_stmts(stmts, i, tail, env, ctx, expected, final, ind)

    # ---- expressions
    def closure_body(self, cl, ptypes, env, ctx, expected, ind, W, typed=False):
        if cl[0] != "closure" or len(cl[2]) != len(ptypes):
            raise TrError(f"{W}: a closure with {len(ptypes)} parameter(s) expected")
        ann = cl[4] if len(cl) > 4 else [None] * len(ptypes)
        for a, t in zip(ann, ptypes):
            if a is not None and self.norm_type(a, ctx["self_type"]) != t:
                raise TrError(f"{W}: closure parameter annotated {type_str(a)}, but it receives {type_str(t)}")
        env2 = dict(self.nt(env))
        for p, t in zip(cl[2], ptypes):
            env2[p] = t
        env2 = self.freeze(env2)
        btxt, bt = self.tr_expr(cl[3], env2, ctx, expected, ind + 2)
        if bt == "int?":
            raise TrError(f"{W}: cannot tell the type of the closure's value")
        if typed:
            params = " ".join(f"({self.lvar(p)} : {self.lean_type(t)})" for p, t in zip(cl[2], ptypes))
        else:
            params = " ".join(self.lvar(p) for p in cl[2])
        return f"(fun {params} => {btxt})", bt

    def tr_expr(self, e, env, ctx, expected, ind):
        k, line = e[0], e[1]
        W = f"{self.where}: line {line}"
        if k == "try":
            raise TrError(f"{W}: `?` is only supported in `let p = e?;` and `place = e?;`")
        if k in ("for",):
            raise TrError(f"{W}: `for` is only supported as a statement")
        if k == "int" and (e[3] in WIDE or (e[3] is None and expected in WIDE)):
            return f"({e[2]} : Nat)", e[3] or expected
        if k == "cast" and e[3] in WIDE + ("u32",):
            txt, t = self.tr_expr(e[2], self.nt(env), ctx, None, ind)
            if t == "u64" and e[3] == "u32":
                return f"(u64_as_u32 {self.atom(txt)})", "u32"
            if t in WIDE or e[3] in WIDE:
                raise TrError(f"{W}: cast from {type_str(t)} to {e[3]} not supported")
        if k == "array":
            items = e[2]
            elem = expected[1][0] if (expected is not None and not isinstance(expected, str) and expected[0] == "array") else None
            parts = []
            for x in items:
                txt, t = self.tr_expr(x, self.nt(env), ctx, elem, ind + 2)
                if t == "int?":
                    raise TrError(f"{W}: untyped literal in an array")
                if elem is not None and t != elem:
                    raise TrError(f"{W}: array elements of different types {type_str(elem)} / {type_str(t)}")
                elem = t
                parts.append(txt)
            pad = " " * (ind + 2)
            return "[" + (",\n" + pad).join(parts) + "]", ("array", (elem,))
        if k == "closure":
            raise TrError(f"{W}: closure outside a supported combinator / `let`")
        return super().tr_expr(e, env, ctx, expected, ind)

    def tr_bin(self, e, env, ctx, expected, ind):
        _, line, op, l, r = e
        W = f"{self.where}: line {line}"
        if op in tr_rect.BIN_ARITH or op in tr_rect.BIN_CMP:
            a, at = self.tr_expr(l, env, ctx, expected if expected in WIDE else None, ind)
            if at in WIDE:
                b, bt = self.tr_expr(r, env, ctx, at, ind)
                if bt != at:
                    raise TrError(f"{W}: `{op}` between {at} and {type_str(bt)} not supported")
                if op in tr_rect.BIN_CMP:
                    return f"({at}_{tr_rect.BIN_CMP[op]} {self.atom(a)} {self.atom(b)})", "bool"
                if op == "-" or (op == "/" and at == "u128"):
                    raise TrError(f"{W}: `{op}` on {at} has no prelude counterpart")
                return f"({at}_{tr_rect.BIN_ARITH[op]} {self.atom(a)} {self.atom(b)})", at
        return super().tr_bin(e, env, ctx, expected, ind)

    def tr_call(self, e, env, ctx, expected, ind):
        _, line, fe, args = e
        W = f"{self.where}: line {line}"
        if fe[0] == "path":
            segs = fe[2]
            if len(segs) == 1 and segs[0] in env and not isinstance(env[segs[0]], str) and env[segs[0]][0] == "fn":
                sig = env[segs[0]][1]
                ptypes, ret = sig[:-1], sig[-1]
                if len(args) != len(ptypes):
                    raise TrError(f"{W}: the closure `{segs[0]}` takes {len(ptypes)} argument(s)")
                out = []
                for a, pt in zip(args, ptypes):
                    txt, t = self.tr_expr(a, self.nt(env), ctx, pt, ind + 2)
                    self.unify(t, pt, f"{W}: argument of the closure `{segs[0]}`")
                    out.append(self.atom(txt))
                return f"({self.lvar(segs[0])} {' '.join(out)})", ret
            if len(segs) == 2 and segs[0] in WIDE and segs[1] == "from":
                if len(args) != 1:
                    raise TrError(f"{W}: {segs[0]}::from takes one argument")
                txt, t = self.tr_expr(args[0], self.nt(env), ctx, None, ind)
                if (segs[0], t) not in (("u64", "u32"), ("u128", "u32"), ("u128", "u64")):
                    raise TrError(f"{W}: {segs[0]}::from({type_str(t)}) not supported")
                return f"({segs[0]}_from_{t} {self.atom(txt)})", segs[0]
        return super().tr_call(e, env, ctx, expected, ind)

    def tr_mcall(self, e, env, ctx, expected, ind):
        _, line, recv, name, turbofish, args = e
        W = f"{self.where}: line {line}"
        special = ("contains", "clone", "find", "rfind", "filter", "map", "unwrap_or", "into_iter", "chain", "all")
        if name in special and turbofish is None:
            rtxt, rt = self.tr_expr(recv, self.nt(env), ctx, None, ind)
            ra = self.atom(rtxt)
            if rt == RANGE_I32 and name == "contains" and len(args) == 1:
                atxt, at = self.tr_expr(args[0], self.nt(env), ctx, "i32", ind)
                self.unify(at, "i32", f"{W}: argument of Range::contains")
                return f"(range_i32_contains {ra} {self.atom(atxt)})", "bool"
            if rt == RANGE_I32 and name == "clone" and not args:
                return f"(range_i32_clone {ra})", rt
            if rt == RANGE_I32 and name in ("find", "rfind"):
                r0 = recv
                while r0[0] == "paren":
                    r0 = r0[2]
                if not (r0[0] == "mcall" and r0[3] == "clone"):
                    raise TrError(f"{W}: `{name}` advances its receiver; only `<range>.clone().{name}(..)` (a temporary) is supported")
                if len(args) != 1:
                    raise TrError(f"{W}: {name} takes one closure")
                ftxt, ft = self.closure_body(args[0], ["i32"], env, ctx, "bool", ind, W)
                self.unify(ft, "bool", f"{W}: predicate of {name}")
                return f"(range_i32_{name} {ra} {ftxt})", ("Option", ("i32",))
            if is_opt(rt) and name == "filter" and len(args) == 1:
                ftxt, ft = self.closure_body(args[0], [rt[1][0]], env, ctx, "bool", ind, W)
                self.unify(ft, "bool", f"{W}: predicate of filter")
                return f"(option_filter {ra} {ftxt})", rt
            if is_opt(rt) and name == "map" and len(args) == 1:
                inner = expected[1][0] if is_opt(expected) else None
                ftxt, ft = self.closure_body(args[0], [rt[1][0]], env, ctx, inner, ind, W)
                return f"(option_map {ra} {ftxt})", ("Option", (ft,))
            if is_opt(rt) and name == "unwrap_or" and len(args) == 1:
                atxt, at = self.tr_expr(args[0], self.nt(env), ctx, rt[1][0], ind)
                self.unify(at, rt[1][0], f"{W}: argument of unwrap_or")
                return f"(option_unwrap_or {ra} {self.atom(atxt)})", rt[1][0]
            if is_opt(rt) and name == "into_iter" and not args:
                return f"(option_into_iter {ra})", ("Iter", rt[1])
            if not isinstance(rt, str) and rt[0] == "Iter" and name == "chain" and len(args) == 1:
                atxt, at = self.tr_expr(args[0], self.nt(env), ctx, ("Option", rt[1]), ind)
                if at != ("Option", rt[1]):
                    raise TrError(f"{W}: `chain` is only known with an Option of the same item type")
                return f"(iter_chain_option {ra} {self.atom(atxt)})", rt
            if not isinstance(rt, str) and rt[0] == "Iter" and name == "all" and len(args) == 1:
                ftxt, ft = self.closure_body(args[0], [rt[1][0]], env, ctx, "bool", ind, W)
                self.unify(ft, "bool", f"{W}: predicate of all")
                return f"(iter_all {ra} {ftxt})", "bool"
        return super().tr_mcall(e, env, ctx, expected, ind)


# ---------------------------------------------------------------------------------------------------------------
# driver
# ---------------------------------------------------------------------------------------------------------------

HEADER = """/-
  EG.Generated.RRectSrc — GENERATED by tools/tr_rrect.py from /repo's current sources. Do not edit.

  One `def` per Rust function of src/primitives/rounded_rectangle/{corner_radii,mod,ellipse_quadrant,points}.rs and the
  free `center_2x` of src/primitives/ellipse/mod.rs, mirroring the Rust text arm for arm, one `structure` per Rust
  `struct` of the rounded rectangle files and the `inductive Quadrant`. Rust primitives are functions of the hand-written
  preludes EG/Model/RectSrcPrelude.lean and EG/Model/RRectSrcPrelude.lean; `Rectangle` / `Point` / `Size` functions are the
  regenerated `RectSrc.*` of EG/Generated/RectSrc.lean; `EllipseContains` and `Scanline` are the hand models (bound by
  the prelude). The theorems `<name>_src_eq_model` of EG/Props/C18/GeneratedRRect.lean and
  EG/Props/C05/GeneratedRRect.lean prove these definitions equal to the hand-written model EG/Model/RoundedRect.lean.
-/
import EG.Generated.RectSrc
import EG.Model.RRectSrcPrelude
set_option linter.unusedVariables false
namespace EG.Generated.RRectSrc
open EG EG.RectSrcPrelude EG.RRectSrcPrelude

"""


def load_file(prog, key, rel, repo):
    p = os.path.join(repo, rel)
    if not os.path.exists(p):
        raise TrError(f"{rel}: file not found")
    toks = tokenize(strip_comments(open(p).read(), rel), rel)
    ren = RENAMES.get(key, {})
    out = []
    i = 0
    while i < len(toks):
        t = toks[i]
        if t.kind == "id" and t.text in MODULE_PREFIXES and i + 2 < len(toks) and toks[i + 1].text == "::" \
                and toks[i + 2].kind == "id" and toks[i + 2].text[0].islower() and (i == 0 or toks[i - 1].text != "::"):
            i += 2          # `ellipse::center_2x` -> `center_2x`
            continue
        if t.kind == "id" and t.text in ren:
            t = tr_rect.Tok(t.kind, ren[t.text], t.line, t.rel)
        out.append(t)
        i += 1
    parse_items(Cursor(out), prog, rel)


def load_program(repo):
    prog = Program()
    for key, rel in tr_rect.FILES.items():
        load_file(prog, key + "%rect", rel, repo)
    for key, rel in FILES.items():
        load_file(prog, key, rel, repo)
    for f in prog.fns.values():
        if getattr(f, "unsupported", None) == "`mut self` parameter" and f.impl_type in GENERATED_STRUCTS:
            # a by-value `mut self`: assignments to its fields rebind `self` (tr_rect's functional updates), the
            # tail `self` is the value
            f.unsupported = None
        if getattr(f, "unsupported", None):
            continue
        try:
            f.ret = tr_rect.subst_assoc(f.ret, f, prog)
            f.params = [(n, tr_rect.subst_assoc(t, f, prog)) for (n, t) in f.params]
        except TrError as ex:
            f.unsupported = str(ex)
    return prog


def translate(repo, roots=None):
    _, rinfo = tr_rect.translate(repo)          # raises when tr_rect itself refuses its sources
    rect_names = set(rinfo["names"])
    with scoped_parser():
        prog = load_program(repo)
        for name, fields in tr_rect.EXPECTED_STRUCTS.items():
            if prog.structs.get(name) != fields:
                raise TrError(f"struct {name}: fields {prog.structs.get(name)} differ from the prelude's {fields}")
        tr = RRTranslator(prog, rect_names, {"Iterator_next"})
        tr.where = "roots"
        text = [HEADER]
        for en in GENERATED_ENUMS:
            if en not in prog.enums:
                raise TrError(f"enum {en} not found")
            text.append(f"/-- `enum {en}` -/\ninductive {en} where\n" + "".join(f"  | {v}\n" for v in prog.enums[en])
                        + "  deriving DecidableEq, Repr\n\n")
        for sn in GENERATED_STRUCTS:
            if sn not in prog.structs:
                raise TrError(f"struct {sn} not found")
            text.append(tr_rect.struct_decl(tr, sn))
        for (it, trn, n) in (roots or ROOTS):
            tr.need(tr.find_fn(it, trn, n, "roots"))
    text.append("\n".join(tr.out))
    untranslated = {}
    for (it, trn, n), f in sorted(prog.fns.items(), key=lambda kv: (kv[0][0] or "", kv[0][1] or "", kv[0][2])):
        if it in INVENTORY_TYPES and (it, trn, n) not in tr.done:
            untranslated.setdefault(f"impl {trn + ' for ' if trn else ''}{it}", []).append(n)
    text.append("\n/-- functions of the impls of " + " / ".join(INVENTORY_TYPES) + " (in the parsed files) that are NOT translated -/\n"
                "def untranslated : List (String × List String) := [\n"
                + ",\n".join(f'  ("{k}", [' + ", ".join(f'"{n}"' for n in v) + "])" for k, v in untranslated.items()) + "]\n")
    text.append("\n/-- what was translated (Lean name, Rust origin) -/\ndef translated : List (String × String) := [\n"
                + ",\n".join(f'  ("{a}", "{b}")' for a, b in tr.listing) + "]\n")
    text.append("\n/-- regenerated `Rectangle` / `Point` / `Size` functions (EG/Generated/RectSrc.lean) the text above calls -/\n"
                "def rectFunctionsUsed : List String := [" + ", ".join(f'"{n}"' for n in sorted(tr.extern_used)) + "]\n")
    text.append("\n/-- functions bound to the hand models by EG/Model/RRectSrcPrelude.lean (not regenerated here) -/\n"
                "def boundFunctionsUsed : List String := [" + ", ".join(f'"{n}"' for n in sorted(tr.bound_used)) + "]\n")
    text.append("\nend EG.Generated.RRectSrc\n")
    info = {"functions": len(tr.listing), "untranslated": untranslated, "names": [a for a, _ in tr.listing],
            "rect_functions_used": sorted(tr.extern_used), "bound_functions_used": sorted(tr.bound_used)}
    return "".join(text), info


def failed_file(reason):
    r = reason.replace("\\", "\\\\").replace('"', '\\"').replace("\n", " ")
    return ("/-\n  EG.Generated.RRectSrc — GENERATED by tools/tr_rrect.py. THE TRANSLATION FAILED: the Rust source of the rounded\n"
            "  rectangle (or of what it calls) contains a construct the translator does not know. No function is defined\n"
            "  here, so the `_src_eq_model` theorems of EG/Props/C18/GeneratedRRect.lean and EG/Props/C05/GeneratedRRect.lean\n"
            "  do not build.\n-/\n"
            "namespace EG.Generated.RRectSrc\n\n"
            f"def translationFailed : String := \"{r}\"\n\nend EG.Generated.RRectSrc\n")


# ---------------------------------------------------------------------------------------------------------------
# self test: snippets that must be refused / must translate to a known text
# ---------------------------------------------------------------------------------------------------------------

SELFTEST_SRC = """
pub struct Point { pub x: i32, pub y: i32 }
pub struct Size { pub width: u32, pub height: u32 }
pub struct Rectangle { pub top_left: Point, pub size: Size }
pub struct It { r: Range<i32>, k: i32, w: u32 }
impl It {
"""
# (name, signature tail, body, expected error fragment or None, expected Lean fragment or None)
SELFTEST_CASES = [
    ("ok_try_let", "(&mut self) -> Option<i32>", "let y = self.r.next()?; Some(y + self.k)", None,
     "| Option.none =>\n      (Option.none, self)"),
    ("ok_for", "(&self, a: u32) -> u32", "let xs = [(a, 1u64), (self.w, 2u64)]; let mut m = 0u64; let mut n = a; "
     "for (p, q) in xs { if q < m { m = q; n = p; } } n", None, "array_for xs (m, n) (fun (m, n) (p, q) =>"),
    ("ok_closure", "(&self, a: u32) -> u32", "let f = |x: u32| { (u64::from(x) * u64::from(a) / 3u64) as u32 }; f(self.w)", None,
     "let f := (fun (x : Nat) => (u64_as_u32 (u64_div (u64_mul (u64_from_u32 x) (u64_from_u32 a)) (3 : Nat))));"),
    ("ok_u128", "(&self, a: u32, b: u64) -> bool", "u128::from(a) * u128::from(b) < u128::from(self.w)", None,
     "(u128_lt (u128_mul (u128_from_u32 a) (u128_from_u64 b)) (u128_from_u32 (It_w self)))"),
    ("ok_pstruct", "(&self) -> i32", "let Self { k, .. } = self; *k", None, "let k := (It_k self);"),
    ("ok_filter", "(&self, o: Option<i32>) -> Option<i32>", "o.filter(|v| *v < self.k)", None, "(option_filter o (fun v => (i32_lt v (It_k self))))"),
    ("ok_chain_all", "(&self, o: Option<i32>, p: Option<i32>) -> bool", "o.into_iter().chain(p).all(|v| v < self.k)", None,
     "(iter_all (iter_chain_option (option_into_iter o) p) (fun v => (i32_lt v (It_k self))))"),
    ("ok_rfind", "(&self, a: i32) -> i32", "self.r.clone().rfind(|x| *x > a).map(|x| x + 1).unwrap_or(self.r.start)", None,
     "(option_unwrap_or (option_map (range_i32_rfind (range_i32_clone (It_r self)) (fun x => (i32_gt x a))) (fun x => (i32_add x (1 : Int)))) (RangeI32_start (It_r self)))"),
    ("ok_contains", "(&self, a: i32) -> bool", "self.r.contains(&a)", None, "(range_i32_contains (It_r self) a)"),
    ("bad_for_range", "(&self, a: i32) -> i32", "let mut s = a; for i in 0..a { s = i; } s", "only supported over an array", None),
    ("bad_for_return", "(&self, a: u32) -> u32", "let xs = [a, a]; let mut m = a; for p in xs { if p < m { return p; } m = p; } m",
     "inside a `for` body", None),
    ("bad_closure_assign", "(&self, a: u32) -> u32", "let mut m = a; let f = |x: u32| { m = x; x }; f(a)", "modified inside a block used as a value", None),
    ("bad_closure_untyped", "(&self, a: u32) -> u32", "let f = |x| x; f(a)", "need type annotations", None),
    ("bad_find_place", "(&mut self, a: i32) -> Option<i32>", "self.r.find(|x| *x > a)", "only `<range>.clone().find(..)`", None),
    ("bad_try_value", "(&mut self) -> Option<i32>", "let y = self.r.next()? + 1; Some(y)", "`?` is only supported", None),
    ("bad_u64_mixed", "(&self, a: u32, b: u32) -> bool", "u64::from(a) * b < 1", "between u64 and u32", None),
    ("bad_u64_sub", "(&self, a: u32, b: u32) -> u64", "u64::from(a) - u64::from(b)", "no prelude counterpart", None),
    ("bad_wrapping", "(&self, a: u32) -> u32", "a.wrapping_mul(2)", "not known to the translator", None),
    ("bad_array_repeat", "(&self, a: u32) -> u32", "let xs = [a; 2]; a", "array repeat", None),
    ("bad_pstruct_expr", "(&self) -> i32", "let Point { x, .. } = Point::new(self.k, 0); x", "only a local variable", None),
]


def selftest():
    problems = []
    for (name, sig, body, err, frag) in SELFTEST_CASES:
        src = SELFTEST_SRC + f"    fn {name}{sig} {{ {body} }}\n}}\n"
        try:
            with scoped_parser():
                prog = Program()
                parse_items(Cursor(tokenize(src, "selftest")), prog, "selftest")
                tr = RRTranslator(prog, set(), set())
                tr.where = "selftest"
                GENERATED_STRUCTS.append("It")
                try:
                    tr.need(tr.find_fn("It", None, name, "selftest"))
                finally:
                    GENERATED_STRUCTS.remove("It")
            text = "\n".join(tr.out)
            if err is not None:
                problems.append(f"{name}: should have been refused ({err}) but translated")
            elif frag not in text:
                problems.append(f"{name}: expected `{frag}` in `{text}`")
        except TrError as ex:
            if err is None:
                problems.append(f"{name}: refused: {ex}")
            elif err not in str(ex):
                problems.append(f"{name}: refused with `{ex}`, expected `{err}`")
    return problems


def generate(repo):
    try:
        problems = selftest()
        if problems:
            raise TrError("translator self test failed: " + "; ".join(problems[:3]))
        text, info = translate(repo)
        info["selftest_cases"] = len(SELFTEST_CASES)
        return {"RRectSrc.lean": text}, info
    except TrError as ex:
        reason = str(ex)
    except RecursionError:
        reason = "recursion limit reached while parsing"
    except Exception as ex:     # a bug of the translator must not take the other checks down
        reason = f"internal error {type(ex).__name__}: {ex}"
    return {"RRectSrc.lean": failed_file(reason)}, {"failed": reason}


if __name__ == "__main__":
    import json
    repo = os.environ.get("EG_REPO", "/repo")
    if len(sys.argv) > 1 and sys.argv[1] == "--selftest":
        ps = selftest()
        print("\n".join(ps) if ps else f"selftest: {len(SELFTEST_CASES)} cases fine")
        sys.exit(1 if ps else 0)
    elif len(sys.argv) > 1 and sys.argv[1] == "--strict":
        t, i = translate(repo)
        print(t)
    else:
        files, info = generate(repo)
        print(files["RRectSrc.lean"])
        print(json.dumps(info), file=sys.stderr)
