#!/usr/bin/env python3
"""Collects the outcome of running the checks against the seeded changes (logs written by
tools/seedtest_all.sh / tools/seed_final.sh: /tmp/vseed-log-<Cxx>-<n>.txt) into seeded/results.json."""
import json, os, re, glob
V = os.path.dirname(os.path.dirname(os.path.abspath(__file__)))
res = {}
rp = os.path.join(V, "seeded", "results.json")
if os.path.exists(rp):
    res = json.load(open(rp))
for log in sorted(glob.glob("/tmp/vseed-log-*.txt")):
    m = re.match(r".*/vseed-log-(C\d+)-([\w-]+)\.txt", log)
    if not m:
        continue
    sid = f"{m.group(1)}-{m.group(2)}"
    meta = os.path.join(V, "seeded", sid, "meta.json")
    if not os.path.exists(meta):
        continue
    txt = open(log).read()
    viol = re.findall(r"^VIOLATION property=(C\d+) replay=\S*?/(?:C\d+-\w+-\d+-)?([^/\s]+?)\.json(.*)$", txt, re.M)
    summ = re.findall(r"^\[(C\d+)/(\w+)\] (.*)$", txt, re.M)
    r = {"summary": json.load(open(meta)).get("summary", ""),
         "caught": bool(viol),
         "caught_by": sorted({v[0] for v in viol}),
         "classes": sorted({v[1] for v in viol}),
         "no_failing_input": any("no-failing-input-found" in v[2] for v in viol),
         "runs": [f"{s[0]}/{s[1]}: {s[2]}" for s in summ],
         "how": "patch applied to a private worktree of /repo at the commit in meta.json.confirmed (tools/seedrun.sh); re-run against /repo itself by tools/seed_final.sh before the final commit"}
    mj = json.load(open(meta))
    if mj.get("superseded"):
        r["superseded"] = mj["superseded"]
    res[sid] = r
json.dump(res, open(rp, "w"), indent=1, sort_keys=True)
print(len(res), "seed results;", sum(1 for r in res.values() if r["caught"]), "caught;", sum(1 for r in res.values() if not r["caught"] and r.get("superseded")), "not (or no longer) breaking the property;", [k for k, r in res.items() if not r["caught"] and not r.get("superseded")], "missed")
