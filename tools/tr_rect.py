#!/usr/bin/env python3
"""tr_rect.py — SOURCE-TO-LEAN translator for the behavioural code of `Rectangle` (C16; C03's clipping rests on it).

Unlike the other translator parts (which extract tables), this one translates function BODIES. It reads, from
/repo's current working tree,
  core/src/primitives/rectangle/mod.rs     `Rectangle`'s inherent functions, `center_offset`, `overlaps`
  core/src/geometry/{mod,point,size}.rs    the `Point` / `Size` / `AnchorPoint` helpers those bodies call (found on demand)
  src/primitives/rectangle/mod.rs          `ContainsPoint::contains`, `OffsetOutline::offset`, `Transform::translate`
parses the bodies with a small recursive-descent parser for the Rust subset they use, and writes
  EG/Generated/RectSrc.lean                one Lean `def` per Rust function, mirroring the Rust text arm for arm.

The translation is syntax-directed and dumb. It knows NOTHING about what an operation means: every Rust primitive
(`+` on i32, `u32::saturating_sub`, `as i32`, `..=`, `Option::is_some_and`, `debug_assert!` ...) becomes a call of
a function of the hand-written prelude `lean/EG/Model/RectSrcPrelude.lean`, which carries all the semantics and
is part of the trusted base. The only things the translator does beyond re-spelling are
  * resolving a method / operator by the TYPE of its receiver (a tiny type inference over the parsed signatures),
  * turning early `return`s and statement-position `if` / `match` into nested expressions by copying the rest of
    the block into every arm (the continuation), and
  * turning `&mut self` helpers and assignments to fields into functional updates (`let self := T_set_f self v`).
`lean/EG/Props/C16/Generated.lean` proves, for every translated function, that it equals the hand-written model
(`<name>_src_eq_model`), so a semantic change of the Rust text breaks a theorem of C16.

Any construct the parser / translator does not know raises `RectTrError` (never skipped). Because translate.py
runs for every property, `generate` catches its own failure and then writes a RectSrc.lean that contains only
`def translationFailed : String := "<reason>"`: the equivalence theorems stop building (reported by check.py as
broken theorems of C16 and of whatever imports the generated file), the other checks are not affected.
"""
import os
import re


class RectTrError(Exception):
    pass


FILES = {
    "rect": "core/src/primitives/rectangle/mod.rs",
    "geom": "core/src/geometry/mod.rs",
    "point": "core/src/geometry/point.rs",
    "size": "core/src/geometry/size.rs",
    "eg_rect": "src/primitives/rectangle/mod.rs",
    "points": "core/src/primitives/rectangle/points.rs",
}

# functions translated (with everything they call, transitively). (impl type or None, trait or None, fn name)
ROOTS = [
    (None, None, "center_offset"), (None, None, "overlaps"),
    ("Rectangle", None, "new"), ("Rectangle", None, "new_at_origin"), ("Rectangle", None, "with_corners"),
    ("Rectangle", None, "with_center"), ("Rectangle", None, "zero"), ("Rectangle", None, "center"),
    ("Rectangle", None, "bottom_right"), ("Rectangle", None, "contains"), ("Rectangle", None, "intersection"),
    ("Rectangle", None, "envelope"), ("Rectangle", None, "resized"), ("Rectangle", None, "resized_width"),
    ("Rectangle", None, "resized_height"), ("Rectangle", None, "offset"), ("Rectangle", None, "anchor_point"),
    ("Rectangle", None, "anchor_x"), ("Rectangle", None, "anchor_y"), ("Rectangle", None, "rows"),
    ("Rectangle", None, "columns"), ("Rectangle", None, "is_zero_sized"),
    ("Rectangle", "ContainsPoint", "contains"), ("Rectangle", "OffsetOutline", "offset"),
    ("Rectangle", "Transform", "translate"), ("Rectangle", "Dimensions", "bounding_box"),
    ("Rectangle", "PointsIter", "points"),
    # Point / Size arithmetic helpers used by other models (not all reached from Rectangle)
    ("Point", None, "new"), ("Point", None, "new_equal"), ("Point", None, "zero"), ("Point", None, "abs"),
    ("Point", None, "x_axis"), ("Point", None, "y_axis"),
    ("Point", None, "component_min"), ("Point", None, "component_max"), ("Point", None, "component_mul"),
    ("Point", None, "component_div"), ("Point", None, "swap_xy"),
    ("Point", "Add", "add"), ("Point", "Add<Size>", "add"), ("Point", "Sub", "sub"), ("Point", "Sub<Size>", "sub"),
    ("Point", "Neg", "neg"), ("Point", "Mul<i32>", "mul"), ("Point", "Div<i32>", "div"),
    ("Size", None, "new"), ("Size", None, "new_equal"), ("Size", None, "zero"), ("Size", None, "x_axis"),
    ("Size", None, "y_axis"), ("Size", None, "saturating_add"), ("Size", None, "saturating_sub"),
    ("Size", None, "component_min"), ("Size", None, "component_max"), ("Size", None, "component_mul"),
    ("Size", None, "component_div"), ("Size", None, "swap_xy"), ("Size", "Add", "add"), ("Size", "Mul<u32>", "mul"),
    ("Size", "Div<u32>", "div"),
    ("AnchorPoint", None, "from_xy"), ("AnchorPoint", None, "x"), ("AnchorPoint", None, "y"),
    # the `Points` iterator of core/src/primitives/rectangle/points.rs
    ("Points", None, "new"), ("Points", None, "empty"), ("Points", "Iterator", "next"),
]

# ---------------------------------------------------------------------------------------------------------------
# tokenizer
# ---------------------------------------------------------------------------------------------------------------

PUNCT = ["..=", "...", "::", "->", "=>", "==", "!=", "<=", ">=", "&&", "||", "+=", "-=", "*=", "/=", "%=", "..",
         "{", "}", "(", ")", "[", "]", "<", ">", ",", ";", ":", ".", "=", "+", "-", "*", "/", "%", "!", "&", "|", "^",
         "#", "?", "@", "$", "~"]


def strip_comments(src, rel):
    out = []
    i, n = 0, len(src)
    while i < n:
        c = src[i]
        if src.startswith("//", i):
            j = src.find("\n", i)
            i = n if j < 0 else j
        elif src.startswith("/*", i):
            depth, i = 1, i + 2
            while i < n and depth:
                if src.startswith("/*", i):
                    depth, i = depth + 1, i + 2
                elif src.startswith("*/", i):
                    depth, i = depth - 1, i + 2
                else:
                    if src[i] == "\n":
                        out.append("\n")
                    i += 1
            if depth:
                raise RectTrError(f"{rel}: unterminated block comment")
        elif c == '"':
            j = i + 1
            while j < n and src[j] != '"':
                j += 2 if src[j] == "\\" else 1
            if j >= n:
                raise RectTrError(f"{rel}: unterminated string literal")
            out.append(src[i:j + 1])
            i = j + 1
        else:
            out.append(c)
            i += 1
    return "".join(out)


class Tok:
    __slots__ = ("kind", "text", "line", "rel")

    def __init__(self, kind, text, line, rel):
        self.kind, self.text, self.line, self.rel = kind, text, line, rel

    def __repr__(self):
        return f"{self.text!r}@{self.rel}:{self.line}"


def tokenize(src, rel):
    toks = []
    i, n, line = 0, len(src), 1
    while i < n:
        c = src[i]
        if c == "\n":
            line += 1
            i += 1
        elif c.isspace():
            i += 1
        elif c.isalpha() or c == "_":
            j = i
            while j < n and (src[j].isalnum() or src[j] == "_"):
                j += 1
            toks.append(Tok("id", src[i:j], line, rel))
            i = j
        elif c.isdigit():
            j = i
            while j < n and (src[j].isalnum() or src[j] == "_"):
                j += 1
            # a float literal `1.5` (but not the range `1..2` or a method call `1.max(..)`)
            if j + 1 < n and src[j] == "." and src[j + 1].isdigit():
                raise RectTrError(f"{rel}:{line}: float literal not supported")
            toks.append(Tok("int", src[i:j], line, rel))
            i = j
        elif c == '"':
            j = i + 1
            while j < n and src[j] != '"':
                j += 2 if src[j] == "\\" else 1
            toks.append(Tok("str", src[i:j + 1], line, rel))
            line += src[i:j + 1].count("\n")
            i = j + 1
        elif c == "'":
            # char literal or lifetime
            m = re.match(r"'(\\.|[^\\'])'", src[i:])
            if m:
                toks.append(Tok("char", m.group(0), line, rel))
                i += len(m.group(0))
            else:
                m = re.match(r"'[A-Za-z_][A-Za-z0-9_]*", src[i:])
                if not m:
                    raise RectTrError(f"{rel}:{line}: stray quote")
                toks.append(Tok("life", m.group(0), line, rel))
                i += len(m.group(0))
        else:
            for p in PUNCT:
                if src.startswith(p, i):
                    toks.append(Tok("p", p, line, rel))
                    i += len(p)
                    break
            else:
                raise RectTrError(f"{rel}:{line}: unexpected character {c!r}")
    return toks


# ---------------------------------------------------------------------------------------------------------------
# item scanner: structs, enums, impl blocks, fns. Bodies are kept as token spans and parsed on demand.
# ---------------------------------------------------------------------------------------------------------------

class Cursor:
    def __init__(self, toks, i=0, end=None):
        self.t, self.i, self.end = toks, i, len(toks) if end is None else end

    def peek(self, k=0):
        j = self.i + k
        return self.t[j] if j < self.end else None

    def at(self, text, k=0):
        t = self.peek(k)
        return t is not None and t.text == text and t.kind in ("p", "id")

    def eof(self):
        return self.i >= self.end

    def next(self):
        t = self.peek()
        if t is None:
            raise RectTrError("unexpected end of input" + (f" after {self.t[self.end - 1]!r}" if self.end else ""))
        self.i += 1
        return t

    def expect(self, text):
        t = self.next()
        if t.text != text or t.kind not in ("p", "id"):
            raise RectTrError(f"expected `{text}` but found {t!r}")
        return t

    def ident(self):
        t = self.next()
        if t.kind != "id":
            raise RectTrError(f"expected an identifier but found {t!r}")
        return t.text

    def skip_balanced(self, open_, close):
        """cursor at `open_`: skip to just after the matching `close`; returns (start, end) of the inside."""
        self.expect(open_)
        depth, start = 1, self.i
        while depth:
            t = self.next()
            if t.kind == "p" and t.text == open_:
                depth += 1
            elif t.kind == "p" and t.text == close:
                depth -= 1
        return start, self.i - 1


def parse_type(c):
    """types: path with optional generic args, &T, &mut T, tuples, unit."""
    if c.at("&"):
        c.next()
        if c.peek() and c.peek().kind == "life":
            c.next()
        if c.at("mut"):
            c.next()
            return ("refmut", parse_type(c))
        return parse_type(c)       # shared references are transparent (all types involved are Copy)
    if c.at("("):
        c.next()
        items = []
        while not c.at(")"):
            items.append(parse_type(c))
            if c.at(","):
                c.next()
        c.expect(")")
        if not items:
            return "unit"
        if len(items) == 1:
            return items[0]
        return ("tuple", tuple(items))
    if c.at("["):
        raise RectTrError(f"array / slice type not supported at {c.peek()!r}")
    segs = [c.ident()]
    while c.at("::"):
        c.next()
        segs.append(c.ident())
    name = segs[-1]
    if len(segs) == 2 and segs[0] == "Self":
        name = "Self::" + segs[1]       # associated type, resolved against the impl's `type X = ..;` items
    if c.at("<"):
        c.next()
        args = []
        while not c.at(">"):
            if c.peek().kind == "life":
                c.next()
            else:
                args.append(parse_type(c))
            if c.at(","):
                c.next()
        c.expect(">")
        return (name, tuple(args))
    return name


def type_str(t):
    if isinstance(t, str):
        return t
    if t[0] == "refmut":
        return "&mut " + type_str(t[1])
    if t[0] == "tuple":
        return "(" + ", ".join(type_str(x) for x in t[1]) + ")"
    return t[0] + "<" + ", ".join(type_str(x) for x in t[1]) + ">"


class Fn:
    def __init__(self):
        self.name = None
        self.impl_type = None      # "Rectangle" / None for free functions
        self.trait = None          # "Add<Size>" style text, or None
        self.params = []           # [(name, type)] without self
        self.self_kind = None      # None / "value" / "ref" / "refmut"
        self.ret = "unit"
        self.body = None           # (toks, start, end)
        self.rel = None
        self.line = 0

    def key(self):
        return (self.impl_type, self.trait, self.name)


class Program:
    def __init__(self):
        self.structs = {}      # name -> [(field, type)]
        self.enums = {}        # name -> [variant]
        self.fns = {}          # (impl_type, trait, name) -> Fn
        self.skipped = []      # descriptions of items deliberately not looked into
        self.assoc = {}        # (impl_type, trait, name) -> type   (`type Output = Point;` inside an impl)


def parse_fn(c, prog, impl_type, trait, rel):
    """cursor after `fn`."""
    f = Fn()
    f.impl_type, f.trait, f.rel = impl_type, trait, rel
    f.line = c.peek().line
    f.name = c.ident()
    generic = False
    if c.at("<"):
        generic = True
        depth = 0
        while True:
            t = c.next()
            if t.text == "<":
                depth += 1
            elif t.text == ">":
                depth -= 1
                if depth == 0:
                    break
    s, e = c.skip_balanced("(", ")")
    pc = Cursor(c.t, s, e)
    unsupported = "generic function" if generic else None
    try:
        while not pc.eof():
            if pc.at("&") and (pc.at("self", 1) or (pc.at("mut", 1) and pc.at("self", 2))):
                pc.next()
                if pc.at("mut"):
                    pc.next()
                    f.self_kind = "refmut"
                else:
                    f.self_kind = "ref"
                pc.expect("self")
            elif pc.at("self"):
                pc.next()
                f.self_kind = "value"
            elif pc.at("mut") and pc.at("self", 1):
                pc.next(); pc.next()
                f.self_kind = "value"
                unsupported = "`mut self` parameter"
            else:
                if pc.at("mut"):
                    pc.next()
                    unsupported = "`mut` parameter"
                pname = pc.ident()
                pc.expect(":")
                f.params.append((pname, parse_type(pc)))
            if pc.at(","):
                pc.next()
            elif not pc.eof():
                raise RectTrError(f"{rel}: fn {f.name}: cannot parse parameters at {pc.peek()!r}")
        if c.at("->"):
            c.next()
            f.ret = parse_type(c)
    except RectTrError as ex:
        unsupported = f"signature not understood ({ex})"
        # skip to the body / semicolon
        while not (c.at("{") or c.at(";")):
            c.next()
    if c.at("where"):
        unsupported = "where clause"
        while not (c.at("{") or c.at(";")):
            c.next()
    if c.at(";"):
        c.next()
        f.body = None
    else:
        s, e = c.skip_balanced("{", "}")
        f.body = (c.t, s, e)
    f.unsupported = unsupported
    k = f.key()
    if k in prog.fns:
        raise RectTrError(f"{rel}: function {k} defined twice")
    prog.fns[k] = f


def skip_attrs_and_vis(c):
    while True:
        if c.at("#"):
            c.next()
            if c.at("!"):
                c.next()
            c.skip_balanced("[", "]")
        elif c.at("pub"):
            c.next()
            if c.at("("):
                c.skip_balanced("(", ")")
        else:
            return


def parse_items(c, prog, rel, impl_type=None, trait=None):
    while not c.eof():
        skip_attrs_and_vis(c)
        if c.eof():
            break
        t = c.peek()
        if t.kind != "id":
            raise RectTrError(f"{rel}:{t.line}: unexpected token {t.text!r} where an item should start")
        kw = t.text
        if kw in ("const", "unsafe", "async", "extern", "default") and (c.at("fn", 1) or c.at("unsafe", 1)):
            c.next()
            continue
        if kw == "fn":
            c.next()
            parse_fn(c, prog, impl_type, trait, rel)
        elif kw == "type" and impl_type is not None and c.peek(1) is not None and c.peek(1).kind == "id" and c.at("=", 2):
            c.next()
            an = c.ident()
            c.expect("=")
            prog.assoc[(impl_type, trait, an)] = parse_type(c)
            c.expect(";")
        elif kw in ("use", "type", "const", "static"):
            while not c.at(";"):
                if c.at("{"):
                    c.skip_balanced("{", "}")
                else:
                    c.next()
            c.next()
        elif kw == "mod":
            c.next()
            name = c.ident()
            if c.at(";"):
                c.next()
            else:
                c.skip_balanced("{", "}")
                prog.skipped.append(f"{rel}: mod {name} {{..}}")
        elif kw == "trait":
            c.next()
            name = c.ident()
            while not c.at("{"):
                c.next()
            c.skip_balanced("{", "}")
            prog.skipped.append(f"{rel}: trait {name}")
        elif kw == "struct" and impl_type is None:
            c.next()
            name = c.ident()
            if not c.at("{"):
                while not (c.at(";") or c.at("{")):
                    if c.at("("):
                        c.skip_balanced("(", ")")
                    else:
                        c.next()
                if c.at(";"):
                    c.next()
                else:
                    c.skip_balanced("{", "}")
                prog.skipped.append(f"{rel}: struct {name} (not a plain braced struct)")
                continue
            s, e = c.skip_balanced("{", "}")
            fc = Cursor(c.t, s, e)
            fields = []
            while not fc.eof():
                skip_attrs_and_vis(fc)
                if fc.eof():
                    break
                fname = fc.ident()
                fc.expect(":")
                fields.append((fname, parse_type(fc)))
                if fc.at(","):
                    fc.next()
            prog.structs[name] = fields
        elif kw == "enum" and impl_type is None:
            c.next()
            name = c.ident()
            if not c.at("{"):
                raise RectTrError(f"{rel}:{t.line}: generic enum {name} not supported")
            s, e = c.skip_balanced("{", "}")
            ec = Cursor(c.t, s, e)
            variants = []
            while not ec.eof():
                skip_attrs_and_vis(ec)
                if ec.eof():
                    break
                v = ec.ident()
                if not (ec.eof() or ec.at(",")):
                    raise RectTrError(f"{rel}: enum {name}: variant {v} carries data or a discriminant (not supported)")
                variants.append(v)
                if ec.at(","):
                    ec.next()
            prog.enums[name] = variants
        elif kw == "impl" and impl_type is None:
            c.next()
            if c.at("<"):
                # generic impl: not looked into
                while not c.at("{"):
                    c.next()
                c.skip_balanced("{", "}")
                prog.skipped.append(f"{rel}:{t.line}: generic impl")
                continue
            start = c.i
            while not c.at("{"):
                c.next()
            head = c.t[start:c.i]
            texts = [x.text for x in head]
            if "for" in texts:
                k = texts.index("for")
                tr = "".join(texts[:k])
                tr = tr.split("::")[-1] if "<" not in tr else tr[tr.rfind("::", 0, tr.index("<")) + 2 if "::" in tr[:tr.index("<")] else 0:]
                ty = "".join(texts[k + 1:])
            else:
                tr, ty = None, "".join(texts)
            s, e = c.skip_balanced("{", "}")
            if not re.fullmatch(r"[A-Za-z_][A-Za-z0-9_]*", ty):
                prog.skipped.append(f"{rel}:{t.line}: impl for {ty}")
                continue
            parse_items(Cursor(c.t, s, e), prog, rel, impl_type=ty, trait=tr or None)
        else:
            raise RectTrError(f"{rel}:{t.line}: item starting with `{kw}` is not known to the translator")


# ---------------------------------------------------------------------------------------------------------------
# expression / statement parser (the subset the bodies use)
# ---------------------------------------------------------------------------------------------------------------
# AST nodes are tuples: (kind, line, ...)

CMP_OPS = ("==", "!=", "<", ">", "<=", ">=")


class BodyParser:
    def __init__(self, toks, start, end, where):
        self.c = Cursor(toks, start, end)
        self.where = where

    def fail(self, msg, tok=None):
        tok = tok or self.c.peek()
        loc = f"{tok.rel}:{tok.line}" if tok else "end of body"
        raise RectTrError(f"{self.where}: {loc}: {msg}")

    # ---- blocks and statements
    def parse_block_body(self):
        """statements up to the end of the cursor; returns (stmts, tail expr or None)."""
        c = self.c
        stmts, tail = [], None
        while not c.eof():
            if tail is not None:
                self.fail("expression in the middle of a block without `;`")
            if c.at(";"):
                c.next()
                continue
            if c.at("let"):
                t = c.next()
                mut = False
                if c.at("mut"):
                    c.next()
                    mut = True
                pat = self.parse_pattern()
                ty = None
                if c.at(":"):
                    c.next()
                    ty = parse_type(c)
                c.expect("=")
                e = self.parse_expr()
                if c.at("else"):
                    self.fail("let-else not supported")
                c.expect(";")
                stmts.append(("let", t.line, pat, ty, e, mut))
                continue
            if c.peek().kind == "id" and c.peek().text in ("fn", "struct", "enum", "impl", "use", "const", "static", "loop", "for", "unsafe"):
                self.fail(f"`{c.peek().text}` inside a body is not supported")
            e = self.parse_expr(stmt=True)
            if c.at("=") or (c.peek() and c.peek().kind == "p" and c.peek().text in ("+=", "-=", "*=", "/=", "%=")):
                op = c.next()
                rhs = self.parse_expr()
                c.expect(";")
                stmts.append(("assign", op.line, op.text, e, rhs))
            elif c.at(";"):
                c.next()
                stmts.append(("expr", e[1], e))
            elif c.eof():
                tail = e
            elif e[0] in ("if", "match", "block", "while"):
                stmts.append(("expr", e[1], e))     # block-like expression statement needs no `;`
            else:
                self.fail(f"expected `;` or end of block after expression, found `{c.peek().text}`")
        return stmts, tail

    def parse_braced_block(self):
        c = self.c
        t = c.peek()
        s, e = c.skip_balanced("{", "}")
        sub = BodyParser(c.t, s, e, self.where)
        stmts, tail = sub.parse_block_body()
        return ("block", t.line, stmts, tail)

    # ---- patterns
    def parse_pattern(self):
        c = self.c
        first = self.parse_pattern1()
        if c.at("|"):
            alts = [first]
            while c.at("|"):
                c.next()
                alts.append(self.parse_pattern1())
            return ("por", first[1], alts)
        return first

    def parse_pattern1(self):
        c = self.c
        t = c.peek()
        if t is None:
            self.fail("pattern expected")
        if c.at("("):
            c.next()
            items = []
            while not c.at(")"):
                items.append(self.parse_pattern())
                if c.at(","):
                    c.next()
                elif not c.at(")"):
                    self.fail("`,` or `)` expected in tuple pattern")
            c.next()
            if len(items) == 1:
                return items[0]
            return ("ptuple", t.line, items)
        if t.kind == "int" or c.at("-"):
            self.fail("literal patterns not supported")
        if c.at("&") or c.at("ref") or c.at("mut") or c.at("box"):
            self.fail(f"`{t.text}` pattern not supported")
        if t.kind != "id":
            self.fail(f"pattern not supported at `{t.text}`")
        segs = [c.ident()]
        while c.at("::"):
            c.next()
            segs.append(c.ident())
        if c.at("("):
            c.next()
            args = []
            while not c.at(")"):
                args.append(self.parse_pattern())
                if c.at(","):
                    c.next()
            c.next()
            return ("pctor", t.line, segs, args)
        if c.at("{"):
            self.fail("struct patterns not supported")
        if c.at("@"):
            self.fail("`@` patterns not supported")
        if len(segs) == 1:
            if segs[0] == "_":
                return ("pwild", t.line)
            if segs[0] == "None":
                return ("pctor", t.line, segs, [])
            if segs[0][0].isupper():
                return ("ppath", t.line, segs)
            return ("pbind", t.line, segs[0])
        return ("ppath", t.line, segs)

    # ---- expressions (precedence climbing)
    def parse_expr(self, stmt=False, nostruct=False):
        c = self.c
        t = c.peek()
        if t is None:
            self.fail("expression expected")
        if c.at("return"):
            c.next()
            if c.at(";") or c.eof() or c.at("}") or c.at(","):
                return ("return", t.line, None)
            return ("return", t.line, self.parse_expr(nostruct=nostruct))
        if c.at("break") or c.at("continue"):
            self.fail(f"`{t.text}` not supported")
        if c.at("|") or c.at("||") or c.at("move"):
            return self.parse_closure()
        if stmt and c.at("while"):
            return self.parse_primary(nostruct)
        if stmt and (c.at("if") or c.at("match") or c.at("{")):
            # a block-like expression at the start of a statement is a whole statement
            e = self.parse_primary(nostruct)
            if c.at(".") or c.at("?"):
                e = self.parse_postfix_from(e, nostruct)
                return self.parse_binary_from(e, 0, nostruct)
            return e
        return self.parse_range(nostruct)

    def parse_closure(self):
        c = self.c
        t = c.next()
        if t.text == "move":
            t = c.next()
        params = []
        if t.text == "|":
            while not c.at("|"):
                p = self.parse_pattern1()
                if p[0] != "pbind":
                    self.fail("closure parameter must be a plain name")
                if c.at(":"):
                    self.fail("closure parameter type annotations not supported")
                params.append(p[2])
                if c.at(","):
                    c.next()
            c.next()
        body = self.parse_expr()
        return ("closure", t.line, params, body)

    def parse_range(self, nostruct):
        c = self.c
        if c.at("..") or c.at("..="):
            self.fail("range without a start not supported")
        lhs = self.parse_binary(0, nostruct)
        if c.at("..") or c.at("..="):
            op = c.next()
            if c.eof() or c.at(")") or c.at(",") or c.at(";") or c.at("]") or c.at("{"):
                self.fail("range without an end not supported", op)
            rhs = self.parse_binary(0, nostruct)
            return ("range", op.line, op.text == "..=", lhs, rhs)
        return lhs

    LEVELS = [("||",), ("&&",), CMP_OPS, ("|",), ("^",), ("&",), ("<<", ">>"), ("+", "-"), ("*", "/", "%")]

    def parse_binary(self, level, nostruct):
        lhs = self.parse_unary(nostruct) if level == len(self.LEVELS) else None
        if lhs is not None:
            return lhs
        lhs = self.parse_binary(level + 1, nostruct)
        return self.parse_binary_tail(lhs, level, nostruct)

    def parse_binary_tail(self, lhs, level, nostruct):
        c = self.c
        ops = self.LEVELS[level]
        while c.peek() is not None and c.peek().kind == "p" and c.peek().text in ops:
            op = c.peek()
            if op.text in ("|", "^", "&", "<<", ">>", "%"):
                self.fail(f"operator `{op.text}` not supported")
            # `<` `<` / `>` `>` would be shifts
            c.next()
            rhs = self.parse_binary(level + 1, nostruct)
            if op.text in CMP_OPS and c.peek() is not None and c.peek().kind == "p" and c.peek().text in CMP_OPS:
                self.fail("chained comparison")
            lhs = ("bin", op.line, op.text, lhs, rhs)
        return lhs

    def parse_binary_from(self, lhs, level, nostruct):
        """continue a binary expression whose leftmost operand has been parsed already."""
        for lv in range(len(self.LEVELS) - 1, level - 1, -1):
            lhs = self.parse_binary_tail(lhs, lv, nostruct)
        return lhs

    def parse_unary(self, nostruct):
        """operand of a binary operator: unary-expression followed by any number of `as T`
        (`as` binds weaker than the unary operators: `-x as u32` is `(-x) as u32`)."""
        c = self.c
        e = self.parse_prefix(nostruct)
        while c.at("as"):
            a = c.next()
            e = ("cast", a.line, e, parse_type(c))
        return e

    def parse_prefix(self, nostruct):
        c = self.c
        t = c.peek()
        if t is None:
            self.fail("expression expected")
        if c.at("-"):
            c.next()
            return ("neg", t.line, self.parse_prefix(nostruct))
        if c.at("!"):
            c.next()
            return ("not", t.line, self.parse_prefix(nostruct))
        if c.at("*"):
            c.next()
            return ("deref", t.line, self.parse_prefix(nostruct))
        if c.at("&"):
            c.next()
            if c.at("mut"):
                self.fail("`&mut` expression not supported")
            return ("ref", t.line, self.parse_prefix(nostruct))
        if c.at("&&"):
            self.fail("`&&` reference not supported")
        return self.parse_postfix_from(self.parse_primary(nostruct), nostruct)

    def parse_args(self):
        c = self.c
        s, e = c.skip_balanced("(", ")")
        sub = BodyParser(c.t, s, e, self.where)
        args = []
        while not sub.c.eof():
            args.append(sub.parse_expr())
            if sub.c.at(","):
                sub.c.next()
            elif not sub.c.eof():
                sub.fail("`,` expected between arguments")
        return args

    def parse_postfix_from(self, e, nostruct):
        c = self.c
        while True:
            if c.at("?"):
                self.fail("`?` not supported")
            if c.at("["):
                self.fail("indexing not supported")
            if c.at("("):
                t = c.peek()
                e = ("callexpr", t.line, e, self.parse_args())
                continue
            if c.at("."):
                if c.peek(1) is not None and c.peek(1).kind == "int":
                    self.fail("tuple field access not supported")
                if c.at("await", 1):
                    self.fail("await")
                d = c.next()
                name = c.ident()
                turbofish = None
                if c.at("::"):
                    c.next()
                    c.expect("<")
                    turbofish = parse_type(c)
                    c.expect(">")
                if c.at("("):
                    e = ("mcall", d.line, e, name, turbofish, self.parse_args())
                else:
                    if turbofish is not None:
                        self.fail("turbofish without a call")
                    e = ("field", d.line, e, name)
                continue
            return e

    def parse_primary(self, nostruct):
        c = self.c
        t = c.peek()
        if t.kind == "int":
            c.next()
            m = re.fullmatch(r"([0-9][0-9_]*)(i32|u32)?", t.text)
            if not m:
                self.fail(f"integer literal `{t.text}` not supported (only decimal, optional i32/u32 suffix)", t)
            return ("int", t.line, int(m.group(1).replace("_", "")), m.group(2))
        if t.kind in ("str", "char"):
            c.next()
            return ("str", t.line, t.text)
        if t.kind == "life":
            self.fail("labels not supported")
        if c.at("("):
            s, e = c.skip_balanced("(", ")")
            sub = BodyParser(c.t, s, e, self.where)
            items, trailing = [], False
            while not sub.c.eof():
                items.append(sub.parse_expr())
                trailing = False
                if sub.c.at(","):
                    sub.c.next()
                    trailing = True
                elif not sub.c.eof():
                    sub.fail("`,` expected in tuple")
            if not items:
                return ("unit", t.line)
            if len(items) == 1 and not trailing:
                return ("paren", t.line, items[0])
            return ("tuple", t.line, items)
        if c.at("{"):
            return self.parse_braced_block()
        if c.at("if"):
            c.next()
            if c.at("let"):
                # `if let P = E { A } else { B }` IS `match E { P => { A }, _ => { B } }` (`_ => ()` without else)
                c.next()
                pat = self.parse_pattern()
                c.expect("=")
                scrut = self.parse_expr(nostruct=True)
                if c.at("&&") or c.at("||"):
                    self.fail("let chains not supported")
                then = self.parse_braced_block()
                els = ("unit", t.line)
                if c.at("else"):
                    c.next()
                    if c.at("if"):
                        els_e = self.parse_primary(nostruct)
                        els = ("block", els_e[1], [], els_e)
                    else:
                        els = self.parse_braced_block()
                return ("match", t.line, scrut, [(pat, then), (("pwild", t.line), els)])
            cond = self.parse_expr(nostruct=True)
            then = self.parse_braced_block()
            els = None
            if c.at("else"):
                c.next()
                if c.at("if"):
                    els_e = self.parse_primary(nostruct)
                    els = ("block", els_e[1], [], els_e)
                else:
                    els = self.parse_braced_block()
            return ("if", t.line, cond, then, els)
        if c.at("while"):
            c.next()
            if c.at("let"):
                self.fail("`while let` not supported")
            cond = self.parse_expr(nostruct=True)
            body = self.parse_braced_block()
            return ("while", t.line, cond, body)
        if c.at("match"):
            c.next()
            scrut = self.parse_expr(nostruct=True)
            s, e = c.skip_balanced("{", "}")
            sub = BodyParser(c.t, s, e, self.where)
            arms = []
            while not sub.c.eof():
                if sub.c.at("|"):
                    sub.c.next()
                pat = sub.parse_pattern()
                if sub.c.at("if"):
                    sub.fail("match guards not supported")
                sub.c.expect("=>")
                body = sub.parse_expr(stmt=True)
                if sub.c.at(","):
                    sub.c.next()
                elif not sub.c.eof() and body[0] != "block":
                    sub.fail("`,` expected after match arm")
                arms.append((pat, body))
            return ("match", t.line, scrut, arms)
        if t.kind == "id":
            if t.text in ("loop", "for", "unsafe", "async", "let", "mut", "ref", "static", "const", "dyn", "impl", "fn", "where", "in"):
                self.fail(f"`{t.text}` not supported")
            segs = [c.ident()]
            while c.at("::"):
                c.next()
                if c.at("<"):
                    self.fail("generic arguments in a path not supported")
                segs.append(c.ident())
            if c.at("!"):
                c.next()
                if segs != ["debug_assert"]:
                    self.fail(f"macro `{'::'.join(segs)}!` not supported", t)
                args = self.parse_args()
                return ("debug_assert", t.line, args)
            if c.at("{") and not nostruct and segs[-1][0].isupper():
                s, e = c.skip_balanced("{", "}")
                sub = BodyParser(c.t, s, e, self.where)
                fields, base = [], None
                while not sub.c.eof():
                    if sub.c.at(".."):
                        sub.c.next()
                        base = sub.parse_expr()
                        if not sub.c.eof():
                            sub.fail("tokens after the struct base")
                        break
                    fname = sub.c.ident()
                    if sub.c.at(":"):
                        sub.c.next()
                        fe = sub.parse_expr()
                    else:
                        fe = ("path", t.line, [fname])
                    fields.append((fname, fe))
                    if sub.c.at(","):
                        sub.c.next()
                    elif not sub.c.eof():
                        sub.fail("`,` expected in struct literal")
                return ("struct", t.line, segs, fields, base)
            return ("path", t.line, segs)
        self.fail(f"unexpected token `{t.text}`")


# ---------------------------------------------------------------------------------------------------------------
# translation to Lean
# ---------------------------------------------------------------------------------------------------------------

LEAN_KEYWORDS = {"by", "at", "from", "in", "end", "open", "fun", "do", "then", "else", "if", "let", "have", "show", "with",
                 "match", "where", "at", "def", "theorem", "structure", "namespace", "section", "variable", "instance",
                 "class", "import", "export", "private", "protected", "mutual", "universe", "deriving", "using",
                 "calc", "nomatch", "return", "for", "unless", "try", "catch", "finally", "mut", "type", "Type", "Prop",
                 "Sort", "forall", "exists", "macro", "syntax", "notation", "infix", "prefix", "postfix", "local",
                 "set_option", "attribute", "example", "axiom", "opaque", "abbrev", "inductive", "extends", "this",
                 "max", "min", "some", "none", "true", "false", "id"}

LEAN_TYPES = {"i32": "Int", "u32": "Nat", "bool": "Bool", "unit": "Unit"}

# (receiver type, method) -> (prelude function, parameter types, result type)
PRIM_METHODS = {
    ("i32", "min"): ("i32_min", ["i32"], "i32"),
    ("i32", "max"): ("i32_max", ["i32"], "i32"),
    ("i32", "abs"): ("i32_abs", [], "i32"),
    ("i32", "unsigned_abs"): ("i32_unsigned_abs", [], "u32"),
    ("i32", "saturating_add"): ("i32_saturating_add", ["i32"], "i32"),
    ("i32", "saturating_sub"): ("i32_saturating_sub", ["i32"], "i32"),
    ("u32", "min"): ("u32_min", ["u32"], "u32"),
    ("u32", "max"): ("u32_max", ["u32"], "u32"),
    ("u32", "saturating_add"): ("u32_saturating_add", ["u32"], "u32"),
    ("u32", "saturating_sub"): ("u32_saturating_sub", ["u32"], "u32"),
    (("RangeInclusive", ("i32",)), "contains"): ("rangeinclusive_i32_contains", ["i32"], "bool"),
    (("RangeInclusive", ("i32",)), "start"): ("rangeinclusive_i32_start", [], "i32"),
    (("RangeInclusive", ("i32",)), "end"): ("rangeinclusive_i32_end", [], "i32"),
    (("Range", ("i32",)), "is_empty"): ("range_i32_is_empty", [], "bool"),
}
# methods of built-in types that MUTATE their receiver: the prelude function returns (value, updated receiver)
MUT_PRIM_METHODS = {
    (("Range", ("i32",)), "next"): ("range_i32_next", [], ("Option", ("i32",))),
}
RANGE_I32 = ("Range", ("i32",))
BUILTIN_STRUCTS = {RANGE_I32: ("RangeI32", [("start", "i32"), ("end", "i32")])}
BIN_ARITH = {"+": "add", "-": "sub", "*": "mul", "/": "div"}
BIN_CMP = {"==": "eq", "!=": "ne", "<": "lt", ">": "gt", "<=": "le", ">=": "ge"}
OP_TRAIT = {"+": ("Add", "add"), "-": ("Sub", "sub"), "*": ("Mul", "mul"), "/": ("Div", "div")}

PRELUDE_NAMES = {v[0] for v in PRIM_METHODS.values()} | {"range_i32_next", "while_loop", "LoopStep", "fuel",
    "RangeI32_start", "RangeI32_end", "RangeI32_set_start", "RangeI32_set_end"} | {
    f"{t}_{o}" for t in ("i32", "u32") for o in list(BIN_ARITH.values()) + list(BIN_CMP.values())} | {
    "i32_neg", "bool_and", "bool_or", "bool_not", "bool_eq", "bool_ne", "u32_saturating_as_i32", "u32_as_i32", "i32_as_u32",
    "range_i32_new", "rangeinclusive_i32_new", "option_is_some_and", "debug_assert", "Point", "Size", "Rectangle",
    "RangeI32", "RangeInclusiveI32"} | {
    f"{t}_{p}{f}" for t, fs in (("Point", ("x", "y")), ("Size", ("width", "height")), ("Rectangle", ("top_left", "size")))
    for f in fs for p in ("", "set_")} | {"Point_mk", "Size_mk", "Rectangle_mk", "RectSrc"}


class Translator:
    def __init__(self, prog):
        self.prog = prog
        self.done = {}        # fn key -> lean name
        self.in_progress = []
        self.out = []         # lean text of defs in dependency order
        self.listing = []     # (lean name, rust description)
        self.loopy_fns = set()

    # ---- names
    def lean_fn_name(self, f):
        if f.impl_type is None:
            return f.name
        if f.trait is None:
            return f.name if f.impl_type == "Rectangle" else f"{f.impl_type}_{f.name}"
        tr = f.trait
        m = re.fullmatch(r"(\w+)(?:<(\w+)>)?", tr)
        if not m:
            raise RectTrError(f"trait name `{tr}` not understood")
        if m.group(1) in OP_TRAIT_NAMES:
            rhs = m.group(2) or f.impl_type
            return f"{f.impl_type}_op_{f.name}_{rhs}" if m.group(1) != "Neg" else f"{f.impl_type}_op_{f.name}"
        return f"{m.group(1)}_{f.name}"

    def lvar(self, name):
        if name in LEAN_KEYWORDS or name in PRELUDE_NAMES:
            return name + "_"
        return name

    def lean_type(self, t, self_type=None):
        if t == "Self":
            t = self_type
        if isinstance(t, str):
            if t in LEAN_TYPES:
                return LEAN_TYPES[t]
            if t in self.prog.structs:
                if t not in EXPECTED_STRUCTS and t not in GENERATED_STRUCTS:
                    raise RectTrError(f"struct {t} has no counterpart in the prelude and is not generated")
                return t
            if t in self.prog.enums:
                return t
            raise RectTrError(f"type `{t}` not supported")
        if t[0] == "Option" and len(t[1]) == 1:
            return f"(Option {self.lean_type(t[1][0], self_type)})"
        if t == ("Range", ("i32",)):
            return "RangeI32"
        if t == ("RangeInclusive", ("i32",)):
            return "RangeInclusiveI32"
        if t[0] == "tuple":
            return "(" + " × ".join(self.lean_type(x, self_type) for x in t[1]) + ")"
        raise RectTrError(f"type `{type_str(t)}` not supported")

    def norm_type(self, t, self_type):
        if t == "Self":
            if self_type is None:
                raise RectTrError("`Self` outside an impl")
            return self_type
        if isinstance(t, str):
            return t
        if t[0] == "refmut":
            return ("refmut", self.norm_type(t[1], self_type))
        if t[0] == "tuple":
            return ("tuple", tuple(self.norm_type(x, self_type) for x in t[1]))
        return (t[0], tuple(self.norm_type(x, self_type) for x in t[1]))

    # ---- function lookup
    def find_fn(self, impl_type, trait, name, where):
        k = (impl_type, trait, name)
        f = self.prog.fns.get(k)
        if f is None:
            raise RectTrError(f"{where}: function {impl_type or ''}{'::' if impl_type else ''}{name}"
                              f"{' of trait ' + trait if trait else ''} not found in the parsed sources")
        return f

    def find_method(self, ty, name, where):
        """inherent method first, then a unique trait method of that name."""
        f = self.prog.fns.get((ty, None, name))
        if f is not None:
            return f
        cands = [g for (it, tr, n), g in self.prog.fns.items() if it == ty and n == name and tr is not None]
        if len(cands) == 1:
            return cands[0]
        if not cands:
            raise RectTrError(f"{where}: method `{name}` of {ty} not found in the parsed sources")
        raise RectTrError(f"{where}: method `{name}` of {ty} is ambiguous between traits {[g.trait for g in cands]}")

    def need(self, f):
        """translate `f` (once) and return its Lean name."""
        k = f.key()
        if k in self.done:
            return self.done[k]
        if k in self.in_progress:
            raise RectTrError(f"recursive function {k} not supported")
        if getattr(f, "unsupported", None):
            raise RectTrError(f"{f.rel}:{f.line}: fn {f.name}: {f.unsupported}")
        if f.body is None:
            raise RectTrError(f"{f.rel}:{f.line}: fn {f.name} has no body")
        self.in_progress.append(k)
        text = self.translate_fn(f)
        self.in_progress.pop()
        name = self.lean_fn_name(f)
        if name in self.done.values():
            raise RectTrError(f"two functions translate to the Lean name {name}")
        self.done[k] = name
        self.out.append(text)
        desc = (f"{f.impl_type}::" if f.impl_type else "") + f.name + (f" (impl {f.trait} for {f.impl_type})" if f.trait else "")
        self.listing.append((name, f"{f.rel}:{f.line} {desc}"))
        return name

    # ---- functions
    def translate_fn(self, f):
        where = f"{f.rel} fn {(f.impl_type + '::') if f.impl_type else ''}{f.name}"
        self.where = where
        st = f.impl_type
        # `%tail`: the position is a tail position of the function (a `return` there is the function's value);
        # `%frozen`: variables that must not be assigned (we are inside a value-position block: the rebinding
        # would be lost when the block ends)
        env = {"%tail": True, "%frozen": frozenset()}
        params = []
        if f.self_kind is not None:
            if st is None:
                raise RectTrError(f"{where}: self outside an impl")
            env["self"] = st
            params.append(("self", st))
        for (n, t) in f.params:
            t = self.norm_type(t, st)
            if not isinstance(t, str) and t[0] == "refmut":
                raise RectTrError(f"{where}: `&mut` parameter {n} not supported")
            env[n] = t
            params.append((n, t))
        ret = self.norm_type(f.ret, st)
        toks, s, e = f.body
        stmts, tail = BodyParser(toks, s, e, where).parse_block_body()
        mut_self = f.self_kind == "refmut"
        loopy = contains_kind((stmts, tail), "while")
        if loopy and not mut_self:
            raise RectTrError(f"{where}: `while` loop in a function without `&mut self` (the loop state must be `self`): not supported")
        # kind of the Lean result: plain value / updated self / (value, updated self); Option-wrapped when the function
        # contains a loop (the loop runs on explicit fuel; `none` = the fuel did not suffice)
        kind = "plain" if not mut_self else ("mut_unit" if ret == "unit" else "mut_val")
        ctx = {"ret": ret, "self_type": st, "mut_self": mut_self, "kind": kind, "loopy": loopy, "in_loop": False}
        if kind == "plain":
            body, bt = self.tr_stmts(stmts, 0, tail, env, ctx, ret, None, 2)
            self.unify(bt, ret, where + ": result")
            lres = self.lean_type(ret)
        else:
            # the tail expression is the returned value: `e` at the end is `return e`
            if tail is not None:
                stmts = stmts + [("expr", tail[1], ("return", tail[1], tail))]
                tail = None
            def final(env2, ind2=2, ctx=ctx, where=where):
                if ret != "unit":
                    raise RectTrError(f"{where}: the end of the body is reached without a value")
                return self.wrap_result(None, ctx), "never"
            body, bt = self.tr_stmts(stmts, 0, tail, env, ctx, None, final, 2)
            lres = self.result_lean_type(ctx)
            if loopy:
                lres = f"(Option {lres})"
                params = [("fuel", "usize")] + params
                self.loopy_fns.add(f.key())
        name = self.lean_fn_name(f)
        ps = " ".join(f"({self.lvar(n) if n != 'fuel' else 'fuel'} : {self.lean_type(t) if t != 'usize' else 'Nat'})" for (n, t) in params)
        sig_src = " ".join(x.text for x in toks[max(0, s - 1):s])  # unused, kept simple
        head = f"/-- `{f.rel}` line {f.line}: `{'impl ' + f.trait + ' for ' + st + ' :: ' if f.trait else (st + '::' if st else '')}{f.name}`" \
               + (" (`&mut self`: returns the updated `self`)" if kind == "mut_unit" else "") \
               + (" (`&mut self`: returns (value, updated `self`))" if kind == "mut_val" else "") \
               + (" (contains a loop: runs on `fuel`, `none` = not enough fuel)" if loopy else "") + " -/\n"
        return f"{head}def {name}{' ' if ps else ''}{ps} : {lres} :=\n  {body}\n"

    def result_lean_type(self, ctx):
        st = ctx["self_type"]
        if ctx["kind"] == "mut_unit":
            return self.lean_type(st)
        if ctx["kind"] == "mut_val":
            return f"({self.lean_type(ctx['ret'])} × {self.lean_type(st)})"
        return self.lean_type(ctx["ret"])

    def wrap_result(self, val, ctx):
        """the Lean text for `the function returns val now` (val None: unit)"""
        kind = ctx["kind"]
        if kind == "plain":
            base = val
        elif kind == "mut_unit":
            base = "self"
        else:
            base = f"({val}, self)"
        if ctx["in_loop"]:
            return f"(LoopStep.return_ {self.atom(base)})"
        if ctx["loopy"]:
            return f"(Option.some {self.atom(base)})"
        return base

    @staticmethod
    def nt(env):
        """the same environment, for a sub-expression that is not in tail position"""
        if env.get("%tail"):
            env = dict(env)
            env["%tail"] = False
        return env

    @staticmethod
    def freeze(env):
        env = dict(env)
        env["%frozen"] = frozenset(k for k in env if not k.startswith("%"))
        return env

    def check_assignable(self, root, env, line):
        if root in env["%frozen"]:
            raise RectTrError(f"{self.where}: line {line}: `{root}` is modified inside a block used as a value; "
                              f"the translator would lose the update (not supported)")

    def unify(self, got, want, where):
        if want is None or got == want:
            return got
        if got == "int?" and want in ("i32", "u32"):
            return want
        if got == "never":
            return want
        raise RectTrError(f"{where}: type mismatch, expected {type_str(want)} but the expression has type {type_str(got)}")

    # ---- statements. `final`: continuation (env -> (text, type)) run after the block completes normally (then the
    #      block's own value must be unit); None when the block's tail expression is the value.
    def tr_stmts(self, stmts, i, tail, env, ctx, expected, final, ind):
        pad = " " * ind
        if i == len(stmts):
            if final is None:
                if tail is None:
                    return "()", "unit"
                return self.tr_expr(tail, env, ctx, expected, ind)
            if tail is None or tail[0] == "unit":
                return final(env, ind)
            # a tail expression in a block that is followed by more code: treat as a statement
            return self.tr_stmts([("expr", tail[1], tail)], 0, None, env, ctx, expected, final, ind)
        s = stmts[i]
        rest = lambda env2, ind2=ind: self.tr_stmts(stmts, i + 1, tail, env2, ctx, expected, final, ind2)
        kind = s[0]
        if kind == "let":
            _, line, pat, ty, e, mut = s
            if pat[0] != "pbind":
                raise RectTrError(f"{self.where}: line {line}: only `let name = ..` is supported")
            want = self.norm_type(ty, ctx["self_type"]) if ty is not None else None
            mc = self.mut_call(e, env, ctx, line, ind)
            if mc is not None:
                root, fields, rtype, call, vt = mc
                if vt is None:
                    raise RectTrError(f"{self.where}: line {line}: `let` bound to a call that returns ()")
                self.check_assignable(root, env, line)
                self.unify(vt, want, f"{self.where}: line {line}")
                env2 = dict(env)
                env2[pat[2]] = vt
                env2["%frozen"] = env["%frozen"] - {pat[2]}
                new = self.place_write(self.lvar(root), rtype, fields, "tmp'.2", line)
                r, rt = rest(env2)
                return (f"let tmp' := {call};\n{pad}let {self.lvar(pat[2])} := tmp'.1;\n"
                        f"{pad}let {self.lvar(root)} := {new};\n{pad}{r}"), rt
            txt, t = self.tr_expr(e, self.nt(env), ctx, want, ind + 2)
            if t == "int?":
                raise RectTrError(f"{self.where}: line {line}: cannot tell the type of the integer literal bound to `{pat[2]}`")
            t = self.unify(t, want, f"{self.where}: line {line}")
            env2 = dict(env)
            env2[pat[2]] = t
            env2["%frozen"] = env["%frozen"] - {pat[2]}
            r, rt = rest(env2)
            return f"let {self.lvar(pat[2])} := {txt};\n{pad}{r}", rt
        if kind == "assign":
            _, line, op, lhs, rhs = s
            root, fields = self.place(lhs, env, line)
            self.check_assignable(root, env, line)
            rtype = env[root]
            # type of the place
            pt = rtype
            for fl in fields:
                pt = self.field_type(pt, fl, line)
            if op == "=":
                val, vt = self.tr_expr(rhs, self.nt(env), ctx, pt, ind + 2)
                self.unify(vt, pt, f"{self.where}: line {line}")
            else:
                if pt not in ("i32", "u32"):
                    raise RectTrError(f"{self.where}: line {line}: `{op}` on {type_str(pt)} not supported")
                cur = self.place_read(root, fields, rtype)
                rv, vt = self.tr_expr(rhs, self.nt(env), ctx, pt, ind + 2)
                self.unify(vt, pt, f"{self.where}: line {line}")
                val = f"({pt}_{BIN_ARITH[op[0]]} {cur} {rv})"
            new = self.place_write(self.lvar(root), rtype, fields, val, line)
            r, rt = rest(env)
            return f"let {self.lvar(root)} := {new};\n{pad}{r}", rt
        if kind == "expr":
            e = s[2]
            line = e[1]
            if e[0] == "return":
                if i + 1 < len(stmts) or tail is not None:
                    raise RectTrError(f"{self.where}: line {line}: code after `return`")
                return self.tr_return(e, env, ctx, ind)
            if e[0] == "debug_assert":
                args = e[2]
                if not (1 <= len(args) <= 2) or (len(args) == 2 and args[1][0] != "str"):
                    raise RectTrError(f"{self.where}: line {line}: debug_assert!(cond, \"message\") expected")
                cnd, ctyp = self.tr_expr(args[0], self.nt(env), ctx, "bool", ind + 2)
                self.unify(ctyp, "bool", f"{self.where}: line {line}")
                r, rt = rest(env)
                return f"debug_assert {cnd} (\n{pad}{r})", rt
            mc = self.mut_call(e, env, ctx, line, ind)
            if mc is not None:
                root, fields, rtype, call, vt = mc
                self.check_assignable(root, env, line)
                # the call's value (if any) is dropped, as in the Rust statement `place.m(..);`
                new = self.place_write(self.lvar(root), rtype, fields, call if vt is None else f"{call}.2", line)
                r, rt = rest(env)
                return f"let {self.lvar(root)} := {new};\n{pad}{r}", rt
            if e[0] == "while":
                return self.tr_while(e, env, ctx, rest, ind)
            if e[0] == "if":
                _, _, cond, then, els = e
                cnd, ctyp = self.tr_expr(cond, self.nt(env), ctx, "bool", ind + 2)
                self.unify(ctyp, "bool", f"{self.where}: line {line}")
                a, at = self.tr_stmts(then[2], 0, then[3], env, ctx, expected, rest, ind + 2)
                if els is None:
                    b, bt = rest(env, ind + 2)
                else:
                    b, bt = self.tr_stmts(els[2], 0, els[3], env, ctx, expected, rest, ind + 2)
                t = self.join(at, bt, line)
                return f"if {cnd} then\n{pad}  {a}\n{pad}else\n{pad}  {b}", t
            if e[0] == "match":
                return self.tr_match(e, env, ctx, expected, rest, ind)
            if e[0] == "block":
                return self.tr_stmts(e[2], 0, e[3], env, ctx, expected, rest, ind)
            raise RectTrError(f"{self.where}: line {line}: expression statement of kind `{e[0]}` has no translation (its value would be dropped)")
        raise RectTrError(f"{self.where}: statement kind {kind}")

    def join(self, a, b, line):
        if a == "never":
            return b
        if b == "never":
            return a
        if a == "int?" and b in ("i32", "u32"):
            return b
        if b == "int?" and a in ("i32", "u32"):
            return a
        if a != b:
            raise RectTrError(f"{self.where}: line {line}: branches have different types {type_str(a)} / {type_str(b)}")
        return a

    def tr_return(self, e, env, ctx, ind):
        if not env.get("%tail"):
            raise RectTrError(f"{self.where}: line {e[1]}: `return` inside an expression whose value is used "
                              f"(not a tail position of the function): not supported")
        if e[2] is None:
            if ctx["ret"] != "unit":
                raise RectTrError(f"{self.where}: line {e[1]}: bare `return` in a function returning {type_str(ctx['ret'])}")
            if ctx["kind"] == "plain":
                raise RectTrError(f"{self.where}: line {e[1]}: bare `return` not supported here")
            return self.wrap_result(None, ctx), "never"
        txt, t = self.tr_expr(e[2], env if ctx["kind"] == "plain" else self.nt(env), ctx, ctx["ret"], ind)
        self.unify(t, ctx["ret"], f"{self.where}: line {e[1]}: returned value")
        if ctx["kind"] == "mut_unit":
            raise RectTrError(f"{self.where}: line {e[1]}: `return value` in a `&mut self` function returning ()")
        return self.wrap_result(txt, ctx), "never"

    # ---- places (assignment targets)
    def place(self, e, env, line):
        fields = []
        while e[0] == "field":
            fields.append(e[3])
            e = e[2]
        if e[0] != "path" or len(e[2]) != 1 or e[2][0] not in env:
            raise RectTrError(f"{self.where}: line {line}: assignment target must be `var.field...`")
        return e[2][0], list(reversed(fields))

    def sname(self, t):
        """the prefix of the accessor functions `<prefix>_<field>` / `<prefix>_set_<field>` / `<prefix>_mk`"""
        if not isinstance(t, str):
            if t in BUILTIN_STRUCTS:
                return BUILTIN_STRUCTS[t][0]
            raise RectTrError(f"{self.where}: {type_str(t)} is not a struct")
        return t

    def field_type(self, t, fl, line):
        if not isinstance(t, str) and t in BUILTIN_STRUCTS:
            for (n, ft) in BUILTIN_STRUCTS[t][1]:
                if n == fl:
                    return ft
            raise RectTrError(f"{self.where}: line {line}: {type_str(t)} has no field `{fl}`")
        if not isinstance(t, str) or t not in self.prog.structs:
            raise RectTrError(f"{self.where}: line {line}: field `{fl}` of non-struct type {type_str(t)}")
        for (n, ft) in self.prog.structs[t]:
            if n == fl:
                return self.norm_type(ft, t)
        raise RectTrError(f"{self.where}: line {line}: struct {t} has no field `{fl}`")

    def place_read(self, root, fields, rtype):
        txt, t = self.lvar(root), rtype
        for fl in fields:
            txt = f"({self.sname(t)}_{fl} {txt})"
            t = self.field_type(t, fl, 0)
        return txt

    def place_write(self, cur, t, fields, val, line):
        if not fields:
            return val
        fl = fields[0]
        ft = self.field_type(t, fl, line)
        inner = self.place_write(f"({self.sname(t)}_{fl} {cur})", ft, fields[1:], val, line)
        return f"({self.sname(t)}_set_{fl} {cur} {inner})"

    # ---- calls that mutate their receiver: `PLACE.m(args)` with m a `&mut self` method (user or built-in)
    def mut_call(self, e, env, ctx, line, ind):
        """None, or (root variable, fields, root type, Lean text of the call, value type or None for unit):
        the call's Lean value is the updated receiver (unit methods) or (value, updated receiver)."""
        if e[0] != "mcall":
            return None
        r = e[2]
        flds = []
        while r[0] == "field":
            flds.append(r[3])
            r = r[2]
        if r[0] != "path" or len(r[2]) != 1 or r[2][0] not in env or r[2][0].startswith("%"):
            return None
        root, fields = r[2][0], list(reversed(flds))
        rtype = env[root]
        t = rtype
        for fl in fields:
            t = self.field_type(t, fl, line)
        name, args = e[3], e[5]
        recv = self.place_read(root, fields, rtype)
        if (t, name) in MUT_PRIM_METHODS:
            fn, ptypes, ret = MUT_PRIM_METHODS[(t, name)]
            if e[4] is not None or len(args) != len(ptypes):
                raise RectTrError(f"{self.where}: line {line}: `{name}` takes {len(ptypes)} argument(s) and no turbofish")
            out = []
            for a, pt in zip(args, ptypes):
                txt, at = self.tr_expr(a, self.nt(env), ctx, pt, ind)
                self.unify(at, pt, f"{self.where}: line {line}")
                out.append(self.atom(txt))
            return root, fields, rtype, f"({fn} {recv}{''.join(' ' + x for x in out)})", ret
        if isinstance(t, str) and t in self.prog.structs:
            g = self.find_method(t, name, f"{self.where}: line {line}")
            if g.self_kind != "refmut":
                return None
            where = self.where
            gname = self.need(g)
            self.where = where
            if g.key() in self.loopy_fns:
                raise RectTrError(f"{self.where}: line {line}: call of `{g.name}`, which contains a loop: not supported")
            a = self.tr_args(args, g, env, ctx, line, ind)
            ret = self.norm_type(g.ret, g.impl_type)
            return root, fields, rtype, f"(RectSrc.{gname} {recv}{''.join(' ' + x for x in a)})", (None if ret == "unit" else ret)
        return None

    def tr_while(self, e, env, ctx, rest, ind):
        _, line, cond, body = e
        W = f"{self.where}: line {line}"
        pad = " " * ind
        if ctx["in_loop"]:
            raise RectTrError(f"{W}: nested `while` loops not supported")
        if not env.get("%tail") or not ctx["loopy"] or not ctx["mut_self"]:
            raise RectTrError(f"{W}: `while` is only supported as a statement of a `&mut self` function (loop state = `self`)")
        self.check_assignable("self", env, line)
        cnd, ct = self.tr_expr(cond, self.nt(env), ctx, "bool", ind + 4)
        self.unify(ct, "bool", W)
        ctx2 = dict(ctx, in_loop=True)
        envb = dict(env)
        envb["%frozen"] = frozenset(k for k in env if not k.startswith("%") and k != "self")
        btxt, _ = self.tr_stmts(body[2], 0, body[3], envb, ctx2, None,
                                lambda env2, ind2=0: ("(LoopStep.continue_ self)", "never"), ind + 4)
        rtxt, rt = rest(env, ind + 4)
        st = self.lean_type(ctx["self_type"])
        return (f"(match while_loop (σ := {st}) (ρ := {self.result_lean_type(ctx)}) fuel\n"
                f"{pad}    (fun self => {cnd})\n"
                f"{pad}    (fun self =>\n{pad}    {btxt}) self with\n"
                f"{pad}  | Option.none => Option.none\n"
                f"{pad}  | Option.some (LoopStep.return_ r') => Option.some r'\n"
                f"{pad}  | Option.some (LoopStep.continue_ self) =>\n{pad}    {rtxt})"), rt

    # ---- match
    def tr_match(self, e, env, ctx, expected, final, ind):
        _, line, scrut, arms = e
        pad = " " * ind
        mc = self.mut_call(scrut, env, ctx, line, ind)
        prefix = ""
        if mc is not None:
            root, fields, rtype, call, vt = mc
            if vt is None:
                raise RectTrError(f"{self.where}: line {line}: match on a call that returns ()")
            self.check_assignable(root, env, line)
            new = self.place_write(self.lvar(root), rtype, fields, "tmp'.2", line)
            prefix = f"(let tmp' := {call};\n{pad}let {self.lvar(root)} := {new};\n{pad}"
            stxt, stype = "tmp'.1", vt
        else:
            stxt, stype = self.tr_expr(scrut, self.nt(env), ctx, None, ind + 2)
        out = [f"{prefix}(match {stxt} with"]
        rtype = "never"
        for (pat, body) in arms:
            alts = pat[2] if pat[0] == "por" else [pat]
            env2 = dict(env)
            ptxts = []
            for a in alts:
                binds = {}
                ptxts.append(self.tr_pat(a, stype, binds, line))
                if len(alts) > 1 and binds:
                    raise RectTrError(f"{self.where}: line {line}: bindings in an or-pattern not supported")
                env2.update(binds)
            if final is None:
                btxt, bt = self.tr_expr(body, env2, ctx, expected if rtype == "never" else rtype, ind + 4)
            else:
                if body[0] == "block":
                    btxt, bt = self.tr_stmts(body[2], 0, body[3], env2, ctx, expected, final, ind + 4)
                elif body[0] == "unit":
                    btxt, bt = final(env2, ind + 4)
                elif body[0] == "return":
                    btxt, bt = self.tr_return(body, env2, ctx, ind + 4)
                else:
                    btxt, bt = self.tr_stmts([("expr", body[1], body)], 0, None, env2, ctx, expected, final, ind + 4)
            rtype = self.join(rtype, bt, line)
            out.append(f"{pad}  | {' | '.join(ptxts)} =>\n{pad}    {btxt}")
        return ("\n".join(out) + ")" + (")" if prefix else "")), rtype

    def tr_pat(self, p, t, binds, line):
        k = p[0]
        if k == "pwild":
            return "_"
        if k == "pbind":
            binds[p[2]] = t
            return self.lvar(p[2])
        if k == "ptuple":
            if isinstance(t, str) or t[0] != "tuple" or len(t[1]) != len(p[2]):
                raise RectTrError(f"{self.where}: line {line}: tuple pattern against type {type_str(t)}")
            return "(" + ", ".join(self.tr_pat(q, tt, binds, line) for q, tt in zip(p[2], t[1])) + ")"
        if k == "pctor":
            segs, args = p[2], p[3]
            if segs in (["Some"], ["Option", "Some"]) and len(args) == 1:
                if isinstance(t, str) or t[0] != "Option":
                    raise RectTrError(f"{self.where}: line {line}: `Some(..)` pattern against type {type_str(t)}")
                return f"Option.some {self.tr_pat(args[0], t[1][0], binds, line)}"
            if segs in (["None"], ["Option", "None"]) and not args:
                if isinstance(t, str) or t[0] != "Option":
                    raise RectTrError(f"{self.where}: line {line}: `None` pattern against type {type_str(t)}")
                return "Option.none"
            raise RectTrError(f"{self.where}: line {line}: constructor pattern `{'::'.join(segs)}` not supported")
        if k == "ppath":
            segs = p[2]
            if len(segs) == 2 and segs[0] in self.prog.enums and segs[1] in self.prog.enums[segs[0]]:
                if t != segs[0]:
                    raise RectTrError(f"{self.where}: line {line}: pattern `{'::'.join(segs)}` against type {type_str(t)}")
                return f"{segs[0]}.{segs[1]}"
            raise RectTrError(f"{self.where}: line {line}: path pattern `{'::'.join(segs)}` not known")
        raise RectTrError(f"{self.where}: line {line}: pattern kind {k}")

    # ---- calls
    def tr_args(self, args, g, env, ctx, line, ind):
        if len(args) != len(g.params):
            raise RectTrError(f"{self.where}: line {line}: {g.name} takes {len(g.params)} argument(s), {len(args)} given")
        out = []
        for a, (pn, pt) in zip(args, g.params):
            pt = self.norm_type(pt, g.impl_type)
            txt, t = self.tr_expr(a, self.nt(env), ctx, pt, ind + 2)
            self.unify(t, pt, f"{self.where}: line {line}: argument `{pn}` of {g.name}")
            out.append(self.atom(txt))
        return out

    @staticmethod
    def atom(txt):
        if re.fullmatch(r"[A-Za-z_][A-Za-z0-9_.']*", txt) or (txt.startswith("(") and txt.endswith(")") and Translator.balanced(txt)):
            return txt
        return f"({txt})"

    @staticmethod
    def balanced(txt):
        depth = 0
        for idx, ch in enumerate(txt):
            if ch == "(":
                depth += 1
            elif ch == ")":
                depth -= 1
                if depth == 0 and idx != len(txt) - 1:
                    return False
        return depth == 0

    def call_user(self, g, self_arg, args, env, ctx, line, ind):
        where = self.where
        name = self.need(g)
        self.where = where
        if g.self_kind == "refmut":
            raise RectTrError(f"{self.where}: line {line}: `&mut self` method {g.name} may only be called as a statement on a local variable")
        if g.key() in self.loopy_fns:
            raise RectTrError(f"{self.where}: line {line}: call of `{g.name}`, which contains a loop: not supported")
        a = self.tr_args(args, g, env, ctx, line, ind)
        if self_arg is not None:
            a = [self.atom(self_arg)] + a
        ret = self.norm_type(g.ret, g.impl_type)
        return f"(RectSrc.{name}{''.join(' ' + x for x in a)})" if a else f"RectSrc.{name}", ret

    # ---- expressions: returns (lean text, type)
    def tr_expr(self, e, env, ctx, expected, ind):
        k, line = e[0], e[1]
        W = f"{self.where}: line {line}"
        if k not in ("paren", "if", "match", "block", "return"):
            env = self.nt(env)          # operands, arguments, fields ... are not tail positions
        if k == "paren":
            return self.tr_expr(e[2], env, ctx, expected, ind)
        if k in ("deref", "ref"):
            return self.tr_expr(e[2], env, ctx, expected, ind)      # shared references to Copy values are transparent
        if k == "unit":
            return "()", "unit"
        if k == "int":
            _, _, v, suffix = e
            t = suffix or (expected if expected in ("i32", "u32") else None)
            if t is None:
                return f"{v}", "int?"
            return f"({v} : {LEAN_TYPES[t]})", t
        if k == "str":
            raise RectTrError(f"{W}: string / char literal outside debug_assert!")
        if k == "path":
            segs = e[2]
            if len(segs) == 1:
                n = segs[0]
                if n in env:
                    return self.lvar(n), env[n]
                if n in ("true", "false"):
                    return n, "bool"
                if n == "None":
                    if expected is None or isinstance(expected, str) or expected[0] != "Option":
                        raise RectTrError(f"{W}: cannot tell the type of `None`")
                    return "Option.none", expected
                raise RectTrError(f"{W}: unknown name `{n}`")
            if len(segs) == 2:
                ty = ctx["self_type"] if segs[0] == "Self" else segs[0]
                if ty in self.prog.enums and segs[1] in self.prog.enums[ty]:
                    return f"{ty}.{segs[1]}", ty
            raise RectTrError(f"{W}: path `{'::'.join(segs)}` not known")
        if k == "field":
            rtxt, rt = self.tr_expr(e[2], env, ctx, None, ind)
            ft = self.field_type(rt, e[3], line)
            return f"({self.sname(rt)}_{e[3]} {self.atom(rtxt)})", ft
        if k == "neg":
            txt, t = self.tr_expr(e[2], env, ctx, expected, ind)
            if t == "int?":
                raise RectTrError(f"{W}: cannot tell the type of the negated literal")
            if t == "i32":
                return f"(i32_neg {self.atom(txt)})", "i32"
            if isinstance(t, str) and t in self.prog.structs:
                g = self.find_fn(t, "Neg", "neg", W)
                return self.call_user(g, txt, [], env, ctx, line, ind)
            raise RectTrError(f"{W}: unary `-` on {type_str(t)}")
        if k == "not":
            txt, t = self.tr_expr(e[2], env, ctx, "bool", ind)
            self.unify(t, "bool", W)
            return f"(bool_not {self.atom(txt)})", "bool"
        if k == "cast":
            txt, t = self.tr_expr(e[2], env, ctx, None, ind)
            to = e[3]
            if t == "int?":
                raise RectTrError(f"{W}: cast of an untyped literal")
            if (t, to) in (("u32", "i32"), ("i32", "u32")):
                return f"({t}_as_{to} {self.atom(txt)})", to
            if t == to and t in ("i32", "u32"):
                return txt, t
            raise RectTrError(f"{W}: cast from {type_str(t)} to {type_str(to)} not supported")
        if k == "bin":
            return self.tr_bin(e, env, ctx, expected, ind)
        if k == "range":
            _, _, incl, lo, hi = e
            elem = expected[1][0] if (expected is not None and not isinstance(expected, str)
                                      and expected[0] in ("Range", "RangeInclusive") and len(expected[1]) == 1) else None
            a, at, b, bt = self.tr_pair(lo, hi, env, ctx, elem, ind, W)
            if at != "i32":
                raise RectTrError(f"{W}: range over {type_str(at)} not supported")
            if incl:
                return f"(rangeinclusive_i32_new {self.atom(a)} {self.atom(b)})", ("RangeInclusive", ("i32",))
            return f"(range_i32_new {self.atom(a)} {self.atom(b)})", ("Range", ("i32",))
        if k == "tuple":
            items = e[2]
            exp = expected[1] if (expected is not None and not isinstance(expected, str) and expected[0] == "tuple"
                                  and len(expected[1]) == len(items)) else [None] * len(items)
            parts = [self.tr_expr(x, env, ctx, xe, ind) for x, xe in zip(items, exp)]
            if any(t == "int?" for _, t in parts):
                raise RectTrError(f"{W}: untyped literal in a tuple")
            return "(" + ", ".join(p for p, _ in parts) + ")", ("tuple", tuple(t for _, t in parts))
        if k == "struct":
            _, _, segs, fields, base = e
            ty = ctx["self_type"] if segs == ["Self"] else segs[-1]
            if len(segs) != 1 or ty not in self.prog.structs:
                raise RectTrError(f"{W}: struct literal `{'::'.join(segs)}` not known")
            decl = self.prog.structs[ty]
            given = dict(fields)
            if len(given) != len(fields):
                raise RectTrError(f"{W}: field given twice")
            for fname in given:
                if fname not in [n for n, _ in decl]:
                    raise RectTrError(f"{W}: struct {ty} has no field `{fname}`")
            btxt = None
            if base is not None:
                btxt, bt = self.tr_expr(base, env, ctx, ty, ind)
                self.unify(bt, ty, W)
            vals = []
            for (fname, ft) in decl:
                ft = self.norm_type(ft, ty)
                if fname in given:
                    txt, t = self.tr_expr(given[fname], env, ctx, ft, ind + 2)
                    self.unify(t, ft, f"{W}: field `{fname}`")
                    vals.append(self.atom(txt))
                elif btxt is not None:
                    vals.append(f"({ty}_{fname} {self.atom(btxt)})")
                else:
                    raise RectTrError(f"{W}: field `{fname}` of {ty} missing")
            return f"({ty}_mk {' '.join(vals)})", ty
        if k == "callexpr":
            return self.tr_call(e, env, ctx, expected, ind)
        if k == "mcall":
            return self.tr_mcall(e, env, ctx, expected, ind)
        if k == "if":
            _, _, cond, then, els = e
            if els is None:
                raise RectTrError(f"{W}: `if` without `else` used as a value")
            cnd, ctyp = self.tr_expr(cond, self.nt(env), ctx, "bool", ind + 2)
            self.unify(ctyp, "bool", W)
            pad = " " * ind
            env = self.freeze(env)
            a, at = self.tr_stmts(then[2], 0, then[3], env, ctx, expected, None, ind + 2)
            b, bt = self.tr_stmts(els[2], 0, els[3], env, ctx, expected if at in ("never", "int?") else at, None, ind + 2)
            if at == "int?" and bt in ("i32", "u32"):
                a, at = self.tr_stmts(then[2], 0, then[3], env, ctx, bt, None, ind + 2)
            t = self.join(at, bt, line)
            return f"(if {cnd} then\n{pad}  {a}\n{pad}else\n{pad}  {b})", t
        if k == "match":
            return self.tr_match(e, env, ctx, expected, None, ind)
        if k == "block":
            txt, t = self.tr_stmts(e[2], 0, e[3], self.freeze(env), ctx, expected, None, ind)
            return (f"({txt})" if e[2] else txt), t
        if k == "return":
            return self.tr_return(e, env, ctx, ind)
        if k == "closure":
            raise RectTrError(f"{W}: closure outside a supported combinator")
        if k == "debug_assert":
            raise RectTrError(f"{W}: debug_assert! must be a statement")
        raise RectTrError(f"{W}: expression kind `{k}` has no translation")

    def tr_pair(self, l, r, env, ctx, expected, ind, W):
        a, at = self.tr_expr(l, env, ctx, expected, ind)
        b, bt = self.tr_expr(r, env, ctx, at if at in ("i32", "u32") else expected, ind)
        if at == "int?" and bt in ("i32", "u32"):
            a, at = self.tr_expr(l, env, ctx, bt, ind)
        if at == "int?" or bt == "int?":
            raise RectTrError(f"{W}: cannot tell the type of the integer literals")
        if at != bt:
            return a, at, b, bt
        return a, at, b, bt

    def tr_bin(self, e, env, ctx, expected, ind):
        _, line, op, l, r = e
        W = f"{self.where}: line {line}"
        if op in ("&&", "||"):
            a, at = self.tr_expr(l, env, ctx, "bool", ind)
            b, bt = self.tr_expr(r, env, ctx, "bool", ind)
            self.unify(at, "bool", W)
            self.unify(bt, "bool", W)
            return f"({'bool_and' if op == '&&' else 'bool_or'} {self.atom(a)} {self.atom(b)})", "bool"
        if op in BIN_CMP:
            a, at, b, bt = self.tr_pair(l, r, env, ctx, None, ind, W)
            if at != bt:
                raise RectTrError(f"{W}: comparison between {type_str(at)} and {type_str(bt)}")
            if at not in ("i32", "u32", "bool") or (at == "bool" and op not in ("==", "!=")):
                raise RectTrError(f"{W}: comparison `{op}` on {type_str(at)} not supported")
            return f"({at}_{BIN_CMP[op]} {self.atom(a)} {self.atom(b)})", "bool"
        if op in BIN_ARITH:
            a, at = self.tr_expr(l, env, ctx, expected if expected in ("i32", "u32") else None, ind)
            if isinstance(at, str) and at in self.prog.structs:
                # operator of a user type: `impl Add<Rhs> for T`; the right operand's type selects the impl
                b, bt = self.tr_expr(r, env, ctx, None, ind)
                if bt == "int?":
                    cands = [g for (it, tr, n), g in self.prog.fns.items()
                             if it == at and tr is not None and re.fullmatch(OP_TRAIT[op][0] + r"<(i32|u32)>", tr)]
                    if len(cands) != 1:
                        raise RectTrError(f"{W}: cannot resolve `{op}` of {at} with an integer literal")
                    bt = cands[0].trait[len(OP_TRAIT[op][0]) + 1:-1]
                tr_name, fn_name = OP_TRAIT[op]
                trait = tr_name if bt == at else f"{tr_name}<{type_str(bt)}>"
                g = self.find_fn(at, trait, fn_name, W)
                return self.call_user(g, a, [r], env, ctx, line, ind)
            b, bt = self.tr_expr(r, env, ctx, at if at in ("i32", "u32") else (expected if expected in ("i32", "u32") else None), ind)
            if at == "int?" and bt in ("i32", "u32"):
                a, at = self.tr_expr(l, env, ctx, bt, ind)
            if at == "int?" or bt == "int?":
                return self.tr_bin_untyped(op, a, b), "int?"
            if at != bt or at not in ("i32", "u32"):
                raise RectTrError(f"{W}: `{op}` between {type_str(at)} and {type_str(bt)} not supported")
            return f"({at}_{BIN_ARITH[op]} {self.atom(a)} {self.atom(b)})", at
        raise RectTrError(f"{W}: operator `{op}` not supported")

    def tr_bin_untyped(self, op, a, b):
        raise RectTrError(f"{self.where}: arithmetic between untyped integer literals ({a} {op} {b})")

    def tr_call(self, e, env, ctx, expected, ind):
        _, line, fe, args = e
        W = f"{self.where}: line {line}"
        if fe[0] != "path":
            raise RectTrError(f"{W}: call of a computed function")
        segs = fe[2]
        if segs in (["Some"], ["Option", "Some"]):
            if len(args) != 1:
                raise RectTrError(f"{W}: Some takes one argument")
            inner = expected[1][0] if (expected is not None and not isinstance(expected, str) and expected[0] == "Option") else None
            txt, t = self.tr_expr(args[0], env, ctx, inner, ind)
            if t == "int?":
                raise RectTrError(f"{W}: cannot tell the type of the literal in Some(..)")
            return f"(Option.some {self.atom(txt)})", ("Option", (t,))
        if len(segs) == 1:
            n = segs[0]
            if n in env:
                raise RectTrError(f"{W}: call of the local `{n}`")
            if n in ("min", "max") and (None, None, n) not in self.prog.fns:
                # core::cmp::{min, max}
                if len(args) != 2:
                    raise RectTrError(f"{W}: {n} takes two arguments")
                a, at, b, bt = self.tr_pair(args[0], args[1], env, ctx, expected if expected in ("i32", "u32") else None, ind, W)
                if at != bt or at not in ("i32", "u32"):
                    raise RectTrError(f"{W}: {n} on {type_str(at)} / {type_str(bt)} not supported")
                return f"({at}_{n} {self.atom(a)} {self.atom(b)})", at
            g = self.find_fn(None, None, n, W)
            return self.call_user(g, None, args, env, ctx, line, ind)
        if len(segs) == 2:
            ty = ctx["self_type"] if segs[0] == "Self" else segs[0]
            if ty not in self.prog.structs and ty not in self.prog.enums:
                raise RectTrError(f"{W}: call of `{'::'.join(segs)}`: type not known")
            g = self.find_method(ty, segs[1], W)
            if g.self_kind is not None:
                # fully qualified call `Type::method(receiver, args..)`
                if not args:
                    raise RectTrError(f"{W}: receiver missing")
                stxt, st = self.tr_expr(args[0], env, ctx, ty, ind)
                self.unify(st, ty, W)
                return self.call_user(g, stxt, args[1:], env, ctx, line, ind)
            return self.call_user(g, None, args, env, ctx, line, ind)
        raise RectTrError(f"{W}: call of `{'::'.join(segs)}` not supported")

    def tr_mcall(self, e, env, ctx, expected, ind):
        _, line, recv, name, turbofish, args = e
        W = f"{self.where}: line {line}"
        rtxt, rt = self.tr_expr(recv, env, ctx, None, ind)
        if rt == "int?":
            raise RectTrError(f"{W}: method `{name}` on an untyped integer literal")
        if isinstance(rt, str) and (rt in self.prog.structs or rt in self.prog.enums):
            if turbofish is not None:
                raise RectTrError(f"{W}: turbofish on a user method")
            g = self.find_method(rt, name, W)
            if g.self_kind is None:
                raise RectTrError(f"{W}: `{name}` is not a method")
            return self.call_user(g, rtxt, args, env, ctx, line, ind)
        if name == "saturating_as" and rt == "u32" and not args:
            to = turbofish if turbofish is not None else expected
            if to != "i32":
                raise RectTrError(f"{W}: `saturating_as` from u32: target type {'unknown' if to is None else type_str(to)} not supported")
            return f"(u32_saturating_as_i32 {self.atom(rtxt)})", "i32"
        if turbofish is not None:
            raise RectTrError(f"{W}: turbofish on `{name}` not supported")
        if name == "is_some_and" and not isinstance(rt, str) and rt[0] == "Option":
            if len(args) != 1 or args[0][0] != "closure" or len(args[0][2]) != 1:
                raise RectTrError(f"{W}: is_some_and(|x| ..) expected")
            p = args[0][2][0]
            env2 = dict(env)
            env2[p] = rt[1][0]
            btxt, bt = self.tr_expr(args[0][3], env2, ctx, "bool", ind + 2)
            self.unify(bt, "bool", W)
            return f"(option_is_some_and {self.atom(rtxt)} (fun {self.lvar(p)} => {btxt}))", "bool"
        key = (rt, name)
        if key in PRIM_METHODS:
            fn, ptypes, ret = PRIM_METHODS[key]
            if len(args) != len(ptypes):
                raise RectTrError(f"{W}: `{name}` takes {len(ptypes)} argument(s)")
            out = []
            for a, pt in zip(args, ptypes):
                txt, t = self.tr_expr(a, env, ctx, pt, ind)
                self.unify(t, pt, f"{W}: argument of `{name}`")
                out.append(self.atom(txt))
            return f"({fn} {self.atom(rtxt)}{''.join(' ' + x for x in out)})", ret
        raise RectTrError(f"{W}: method `{name}` on {type_str(rt)} is not known to the translator (no prelude counterpart)")


OP_TRAIT_NAMES = {"Add", "Sub", "Mul", "Div", "Neg"}


def contains_kind(node, kind):
    """does the AST contain a node of this kind"""
    if isinstance(node, tuple):
        if node and node[0] == kind and len(node) > 1 and isinstance(node[1], int):
            return True
        return any(contains_kind(x, kind) for x in node)
    if isinstance(node, list):
        return any(contains_kind(x, kind) for x in node)
    return False

HEADER = """/-
  EG.Generated.RectSrc — GENERATED by tools/tr_rect.py from /repo's current sources. Do not edit.

  One `def` per Rust function, mirroring the Rust text arm for arm. Every Rust primitive is a call of a function
  of the hand-written prelude EG/Model/RectSrcPrelude.lean (which carries all the semantics). The theorems
  `<name>_src_eq_model` of EG/Props/C16/Generated.lean prove these definitions equal to the hand-written model
  EG/Model/Rect.lean, for all inputs.
-/
import EG.Model.RectSrcPrelude
set_option linter.unusedVariables false
namespace EG.Generated.RectSrc
open EG EG.RectSrcPrelude

"""


def subst_assoc(t, f, prog):
    if isinstance(t, str):
        if t.startswith("Self::"):
            k = (f.impl_type, f.trait, t[6:])
            if k not in prog.assoc:
                raise RectTrError(f"{f.rel}:{f.line}: associated type {t} not declared in the impl")
            return prog.assoc[k]
        return t
    if t[0] == "refmut":
        return ("refmut", subst_assoc(t[1], f, prog))
    return (t[0], tuple(subst_assoc(x, f, prog) for x in t[1]))


def load_program(repo):
    prog = Program()
    for key, rel in FILES.items():
        p = os.path.join(repo, rel)
        if not os.path.exists(p):
            raise RectTrError(f"{rel}: file not found")
        src = strip_comments(open(p).read(), rel)
        toks = tokenize(src, rel)
        parse_items(Cursor(toks), prog, rel)
    for f in prog.fns.values():
        if getattr(f, "unsupported", None):
            continue
        try:
            f.ret = subst_assoc(f.ret, f, prog)
            f.params = [(n, subst_assoc(t, f, prog)) for (n, t) in f.params]
        except RectTrError as ex:
            f.unsupported = str(ex)
    return prog


INVENTORY_TYPES = ["Rectangle", "Points"]

EXPECTED_STRUCTS = {
    "Point": [("x", "i32"), ("y", "i32")],
    "Size": [("width", "u32"), ("height", "u32")],
    "Rectangle": [("top_left", "Point"), ("size", "Size")],
}


# structs that have no counterpart in the project's basic types: declared in the generated file, from the Rust declaration
GENERATED_STRUCTS = ["Points"]


def struct_decl(tr, name):
    fields = [(n, tr.norm_type(t, name)) for (n, t) in tr.prog.structs[name]]
    lt = [(n, tr.lean_type(t)) for (n, t) in fields]
    out = [f"/-- `struct {name}` (declared from the Rust declaration; accessors as for the prelude's structs) -/\nstructure {name} where\n"
           + "".join(f"  {n} : {t}\n" for n, t in lt) + "  deriving DecidableEq, Repr\n"]
    out.append(f"abbrev {name}_mk " + " ".join(f"({n} : {t})" for n, t in lt) + f" : {name} := ⟨" + ", ".join(n for n, _ in lt) + "⟩\n")
    for n, t in lt:
        out.append(f"abbrev {name}_{n} (s : {name}) : {t} := s.{n}\n")
        out.append(f"abbrev {name}_set_{n} (s : {name}) (v : {t}) : {name} := {{ s with {n} := v }}\n")
    return "".join(out) + "\n"


def translate(repo):
    prog = load_program(repo)
    # the prelude gives `Point` / `Size` / `Rectangle` as EG.Pt / EG.Sz / EG.Rect: the declarations must be these
    for name, fields in EXPECTED_STRUCTS.items():
        if prog.structs.get(name) != fields:
            raise RectTrError(f"struct {name}: fields {prog.structs.get(name)} differ from the prelude's {fields}")
    tr = Translator(prog)
    enums_used = ["AnchorX", "AnchorY", "AnchorPoint"]
    text = [HEADER]
    for en in enums_used:
        if en not in prog.enums:
            raise RectTrError(f"enum {en} not found")
        text.append(f"/-- `enum {en}` of core/src/geometry/mod.rs -/\ninductive {en} where\n"
                    + "".join(f"  | {v}\n" for v in prog.enums[en]) + "  deriving DecidableEq, Repr\n\n")
    for sn in GENERATED_STRUCTS:
        if sn not in prog.structs:
            raise RectTrError(f"struct {sn} not found")
        text.append(struct_decl(tr, sn))
    for (it, trn, n) in ROOTS:
        tr.need(tr.find_fn(it, trn, n, "roots"))
    text.append("\n".join(tr.out))
    # inventory: every fn of every impl of the subject types found in the parsed files that is NOT translated
    # (e.g. an override of `Iterator::fold` added to `impl Iterator for Points` changes behaviour without touching
    # any translated body: it shows up here, and the theorem `untranslated_pinned` of Props/C16/Generated.lean breaks)
    untranslated = {}
    for (it, trn, n), f in sorted(prog.fns.items(), key=lambda kv: (kv[0][0] or "", kv[0][1] or "", kv[0][2])):
        if it in INVENTORY_TYPES and (it, trn, n) not in tr.done:
            untranslated.setdefault(f"impl {trn + ' for ' if trn else ''}{it}", []).append(n)
    text.append("\n/-- functions of the impls of " + " / ".join(INVENTORY_TYPES) + " (in the parsed files) that are NOT translated -/\n"
                "def untranslated : List (String × List String) := [\n"
                + ",\n".join(f'  ("{k}", [' + ", ".join(f'"{n}"' for n in v) + "])" for k, v in untranslated.items()) + "]\n")
    text.append("\n/-- what was translated (Lean name, Rust origin) -/\ndef translated : List (String × String) := [\n"
                + ",\n".join(f'  ("{a}", "{b}")' for a, b in tr.listing) + "]\n")
    text.append("\nend EG.Generated.RectSrc\n")
    info = {"functions": len(tr.listing), "untranslated": untranslated, "enums": {en: len(prog.enums[en]) for en in enums_used},
            "names": [a for a, _ in tr.listing]}
    return "".join(text), info


def failed_file(reason):
    r = reason.replace("\\", "\\\\").replace('"', '\\"').replace("\n", " ")
    return ("/-\n  EG.Generated.RectSrc — GENERATED by tools/tr_rect.py. THE TRANSLATION FAILED: the Rust source of `Rectangle`\n"
            "  (or of the Point / Size helpers it calls) contains a construct the translator does not know. No function\n"
            "  is defined here, so the `_src_eq_model` theorems of EG/Props/C16/Generated.lean do not build.\n-/\n"
            "namespace EG.Generated.RectSrc\n\n"
            f"def translationFailed : String := \"{r}\"\n\nend EG.Generated.RectSrc\n")


# ---------------------------------------------------------------------------------------------------------------
# self test: constructs that must be REFUSED (loudly) and a few that must translate to a known text
# ---------------------------------------------------------------------------------------------------------------

SELFTEST_PRELUDE = """
pub struct Point { pub x: i32, pub y: i32 }
pub struct Size { pub width: u32, pub height: u32 }
pub struct Rectangle { pub top_left: Point, pub size: Size }
pub enum AnchorX { Left, Center, Right }
impl Point { pub const fn new(x: i32, y: i32) -> Self { Point { x, y } } }
impl Rectangle {
    fn bump(&mut self, d: i32) { self.top_left.x += d; }
"""

# (name, body of `fn name(&self, a: i32, b: u32, k: AnchorX, o: Option<Point>) -> RET`, RET, expected error fragment or None, expected Lean fragment)
SELFTEST_CASES = [
    ("ok_prec", "-a as u32 * 2", "u32", None, "(u32_mul (i32_as_u32 (i32_neg a)) (2 : Nat))"),
    ("ok_early_return", "if a > 0 { return 1; } let c = a + 1; c", "i32", None, "if (i32_gt a (0 : Int)) then\n    (1 : Int)\n  else\n    let c := (i32_add a (1 : Int));"),
    ("ok_mut_local", "let mut r = *self; r.bump(a); r.size.width = b; r", "Rectangle", None, "let r := (RectSrc.bump r a);"),
    ("ok_match_or", "match k { AnchorX::Left | AnchorX::Center => 0, AnchorX::Right => a }", "i32", None, "| AnchorX.Left | AnchorX.Center =>"),
    ("bad_while", "let mut i = 0; while i < a { i += 1; } i", "i32", "`while`", None),
    ("bad_for", "for i in 0..a { } a", "i32", "`for`", None),
    ("bad_loop", "loop { return a; }", "i32", "`loop`", None),
    ("bad_question", "let p = o?; p.x", "i32", "`?` not supported", None),
    ("ok_if_let", "if let Some(p) = o { p.x } else { a }", "i32", None, "(match o with\n    | Option.some p =>\n      (Point_x p)\n    | _ =>\n      a)"),
    ("bad_while_let", "while let Some(p) = o { } a", "i32", "`while let`", None),
    ("bad_let_chain", "if let Some(p) = o && a > 0 { p.x } else { a }", "i32", "type mismatch", None),
    ("bad_macro", "assert!(a > 0); a", "i32", "macro `assert!`", None),
    ("bad_index", "let v = a; v[0]", "i32", "indexing", None),
    ("bad_unknown_method", "a.wrapping_add(1)", "i32", "not known to the translator", None),
    ("bad_unknown_fn", "helper(a)", "i32", "not found in the parsed sources", None),
    ("bad_shift", "a << 1", "i32", "unexpected token `<`", None),
    ("bad_rem", "a % 2", "i32", "operator `%` not supported", None),
    ("bad_cast", "a as u8 as i32", "i32", "not supported", None),
    ("bad_float", "let f = 1.5; a", "i32", "float literal", None),
    ("bad_return_in_value", "let c = if a > 0 { return 1; } else { 2 }; c", "i32", "`return` inside an expression whose value is used", None),
    ("bad_return_in_value_block", "let c = { if a > 0 { return 1; } 2 }; c", "i32", "`return` inside an expression whose value is used", None),
    ("bad_lost_update", "let mut c = a; let d = if a > 0 { c = 1; 2 } else { 3 }; c + d", "i32", "modified inside a block used as a value", None),
    ("bad_dropped_value", "a + 1; a", "i32", "has no translation", None),
    ("bad_code_after_return", "return a; a", "i32", "code after `return`", None),
    ("bad_type_mismatch", "b", "i32", "type mismatch", None),
    ("bad_mixed_arith", "a + b", "i32", "not supported", None),
    ("bad_mut_call_in_expr", "let mut r = *self; let q = r.bump(a); a", "i32", "`let` bound to a call that returns ()", None),
    ("bad_mut_call_nested", "let mut r = *self; let q = a + { r.bump(a); 1 }; q", "i32", "modified inside a block used as a value", None),
    ("bad_closure", "let f = |x| x + 1; a", "i32", "closure outside a supported combinator", None),
    ("bad_struct_pattern", "match o { Some(Point { x, y }) => x, None => a }", "i32", "struct patterns", None),
    ("bad_guard", "match o { Some(p) if a > 0 => p.x, _ => a }", "i32", "match guards", None),
    ("bad_literal_pattern", "match a { 0 => 1, _ => 2 }", "i32", "literal patterns", None),
    ("bad_ref_mut", "let r = &mut a; a", "i32", "`&mut` expression", None),
    ("bad_unsafe", "unsafe { a }", "i32", "`unsafe`", None),
    ("bad_wide_literal", "a + 0x10", "i32", "integer literal", None),
]


def selftest():
    """returns a list of problems (empty = fine)."""
    problems = []
    src = SELFTEST_PRELUDE
    for (name, body, ret, _, _) in SELFTEST_CASES:
        src += f"    fn {name}(&self, a: i32, b: u32, k: AnchorX, o: Option<Point>) -> {ret} {{ {body} }}\n"
    src += "}\n"
    try:
        prog = Program()
        parse_items(Cursor(tokenize(strip_comments(src, "selftest"), "selftest")), prog, "selftest")
    except RectTrError as ex:
        if "float literal" in str(ex):
            # the tokenizer refuses float literals for the whole file: test the rest without that case
            src2 = src.replace("let f = 1.5; a", "a")
            prog = Program()
            parse_items(Cursor(tokenize(strip_comments(src2, "selftest"), "selftest")), prog, "selftest")
        else:
            return [f"selftest input does not parse: {ex}"]
    for (name, body, ret, err, frag) in SELFTEST_CASES:
        if name == "bad_float":
            try:
                tokenize("fn f() -> i32 { let f = 1.5; 1 }", "selftest")
                problems.append("bad_float: accepted")
            except RectTrError:
                pass
            continue
        tr = Translator(prog)
        try:
            tr.need(prog.fns[("Rectangle", None, name)])
            text = tr.out[-1]
            if err is not None:
                problems.append(f"{name}: `{body}` was ACCEPTED but must be refused ({err}); output: {text.strip()[-200:]}")
            elif frag not in text:
                problems.append(f"{name}: `{body}` translated to unexpected text: {text}")
        except RectTrError as ex:
            if err is None:
                problems.append(f"{name}: `{body}` refused: {ex}")
            elif err not in str(ex):
                problems.append(f"{name}: refused with an unexpected message: {ex} (expected `{err}`)")
    return problems


def generate(repo):
    try:
        problems = selftest()
        if problems:
            raise RectTrError("translator self test failed: " + "; ".join(problems[:3]))
        text, info = translate(repo)
        info["selftest_cases"] = len(SELFTEST_CASES)
        return {"RectSrc.lean": text}, info
    except RectTrError as ex:
        reason = str(ex)
    except RecursionError:
        reason = "recursion limit reached while parsing"
    except Exception as ex:     # a bug of the translator must not take the other 19 checks down either
        reason = f"internal error {type(ex).__name__}: {ex}"
    return {"RectSrc.lean": failed_file(reason)}, {"failed": reason}


if __name__ == "__main__":
    import json
    import sys
    repo = os.environ.get("EG_REPO", "/repo")
    if len(sys.argv) > 1 and sys.argv[1] == "--selftest":
        ps = selftest()
        print("\n".join(ps) if ps else f"selftest: {len(SELFTEST_CASES)} cases fine")
        sys.exit(1 if ps else 0)
    elif len(sys.argv) > 1 and sys.argv[1] == "--strict":
        t, i = translate(repo)
        print(t)
    else:
        files, info = generate(repo)
        print(files["RectSrc.lean"])
        print(json.dumps(info), file=sys.stderr)
