#!/bin/sh
# seedtest_par.sh [N] — run the check of its property against EVERY confirmed seeded change in /verif/seeded/
# (private copies, N slots in parallel, default 4); logs /tmp/vseed-log-<id>.txt, then tools/seed_results.py.
N=${1:-4}
cd /verif/seeded
ls -d C*/ | tr -d / | grep -v results > /tmp/vseed-all.txt
run_one() {
  id=$1; slot=$2
  p=${id%%-*}
  if [ ! -f /verif/seeded/$id/patch.diff ]; then return; fi
  VSEED_SLOT=$slot /verif/tools/seedrun.sh /verif/seeded/$id/patch.diff $p > /tmp/vseed-log-$id.txt 2>&1
}
i=0
for slot in $(seq 1 $N); do
  ( awk -v n=$N -v s=$slot 'NR % n == s % n' /tmp/vseed-all.txt | while read id; do
      p=${id%%-*}
      if [ -f /verif/seeded/$id/patch.diff ]; then
        VSEED_SLOT=$slot /verif/tools/seedrun.sh /verif/seeded/$id/patch.diff $p > /tmp/vseed-log-$id.txt 2>&1
      fi
    done ) &
done
wait
cd /verif && python3 tools/seed_results.py && python3 tools/gen_status.py
