#!/usr/bin/env python3
"""translate.py — regenerate lean/EG/Generated/*.lean from /repo's current sources.

Each part lives in its own module tools/tr_<part>.py exposing
    generate(repo: str) -> (dict[str filename -> str lean source], dict info)
and raises an exception when a construct it expects cannot be parsed (a broken tie, never a
silently smaller table). Files are rewritten only when their content changed so that `lake build`
stays incremental. The last stdout line is a JSON object with what was seen (counts per table).

A part that raises does not stop the others (audit 5: one unparseable construct in the colour
macros used to break the checks of all twenty properties): its generated files are left as they
are (the last good tables), the reason is reported under `"failed": {part: reason}` together
with the files the part wrote when it last succeeded (`"failed_files"`, remembered in
lean/EG/Generated/parts.json), and the exit status stays 0. tools/check.py turns a failed part
into a broken tie for exactly those properties whose theorems import one of these files (or
whose harness uses a generated Rust table of that part).
"""
import importlib, json, os, sys
V = os.path.dirname(os.path.dirname(os.path.abspath(__file__)))
REPO = os.environ.get("EG_REPO", "/repo")
GEN = os.path.join(V, "lean", "EG", "Generated")
sys.path.insert(0, os.path.join(V, "tools"))

def main():
    os.makedirs(GEN, exist_ok=True)
    info = {}
    parts = sorted(f[:-3] for f in os.listdir(os.path.join(V, "tools")) if f.startswith("tr_") and f.endswith(".py"))
    side = os.path.join(GEN, "parts.json")
    try:
        part_files = json.load(open(side))
    except Exception:
        part_files = {}
    before = json.dumps(part_files, sort_keys=True)
    failed, failed_files = {}, {}
    for part in parts:
        try:
            mod = importlib.import_module(part)
            files, i = mod.generate(REPO)
        except Exception as e:
            failed[part] = f"{type(e).__name__}: {e}"
            # files of the last successful run; unknown (never succeeded here) = None = "assume everything"
            failed_files[part] = part_files.get(part)
            continue
        info[part] = i
        part_files[part] = sorted(files)
        for name, src in files.items():
            path = os.path.join(GEN, name)
            old = open(path).read() if os.path.exists(path) else None
            if old != src:
                with open(path, "w") as f:
                    f.write(src)
    if json.dumps(part_files, sort_keys=True) != before:
        with open(side, "w") as f:
            json.dump(part_files, f, indent=1, sort_keys=True)
    if failed:
        info["failed"] = failed
        info["failed_files"] = failed_files
    print(json.dumps(info))

if __name__ == "__main__":
    try:
        main()
    except Exception as e:
        print(f"translate.py: cannot translate: {type(e).__name__}: {e}")
        sys.exit(1)
