#!/usr/bin/env python3
"""translate.py — regenerate lean/EG/Generated/*.lean from /repo's current sources.

Each part lives in its own module tools/tr_<part>.py exposing
    generate(repo: str) -> (dict[str filename -> str lean source], dict info)
and raises an exception when a construct it expects cannot be parsed (a broken tie, never a
silently smaller table). Files are rewritten only when their content changed so that `lake build`
stays incremental. The last stdout line is a JSON object with what was seen (counts per table).
"""
import importlib, json, os, sys
V = os.path.dirname(os.path.dirname(os.path.abspath(__file__)))
REPO = os.environ.get("EG_REPO", "/repo")
GEN = os.path.join(V, "lean", "EG", "Generated")
sys.path.insert(0, os.path.join(V, "tools"))

def main():
    os.makedirs(GEN, exist_ok=True)
    info = {}
    parts = sorted(f[:-3] for f in os.listdir(os.path.join(V, "tools")) if f.startswith("tr_") and f.endswith(".py"))
    for part in parts:
        mod = importlib.import_module(part)
        files, i = mod.generate(REPO)
        info[part] = i
        for name, src in files.items():
            path = os.path.join(GEN, name)
            old = open(path).read() if os.path.exists(path) else None
            if old != src:
                with open(path, "w") as f:
                    f.write(src)
    print(json.dumps(info))

if __name__ == "__main__":
    try:
        main()
    except Exception as e:
        print(f"translate.py: cannot translate: {type(e).__name__}: {e}")
        sys.exit(1)
