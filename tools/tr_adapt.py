#!/usr/bin/env python3
"""tr_adapt.py — SOURCE-TO-LEAN translator for the DRAW-TARGET ADAPTERS and the TRAIT DEFAULTS of `DrawTarget`
(C03: clipped / cropped / translated / converted targets and trait defaults are exact; C04: errors propagate
unchanged through all adapters).

It reads, from /repo's current working tree,
  src/draw_target/{translated,clipped,cropped,color_converted}.rs   the four adapter structs, their `new`, their
                                                                    `DrawTarget` / `Dimensions` / `OriginDimensions` impls
  src/draw_target/mod.rs                                            `impl<T> DrawTargetExt for T` (the four constructors)
  core/src/draw_target/mod.rs                                       `trait DrawTarget`: default `fill_contiguous`, `fill_solid`, `clear`
  core/src/geometry/mod.rs                                          `impl<T: OriginDimensions> Dimensions for T` (`Cropped`'s box)
  src/iterator/mod.rs, src/iterator/pixel.rs                        `PixelIteratorExt::translated`, `pixel::Translated::{new, next}`
  src/iterator/contiguous.rs                                        `Cropped::{new, next}` (the colour iterator of `Clipped::fill_contiguous`)
and writes EG/Generated/AdaptSrc.lean: one Lean `def` per Rust function, mirroring the Rust text.

What a translated method IS. The adapter methods are generic over the parent `T: DrawTarget` and return
`Result<(), T::Error>`; the only thing such a body can do with the parent is call it. A method body is
translated into a Lean function from the adapter's fields and the call's arguments to THE PARENT CALL IT MAKES: a
value of the hand model's `EG.Call`. A target of the generic type `T` is represented by its `bounding_box()` (type
`DrawTargetT` of the prelude: the only other thing the bodies read from a parent), a call of one of the four
`DrawTarget` methods on such a target is the `Call` value itself (`DrawTargetT_draw_iter` ...), a call on a
field whose type is another ADAPTER (`Cropped.parent : Translated`) is a call of that adapter's generated method.
Methods an adapter does not override (`Clipped::clear`, `Cropped::clear`) are the trait's default bodies
re-translated with `Self` := the adapter (exactly what the compiler does).

Besides the value, the translator CHECKS THE SHAPE of every `Result`-returning body and writes it into the
generated table `adapterMethodShapes`: on every control-flow path there is exactly one parent call (otherwise the
translation fails), `tail` = that call is the tail expression of the function (nothing is evaluated after it),
`bare` = nothing is applied to its `Result` (no `?`, `.ok()`, `.unwrap..()`, `.map_err(..)`, `.or(..)`,
no `let _ = ..` / `let r = ..` binding) so the parent's `Result` IS the method's. The theorem
`all_adapter_methods_are_tail_calls` decides the table.

Everything semantic lives in the hand-written prelude EG/Model/AdaptSrcPrelude.lean (iterators = the finite list of
their items, `Rectangle`'s methods = the hand model's, `core::iter::repeat` = explicit fuel). Iterator adapters
defined in the crate (`pixel::Translated`) are recognised by the shape of their `next`
(`self.iter.next().map(F)`), the item function `F` is translated. The colour iterator of `Clipped::fill_contiguous`,
`iterator::contiguous::Cropped` (src/iterator/contiguous.rs), is translated STATEFULLY: `new` (with its `mut iter`
parameter) and `Iterator::next(&mut self)` become functions that rebind `iter` / return (value, updated self); field
assignments, `iter.nth(k);`, `self.iter.next()`, early `return` and statement-position `if` are handled by copying the
continuation into the arms (`st_seq`). Where such an iterator is passed on it is collected on explicit `fuel`.

REUSES tools/tr_rect.py: tokenizer, `Cursor`, `parse_type`, `parse_fn`, `BodyParser` (subclassed for pattern
closure parameters and `?`; tr_rect's module-level name `BodyParser` is rebound to the subclass only while this
part parses, because tr_rect's parser creates its sub-parsers through that name), `failed_file` convention.
Any construct that is not known raises (never skipped); `generate` then writes an AdaptSrc.lean that only contains
`def translationFailed`.
"""
import contextlib
import os
import re

import tr_rect
from tr_rect import RectTrError as TrError, Cursor, tokenize, strip_comments, parse_type, parse_fn, Program, skip_attrs_and_vis

FILES = {
    "translated": "src/draw_target/translated.rs",
    "clipped": "src/draw_target/clipped.rs",
    "cropped": "src/draw_target/cropped.rs",
    "color_converted": "src/draw_target/color_converted.rs",
    "dt_mod": "src/draw_target/mod.rs",
    "core_dt": "core/src/draw_target/mod.rs",
    "core_geom": "core/src/geometry/mod.rs",
    "iter_mod": "src/iterator/mod.rs",
    "iter_pixel": "src/iterator/pixel.rs",
    "iter_contig": "src/iterator/contiguous.rs",
}
ADAPTERS = ["Translated", "Clipped", "Cropped", "ColorConverted"]
ADAPTER_FILE = {"Translated": "translated", "Clipped": "clipped", "Cropped": "cropped", "ColorConverted": "color_converted"}
DT_METHODS = ["draw_iter", "fill_contiguous", "fill_solid", "clear"]
EXT_METHODS = {"translated": "Translated", "cropped": "Cropped", "clipped": "Clipped", "color_converted": "ColorConverted"}
# wrappers that may be applied to a `Result`: seen = the parent's result is not returned as it is
RESULT_WRAPPERS = {"ok", "err", "unwrap", "unwrap_or", "unwrap_or_default", "unwrap_or_else", "expect", "map_err", "or",
                   "or_else", "and", "and_then", "map", "is_ok", "is_err"}


# ---------------------------------------------------------------------------------------------------------------
# parser extension
# ---------------------------------------------------------------------------------------------------------------

class AdaptBodyParser(tr_rect.BodyParser):
    """closure parameters may be patterns (`|Pixel(p, _)|`, `|(pos, color)|`); `e?` is parsed (node `try`) so that
    the shape check can report it instead of the parser refusing the file."""

    def parse_closure(self):
        c = self.c
        t = c.next()
        if t.text == "move":
            t = c.next()
        params = []
        if t.text == "|":
            while not c.at("|"):
                p = self.parse_pattern1()
                if c.at(":"):
                    self.fail("closure parameter type annotations not supported")
                params.append(p)
                if c.at(","):
                    c.next()
            c.next()
        body = self.parse_expr()
        return ("closure", t.line, params, body)

    def parse_postfix_from(self, e, nostruct):
        """copy of tr_rect.BodyParser.parse_postfix_from with `?` accepted (node `try`)"""
        c = self.c
        while True:
            if c.at("?"):
                q = c.next()
                e = ("try", q.line, e)
                continue
            if c.at("["):
                self.fail("indexing not supported")
            if c.at("("):
                t = c.peek()
                e = ("callexpr", t.line, e, self.parse_args())
                continue
            if c.at("."):
                if c.peek(1) is not None and c.peek(1).kind == "int":
                    self.fail("tuple field access not supported")
                if c.at("await", 1):
                    self.fail("await")
                d = c.next()
                name = c.ident()
                turbofish = None
                if c.at("::"):
                    c.next()
                    c.expect("<")
                    turbofish = parse_type(c)
                    c.expect(">")
                if c.at("("):
                    e = ("mcall", d.line, e, name, turbofish, self.parse_args())
                else:
                    if turbofish is not None:
                        self.fail("turbofish without a call")
                    e = ("field", d.line, e, name)
                continue
            return e


@contextlib.contextmanager
def adapt_parser():
    old = tr_rect.BodyParser
    tr_rect.BodyParser = AdaptBodyParser
    try:
        yield
    finally:
        tr_rect.BodyParser = old


# ---------------------------------------------------------------------------------------------------------------
# item scanner (generic impls, traits with default bodies, generic structs: what tr_rect's scanner skips)
# ---------------------------------------------------------------------------------------------------------------

class Src:
    def __init__(self):
        self.structs = {}    # (tag, name) -> [(field, type)]
        self.fns = {}        # (tag, impl type, trait, name) -> Fn   (+ .sig = text of the signature, .impl_head)
        self.impls = []      # (tag, impl type, trait, header text, [fn names])
        self.uses = {}       # tag -> text of all `use` items


def skip_generics(c):
    if c.at("<"):
        depth = 0
        while True:
            t = c.next()
            if t.text == "<":
                depth += 1
            elif t.text == ">":
                depth -= 1
                if depth == 0:
                    return


def scan_fns(c, src, tag, rel, impl_type, trait, head):
    names = []
    while not c.eof():
        skip_attrs_and_vis(c)
        if c.eof():
            break
        t = c.peek()
        if t.kind == "id" and t.text == "const" and c.at("fn", 1):
            c.next()
            continue
        if t.kind == "id" and t.text in ("unsafe", "async", "extern", "default") and c.at("fn", 1):
            raise TrError(f"{rel}:{t.line}: `{t.text} fn` inside an impl/trait is not known to the translator")
        if c.at("type"):
            while not c.at(";"):
                c.next()
            c.next()
            continue
        if c.at("const") and not c.at("fn", 1):
            while not c.at(";"):
                c.next()
            c.next()
            continue
        if not c.at("fn"):
            raise TrError(f"{rel}:{t.line}: item starting with `{t.text}` inside an impl/trait is not known to the translator")
        c.next()
        start = c.i
        prog = Program()
        parse_fn(c, prog, impl_type, trait, rel)
        (f,) = prog.fns.values()
        end = f.body[1] if f.body else c.i
        f.sig = " ".join(x.text for x in c.t[start:end])
        f.impl_head = head
        f.tag = tag
        k = (tag, impl_type, trait, f.name)
        if k in src.fns:
            raise TrError(f"{rel}: function {k} defined twice")
        src.fns[k] = f
        names.append(f.name)
    return names


def scan_items(c, src, tag, rel):
    uses = []
    while not c.eof():
        skip_attrs_and_vis(c)
        if c.eof():
            break
        t = c.peek()
        if t.kind != "id":
            raise TrError(f"{rel}:{t.line}: unexpected token {t.text!r} where an item should start")
        kw = t.text
        if kw == "use":
            start = c.i
            while not c.at(";"):
                c.next()
            uses.append("".join(x.text for x in c.t[start:c.i]))
            c.next()
        elif kw in ("type", "const", "static") and not c.at("fn", 1):
            while not c.at(";"):
                if c.at("{"):
                    c.skip_balanced("{", "}")
                else:
                    c.next()
            c.next()
        elif kw == "mod":
            c.next()
            c.ident()
            if c.at(";"):
                c.next()
            else:
                c.skip_balanced("{", "}")     # `#[cfg(test)] mod tests`
        elif kw == "fn" or (kw in ("const", "unsafe") and c.at("fn", 1)):
            # free functions are not part of this translation; skip their text
            while not (c.at("{") or c.at(";")):
                if c.at("("):
                    c.skip_balanced("(", ")")
                else:
                    c.next()
            if c.at(";"):
                c.next()
            else:
                c.skip_balanced("{", "}")
        elif kw in ("enum", "macro_rules", "union"):
            while not (c.at("{") or c.at(";") or c.at("(")):
                c.next()
            if c.at("("):
                c.skip_balanced("(", ")")
            elif c.at("{"):
                c.skip_balanced("{", "}")
            if c.at(";"):
                c.next()
        elif kw == "struct":
            c.next()
            name = c.ident()
            skip_generics(c)
            while not (c.at("{") or c.at(";") or c.at("(")):
                c.next()        # where clause
            if not c.at("{"):
                if c.at("("):
                    c.skip_balanced("(", ")")
                while not c.at(";"):
                    c.next()
                c.next()
                src.structs[(tag, name)] = None      # tuple / unit struct
                continue
            s, e = c.skip_balanced("{", "}")
            fc = Cursor(c.t, s, e)
            fields = []
            while not fc.eof():
                skip_attrs_and_vis(fc)
                if fc.eof():
                    break
                fname = fc.ident()
                fc.expect(":")
                try:
                    fields.append((fname, parse_type(fc)))
                except TrError:
                    fields.append((fname, "?"))
                    depth = 0
                    while not fc.eof() and not (depth == 0 and fc.at(",")):
                        if fc.at("<") or fc.at("(") or fc.at("["):
                            depth += 1
                        elif fc.at(">") or fc.at(")") or fc.at("]"):
                            depth -= 1
                        fc.next()
                if fc.at(","):
                    fc.next()
            src.structs[(tag, name)] = fields
        elif kw == "trait":
            c.next()
            name = c.ident()
            start = c.i
            while not c.at("{"):
                c.next()
            head = " ".join(x.text for x in c.t[start:c.i])
            s, e = c.skip_balanced("{", "}")
            names = scan_fns(Cursor(c.t, s, e), src, tag, rel, None, name, head)
            src.impls.append((tag, None, name, head, names))
        elif kw == "impl":
            c.next()
            skip_generics(c)
            start = c.i
            while not c.at("{"):
                c.next()
            texts = [x.text for x in c.t[start:c.i]]
            head = " ".join(texts)
            if "where" in texts:
                texts = texts[:texts.index("where")]

            def base(ts):
                # last path segment before any generic arguments
                out = []
                for x in ts:
                    if x == "<":
                        break
                    out.append(x)
                return [x for x in out if x != "::"][-1] if out else "?"
            if "for" in texts:
                k = texts.index("for")
                tr, ty = base(texts[:k]), base(texts[k + 1:])
            else:
                tr, ty = None, base(texts)
            s, e = c.skip_balanced("{", "}")
            names = scan_fns(Cursor(c.t, s, e), src, tag, rel, ty, tr, head)
            src.impls.append((tag, ty, tr, head, names))
        else:
            raise TrError(f"{rel}:{t.line}: item starting with `{kw}` is not known to the translator")
    src.uses[tag] = " ".join(uses)


def load(repo):
    src = Src()
    for tag, rel in FILES.items():
        path = os.path.join(repo, rel)
        if not os.path.exists(path):
            raise TrError(f"{rel}: file not found")
        text = strip_comments(open(path, encoding="utf-8").read(), rel)
        scan_items(Cursor(tokenize(text, rel)), src, tag, rel)
    return src


# ---------------------------------------------------------------------------------------------------------------
# translation
# ---------------------------------------------------------------------------------------------------------------
# types: "Rectangle" "Point" "Size" "Color" "Pixel" "Target" "Call" "Bool" "PhantomData" adapter names
#        "pixel_Translated"  ("Iter", T)  ("Tuple", A, B)

LEAN_TY = {"Rectangle": "Rectangle", "Point": "Point", "Size": "Size", "Color": "Color", "Pixel": "Pixel",
           "Target": "DrawTargetT", "Call": "Call", "Bool": "Bool", "PhantomData": "PhantomData",
           "u32": "Nat", "usize": "Nat", "i32": "Int"}
SCALARS = ("u32", "usize", "i32")
SCALAR_LEAN = {"u32": "Nat", "usize": "Nat", "i32": "Int"}
ARITH = {"+": "add", "-": "sub", "*": "mul", "/": "div"}
CMP = {"==": "eq", "!=": "ne", "<": "lt", ">": "gt", "<=": "le", ">=": "ge"}

RECT_METHODS = {  # method -> (prelude name, [param types], result type)
    "intersection": ("Rectangle_intersection", ["Rectangle"], "Rectangle"),
    "translate": ("Rectangle_translate", ["Point"], "Rectangle"),
    "contains": ("Rectangle_contains", ["Point"], "Bool"),
    "points": ("Rectangle_points", [], ("Iter", "Point")),
}
RECT_FIELDS = {"top_left": "Point", "size": "Size"}


def lean_ty(t):
    if isinstance(t, tuple):
        if t[0] == "Iter":
            return f"List {lean_ty_atom(t[1])}"
        if t[0] == "Tuple":
            return f"{lean_ty_atom(t[1])} × {lean_ty_atom(t[2])}"
        if t[0] == "Option":
            return f"Option {lean_ty_atom(t[1])}"
    return LEAN_TY.get(t, t)


def lean_ty_atom(t):
    s = lean_ty(t)
    return f"({s})" if " " in s else s


class Shape:
    def __init__(self):
        self.tail = True
        self.bare = True
        self.paths = 0


class AdaptTranslator:
    def __init__(self, src):
        self.src = src
        self.out = []            # emitted Lean texts in dependency order
        self.done = {}           # lean name -> (param types, result type, needs fuel, needs into)
        self.busy = set()
        self.shapes = []         # (adapter, method, overridden, tail, bare, paths)
        self.translated_keys = set()
        self.var_n = 0

    # ---- source lookup
    def fn(self, tag, impl_type, trait, name, where):
        f = self.src.fns.get((tag, impl_type, trait, name))
        if f is None:
            raise TrError(f"{where}: function {impl_type or ''}{'::' if impl_type else ''}{name} "
                          f"(impl of {trait}) not found in {FILES[tag]}")
        if f.body is None:
            raise TrError(f"{where}: {FILES[tag]}: fn {name} has no body")
        return f

    def struct_fields(self, sname):
        """fields of an adapter struct / pixel_Translated as [(name, type)]"""
        if sname == "pixel_Translated":
            tag, nm = "iter_pixel", "Translated"
        elif sname == "contiguous_Cropped":
            tag, nm = "iter_contig", "Cropped"
        else:
            tag, nm = ADAPTER_FILE[sname], sname
        fields = self.src.structs.get((tag, nm))
        if not fields:
            raise TrError(f"{FILES[tag]}: struct {nm} not found or not a braced struct")
        out = []
        for (fname, ft) in fields:
            out.append((fname, self.norm(ft, tag, sname, None, f"{FILES[tag]}: struct {nm}.{fname}")))
        return out

    def norm(self, t, tag, self_type, f, where):
        """Rust type (as parsed) -> translator type."""
        if isinstance(t, tuple) and t[0] == "refmut":
            return self.norm(t[1], tag, self_type, f, where)
        if isinstance(t, tuple) and t[0] == "tuple":
            if len(t[1]) == 2:
                return ("Tuple", self.norm(t[1][0], tag, self_type, f, where), self.norm(t[1][1], tag, self_type, f, where))
            raise TrError(f"{where}: tuple type of {len(t[1])} items not supported")
        name = t if isinstance(t, str) else t[0]
        if name in ("Rectangle", "Point", "Size", "u32", "usize", "i32"):
            return name
        if name == "bool":
            return "Bool"
        if name == "Option" and not isinstance(t, str) and len(t[1]) == 1:
            return ("Option", self.norm(t[1][0], tag, self_type, f, where))
        if name in ("Item", "Self::Item") and tag == "iter_contig":
            return "Color"
        if name == "I" and tag == "iter_contig":
            return ("Iter", "Color")
        if name in ("Self::Color", "T::Color", "C"):
            return "Color"
        if name == "Pixel":
            return "Pixel"
        if name == "PhantomData":
            return "PhantomData"
        if name == "Self":
            return self_type
        if name == "T":
            return "Target"
        if name == "Result":
            return "Call"
        if name == "I":
            if tag == "iter_pixel":
                return ("Iter", "Pixel")
            sig = f.sig if f is not None else ""
            m = re.search(r"I : IntoIterator < Item = (Pixel < Self :: Color >|Self :: Color) >", sig)
            if not m:
                raise TrError(f"{where}: the bound of the iterator type `I` is not `IntoIterator<Item = Pixel<Self::Color>>` / `<Item = Self::Color>`")
            return ("Iter", "Pixel" if m.group(1).startswith("Pixel") else "Color")
        if name in ADAPTERS and tag in ("translated", "clipped", "cropped", "color_converted", "dt_mod"):
            return name
        if name == "Translated" and tag in ("iter_mod", "iter_pixel"):
            return "pixel_Translated"
        raise TrError(f"{where}: type `{tr_rect.type_str(t)}` is not known to the translator")

    # ---- functions
    def need(self, tag, impl_type, trait, name, self_type, lean_name, where, kind="value"):
        """translate (once) the Rust fn and return its Lean signature info."""
        if lean_name in self.done:
            return self.done[lean_name]
        if lean_name in self.busy:
            raise TrError(f"{where}: recursion through {lean_name}")
        self.busy.add(lean_name)
        f = self.fn(tag, impl_type, trait, name, where)
        info = self.translate_fn(f, tag, self_type, lean_name, kind)
        self.busy.discard(lean_name)
        self.done[lean_name] = info
        self.translated_keys.add((tag, impl_type, trait, name))
        return info

    def need_method(self, recv_type, name, where):
        """DrawTarget / Dimensions method of an adapter type -> generated function info and name."""
        lean_name = f"{recv_type}_{name}"
        if lean_name in self.done:
            return lean_name, self.done[lean_name]
        tag = ADAPTER_FILE[recv_type]
        if name in DT_METHODS:
            if (tag, recv_type, "DrawTarget", name) in self.src.fns:
                info = self.need(tag, recv_type, "DrawTarget", name, recv_type, lean_name, where, kind="result")
                over = True
            else:
                # inherited: the trait's default body with Self := the adapter
                info = self.need("core_dt", None, "DrawTarget", name, recv_type, lean_name, where, kind="result")
                over = False
            for s in self.shapes:
                if s[0] == lean_name:
                    s[1:4] = [recv_type, name, over]
            return lean_name, info
        if name == "bounding_box":
            if (tag, recv_type, "Dimensions", name) in self.src.fns:
                return lean_name, self.need(tag, recv_type, "Dimensions", name, recv_type, lean_name, where)
            if (tag, recv_type, "OriginDimensions", "size") in self.src.fns:
                # blanket `impl<T> Dimensions for T where T: OriginDimensions` of core/src/geometry/mod.rs
                f = self.src.fns.get(("core_geom", "T", "Dimensions", "bounding_box"))
                if f is None or "T : OriginDimensions" not in f.impl_head:
                    raise TrError(f"{where}: the blanket `impl<T: OriginDimensions> Dimensions for T` was not found in {FILES['core_geom']}")
                return lean_name, self.need("core_geom", "T", "Dimensions", name, recv_type, lean_name, where)
            raise TrError(f"{where}: {recv_type} implements neither Dimensions nor OriginDimensions")
        if name == "size" and (tag, recv_type, "OriginDimensions", "size") in self.src.fns:
            lean_name = f"{recv_type}_size"
            return lean_name, self.need(tag, recv_type, "OriginDimensions", name, recv_type, lean_name, where)
        raise TrError(f"{where}: method `{name}` on {recv_type} is not known to the translator")

    def translate_fn(self, f, tag, self_type, lean_name, kind):
        where = f"{f.rel}: fn {f.name}"
        toks, s, e = f.body
        with adapt_parser():
            stmts, tail = AdaptBodyParser(toks, s, e, where).parse_block_body()
        env = {}
        binders = []
        if f.self_kind is not None:
            if self_type is None:
                raise TrError(f"{where}: `self` outside an impl")
            env["self"] = self_type
            binders.append(("self", self_type))
        for (pn, pt) in f.params:
            t = self.norm(pt, tag, self_type, f, where)
            env[pn] = t
            binders.append((pn, t))
        ret = self.norm(f.ret, tag, self_type, f, where) if f.ret != "unit" else "unit"
        ctx = {"where": where, "tag": tag, "self_type": self_type, "fuel": False, "into": False,
               "into_ok": "Into <" in f.impl_head or "Into <" in f.sig, "f": f}
        if kind == "result":
            if ret != "Call":
                raise TrError(f"{where}: expected to return a `Result`")
            shape = Shape()
            body = self.result_block(stmts, tail, env, ctx, shape, True, "  ")
            self.shapes.append([lean_name, self_type, f.name, True, shape.tail, shape.bare, shape.paths])
            rt = "Call"
        elif kind == "stateful":
            # a `&mut self` method returning a value becomes (value, updated self); locals and `mut` parameters are
            # rebound (`let iter := ..`); early `return` / statement `if` by copying the continuation into the arms
            ctx["mut_self"] = f.self_kind == "refmut"
            ctx["ret"] = ret
            items = [("stmt", st) for st in stmts] + ([("tail", tail)] if tail is not None else [])
            body = self.st_seq(items, env, ctx, "  ")
            rt = ("Tuple", ret, self_type) if ctx["mut_self"] else ret
        else:
            if ret in ("Call", "unit"):
                raise TrError(f"{where}: return type not supported here")
            body, rt = self.block(stmts, tail, env, ctx, "  ")
            if rt != ret:
                raise TrError(f"{where}: body has type {rt} but the signature says {ret}")
        pre = []
        if ctx["fuel"]:
            pre.append("(fuel : Nat)")
        if ctx["into"]:
            pre.append("(C_into : Color → Color)")
        bs = " ".join(pre + [f"({lvar(n)} : {lean_ty(t)})" for (n, t) in binders])
        doc = f"/-- `{(f.impl_type + '::') if f.impl_type else ''}{f.name}` of {f.rel}" + \
              (f" ({'impl ' + f.trait if f.impl_type else 'default body of trait ' + f.trait}" +
               (f", `Self` := {lean_ty(self_type)}" if self_type not in (f.impl_type, None) else "") + ")" if f.trait else "") + " -/"
        self.out.append(f"{doc}\ndef {lean_name} {bs} : {lean_ty(rt)} :=\n{body}\n")
        return ([t for (_, t) in binders], rt, ctx["fuel"], ctx["into"])

    def call_text(self, lean_name, info, args, ctx):
        pre = []
        if info[2]:
            ctx["fuel"] = True
            pre.append("fuel")
        if info[3]:
            if not ctx["into_ok"]:
                raise TrError(f"{ctx['where']}: call of {lean_name} needs an `Into` conversion that the caller does not have")
            ctx["into"] = True
            pre.append("C_into")
        return "(" + " ".join([lean_name] + pre + args) + ")"

    # ---- blocks
    def lets(self, stmts, env, ctx, ind, on_stmt=None):
        """translate leading statements; returns (text, env). Only `let name = e;` is a plain statement."""
        lines = []
        env = dict(env)
        for i, st in enumerate(stmts):
            if on_stmt is not None:
                r = on_stmt(i, st, env)
                if r == "stop":
                    break
                if r == "skip":
                    continue
            if st[0] == "expr":
                raise TrError(f"{ctx['where']}: line {st[1]}: a statement-position `{st[2][0]}` expression is not supported "
                              f"(an early `return`, a loop, a dropped value: every path must end in the parent call)")
            if st[0] != "let":
                raise TrError(f"{ctx['where']}: line {st[1]}: statement `{st[0]}` is not supported")
            _, line, pat, ty, e, mut = st
            if mut:
                raise TrError(f"{ctx['where']}: line {line}: `let mut` not supported")
            if pat[0] != "pbind":
                raise TrError(f"{ctx['where']}: line {line}: only `let name = ..` is supported")
            txt, t = self.expr(e, env, ctx, ind + "  ")
            lines.append(f"{ind}let {lvar(pat[2])} := {txt};")
            env[pat[2]] = t
        return lines, env

    def block(self, stmts, tail, env, ctx, ind):
        lines, env = self.lets(stmts, env, ctx, ind)
        if tail is None:
            raise TrError(f"{ctx['where']}: block without a value")
        txt, t = self.expr(tail, env, ctx, ind + "  ")
        return "\n".join(lines + [f"{ind}{txt}"]), t

    # ---- stateful bodies (`iterator::contiguous::Cropped::{new, next}`)
    def st_finish(self, vtxt, vt, ctx, where):
        ret = ctx["ret"]
        if vt != ret and not (isinstance(ret, tuple) and ret[0] == "Option" and vt == ("Option", "?")):
            raise TrError(f"{where}: value of type {vt} where the function returns {ret}")
        return f"({vtxt}, self)" if ctx["mut_self"] else vtxt

    def iter_place(self, e, env, ctx):
        """`iter` (a local / parameter) or `self.iter`: (kind, name, read text) when its type is an iterator."""
        while e[0] in ("paren", "ref", "deref"):
            e = e[2]
        if e[0] == "path" and len(e[2]) == 1 and e[2][0] != "self" and isinstance(env.get(e[2][0]), tuple) \
                and env[e[2][0]][0] == "Iter":
            return ("local", e[2][0], lvar(e[2][0]), env[e[2][0]])
        if e[0] == "field" and e[2][0] == "path" and e[2][2] == ["self"] and ctx.get("mut_self"):
            st = env["self"]
            ft = dict(self.struct_fields(st)).get(e[3])
            if isinstance(ft, tuple) and ft[0] == "Iter":
                return ("self", e[3], f"({st}.{e[3]} self)", ft)
        return None

    def iter_mut_call(self, e, env, ctx, ind):
        """`<place>.next()` / `<place>.nth(n)`: (place, text of the (item, rest) pair, item type) or None"""
        if e[0] != "mcall" or e[3] not in ("next", "nth"):
            return None
        pl = self.iter_place(e[2], env, ctx)
        if pl is None:
            return None
        where = f"{ctx['where']}: line {e[1]}"
        if e[3] == "next":
            self.args(e[5], [], env, ctx, ind, where)
            return pl, f"(listiter_next {pl[2]})", ("Option", pl[3][1])
        if len(e[5]) != 1:
            raise TrError(f"{where}: `nth` with {len(e[5])} arguments")
        ntxt, nt = self.expr(e[5][0], env, ctx, ind, want="usize")
        if nt != "usize":
            raise TrError(f"{where}: `nth` of a value of type {nt}")
        return pl, f"(listiter_nth {pl[2]} {ntxt})", ("Option", pl[3][1])

    def st_rebind(self, pl, pair_snd, env):
        if pl[0] == "local":
            return f"let {pl[2]} := {pair_snd};"
        return f"let self := {{ self with {pl[1]} := {pair_snd} }};"

    def st_seq(self, items, env, ctx, ind):
        if not items:
            raise TrError(f"{ctx['where']}: a path of the body ends without a value")
        kind, x = items[0]
        rest = items[1:]
        if kind == "tail":
            e = x
            while e[0] == "paren":
                e = e[2]
            where = f"{ctx['where']}: line {e[1]}"
            if rest:
                raise TrError(f"{where}: code after the value of a block")
            if e[0] == "if":
                _, line, cond, then, els = e
                if els is None:
                    raise TrError(f"{where}: `if` without `else` as a value")
                ctxt, ct = self.expr(cond, env, ctx, ind + "  ")
                if ct != "Bool":
                    raise TrError(f"{where}: condition of type {ct}")
                a = self.st_seq([("stmt", st) for st in then[2]] + ([("tail", then[3])] if then[3] is not None else []), env, ctx, ind + "  ")
                b = self.st_seq([("stmt", st) for st in els[2]] + ([("tail", els[3])] if els[3] is not None else []), env, ctx, ind + "  ")
                return f"{ind}if {ctxt} then\n{a}\n{ind}else\n{b}"
            if e[0] == "block":
                return self.st_seq([("stmt", st) for st in e[2]] + ([("tail", e[3])] if e[3] is not None else []), env, ctx, ind)
            if e[0] == "return":
                if e[2] is None:
                    raise TrError(f"{where}: `return` without a value")
                return self.st_seq([("tail", e[2])], env, ctx, ind)
            mc = self.iter_mut_call(e, env, ctx, ind)
            if mc is not None:
                pl, pair, vt = mc
                return (f"{ind}let r' := {pair};\n{ind}{self.st_rebind(pl, chr(114) + chr(39) + '.2', env)}\n"
                        f"{ind}{self.st_finish(chr(114) + chr(39) + '.1', vt, ctx, where)}")
            vtxt, vt = self.expr(e, env, ctx, ind + "  ", want=ctx["ret"])
            return f"{ind}{self.st_finish(vtxt, vt, ctx, where)}"
        st = x
        where = f"{ctx['where']}: line {st[1]}"
        if st[0] == "let":
            _, line, pat, ty, e, mut = st
            if pat[0] != "pbind":
                raise TrError(f"{where}: only `let name = ..` is supported")
            if self.iter_mut_call(e, env, ctx, ind) is not None:
                raise TrError(f"{where}: `let` bound to a mutating iterator call is not supported")
            txt, t = self.expr(e, env, ctx, ind + "  ")
            env2 = dict(env)
            env2[pat[2]] = t
            return f"{ind}let {lvar(pat[2])} := {txt};\n" + self.st_seq(rest, env2, ctx, ind)
        if st[0] == "assign":
            _, line, op, lhs, rhs = st
            if not (lhs[0] == "field" and lhs[2][0] == "path" and lhs[2][2] == ["self"] and ctx["mut_self"]):
                raise TrError(f"{where}: assignment to something other than a field of `&mut self`")
            sname = env["self"]
            ft = dict(self.struct_fields(sname)).get(lhs[3])
            if ft not in SCALARS:
                raise TrError(f"{where}: assignment to field `{lhs[3]}` of type {ft}")
            rtxt, rt = self.expr(rhs, env, ctx, ind + "  ", want=ft)
            if rt != ft:
                raise TrError(f"{where}: assignment of a value of type {rt} to a field of type {ft}")
            if op == "=":
                v = rtxt
            elif op in ("+=", "-=", "*="):
                v = f"({ft}_{ARITH[op[0]]} ({sname}.{lhs[3]} self) {rtxt})"
            else:
                raise TrError(f"{where}: assignment operator `{op}` not supported")
            return f"{ind}let self := {{ self with {lhs[3]} := {v} }};\n" + self.st_seq(rest, env, ctx, ind)
        if st[0] == "expr":
            e = st[2]
            if e[0] == "return":
                if e[2] is None:
                    raise TrError(f"{where}: `return` without a value")
                return self.st_seq([("tail", e[2])], env, ctx, ind)
            if e[0] == "if":
                _, line, cond, then, els = e
                ctxt, ct = self.expr(cond, env, ctx, ind + "  ")
                if ct != "Bool":
                    raise TrError(f"{where}: condition of type {ct}")

                def as_stmts(blk):
                    if blk is None:
                        return []
                    return [("stmt", s_) for s_ in blk[2]] + ([("stmt", ("expr", blk[3][1], blk[3]))] if blk[3] is not None else [])
                a = self.st_seq(as_stmts(then) + rest, env, ctx, ind + "  ")
                b = self.st_seq(as_stmts(els) + rest, env, ctx, ind + "  ")
                return f"{ind}if {ctxt} then\n{a}\n{ind}else\n{b}"
            mc = self.iter_mut_call(e, env, ctx, ind)
            if mc is not None:
                pl, pair, vt = mc       # the item is dropped
                return f"{ind}{self.st_rebind(pl, pair + '.2', env)}\n" + self.st_seq(rest, env, ctx, ind)
            raise TrError(f"{where}: a statement-position `{e[0]}` expression is not supported")
        raise TrError(f"{where}: statement `{st[0]}` is not supported")

    # ---- `Result` bodies: the parent call and its shape
    def peel(self, e, shape):
        """strip what may be applied to a `Result`; anything stripped = not bare."""
        while True:
            if e[0] == "try":
                shape.bare = False
                e = e[2]
            elif e[0] == "mcall" and e[3] in RESULT_WRAPPERS and self.mentions_dt_call(e[2]):
                shape.bare = False
                e = e[2]
            elif e[0] == "paren":
                e = e[2]
            elif e[0] == "callexpr" and e[2][0] == "path" and e[2][2] in (["Ok"], ["Err"], ["Some"]) and len(e[3]) == 1 \
                    and self.mentions_dt_call(e[3][0]):
                shape.bare = False
                e = e[3][0]
            else:
                return e

    def mentions_dt_call(self, e):
        return any(n in DT_METHODS for n in mcall_names(e))

    def result_block(self, stmts, tail, env, ctx, shape, at_tail, ind):
        """returns the Lean text of the parent call made by this block (exactly one on every path)."""
        found = []      # [(text)] parent calls met in statement position

        def on_stmt(i, st, env_now):
            e = None
            if st[0] == "let" and self.mentions_dt_call(st[4]):
                e = st[4]
            elif st[0] == "expr" and self.mentions_dt_call(st[2]):
                e = st[2]
            if e is None:
                if found:
                    # work after the parent call: translate nothing, it cannot influence the call already made,
                    # but it must not contain another parent call (checked above) and the shape says so
                    return "skip"
                return None
            if found:
                raise TrError(f"{ctx['where']}: line {st[1]}: a second parent call on the same path")
            sub = Shape()
            core = self.peel(e, sub)
            txt = self.result_expr(core, env_now, ctx, sub, False, ind)
            shape.tail = False
            shape.bare = shape.bare and sub.bare and st[0] != "let"
            if st[0] == "let":
                shape.bare = False
            shape.paths += sub.paths
            found.append(txt)
            return "skip"

        lines, env2 = self.lets(stmts, env, ctx, ind, on_stmt)
        if found:
            if tail is not None and self.mentions_dt_call(tail):
                raise TrError(f"{ctx['where']}: a second parent call on the same path")
            return "\n".join(lines + [f"{ind}{found[0]}"])
        if tail is None:
            raise TrError(f"{ctx['where']}: a path of the body makes no parent call")
        core = self.peel(tail, shape)
        txt = self.result_expr(core, env2, ctx, shape, at_tail, ind)
        return "\n".join(lines + [f"{ind}{txt}"])

    def result_expr(self, e, env, ctx, shape, at_tail, ind):
        if e[0] == "if":
            _, line, cond, then, els = e
            if els is None:
                raise TrError(f"{ctx['where']}: line {line}: `if` without `else` as a `Result`")
            ctxt, ct = self.expr(cond, env, ctx, ind + "  ")
            if ct != "Bool":
                raise TrError(f"{ctx['where']}: line {line}: condition of type {ct}")
            a = self.result_block(then[2], then[3], env, ctx, shape, at_tail, ind + "  ")
            b = self.result_block(els[2], els[3], env, ctx, shape, at_tail, ind + "  ")
            return f"if {ctxt} then\n{a}\n{ind}else\n{b}"
        if e[0] == "block":
            return "(\n" + self.result_block(e[2], e[3], env, ctx, shape, at_tail, ind + "  ") + ")"
        if e[0] == "mcall":
            txt, t = self.expr(e, env, ctx, ind + "  ", allow_call=True)
            if t != "Call":
                raise TrError(f"{ctx['where']}: line {e[1]}: expression of type {t} where the parent call was expected")
            shape.paths += 1
            if not at_tail:
                shape.tail = False
            return txt
        raise TrError(f"{ctx['where']}: line {e[1]}: `{e[0]}` expression where the parent call was expected "
                      f"(a path that makes no parent call, e.g. `Ok(())`, is not a forwarding method)")

    # ---- expressions
    def expr(self, e, env, ctx, ind, allow_call=False, want=None):
        where = f"{ctx['where']}: line {e[1]}"
        k = e[0]
        if k in ("paren", "ref", "deref"):
            return self.expr(e[2], env, ctx, ind, allow_call, want)
        if k == "int":
            if want not in SCALARS:
                raise TrError(f"{where}: integer literal where its type is not known from the context")
            if e[3] is not None and e[3] != want:
                raise TrError(f"{where}: literal suffix `{e[3]}` where {want} is expected")
            return f"({e[2]} : {SCALAR_LEAN[want]})", want
        if k == "cast":
            txt, t = self.expr(e[2], env, ctx, ind)
            to = e[3]
            if (t, to) in (("i32", "usize"), ("u32", "usize")):
                return f"({t}_as_{to} {txt})", to
            raise TrError(f"{where}: cast from {t} to {tr_rect.type_str(to)} is not known to the translator")
        if k == "path":
            segs = e[2]
            if len(segs) == 1:
                if segs[0] in env:
                    return lvar(segs[0]), env[segs[0]]
                if segs[0] == "PhantomData":
                    return "PhantomData_mk", "PhantomData"
                if segs[0] == "None":
                    return "Option.none", (want if isinstance(want, tuple) and want[0] == "Option" else ("Option", "?"))
            raise TrError(f"{where}: name `{'::'.join(segs)}` is not known")
        if k == "field":
            rtxt, rt = self.expr(e[2], env, ctx, ind)
            fl = e[3]
            if rt == "Rectangle":
                if fl not in RECT_FIELDS:
                    raise TrError(f"{where}: Rectangle has no field `{fl}`")
                return f"(Rectangle_{fl} {rtxt})", RECT_FIELDS[fl]
            if rt == "Size" and fl in ("width", "height"):
                return f"(Size_{fl} {rtxt})", "u32"
            if rt == "Point" and fl in ("x", "y"):
                return f"(Point_{fl} {rtxt})", "i32"
            if rt in ADAPTERS or rt in ("pixel_Translated", "contiguous_Cropped"):
                for (fn_, ft) in self.struct_fields(rt):
                    if fn_ == fl:
                        return f"({rt}.{fl} {rtxt})", ft
                raise TrError(f"{where}: struct {rt} has no field `{fl}`")
            raise TrError(f"{where}: field `{fl}` of a value of type {rt}")
        if k == "neg":
            txt, t = self.expr(e[2], env, ctx, ind)
            if t != "Point":
                raise TrError(f"{where}: unary `-` on {t}")
            return f"(Point_neg {txt})", "Point"
        if k == "bin":
            _, line, op, l, r = e
            if l[0] == "int" and r[0] != "int":
                rt_, rtype = self.expr(r, env, ctx, ind)
                lt_, ltype = self.expr(l, env, ctx, ind, want=rtype)
            else:
                lt_, ltype = self.expr(l, env, ctx, ind, want=want if op in ARITH else None)
                rt_, rtype = self.expr(r, env, ctx, ind, want=ltype)
            if ltype == rtype and ltype in SCALARS:
                if op in ARITH:
                    return f"({ltype}_{ARITH[op]} {lt_} {rt_})", ltype
                if op in CMP:
                    return f"({ltype}_{CMP[op]} {lt_} {rt_})", "Bool"
            if ltype == rtype == "Bool" and op in ("||", "&&"):
                return f"(bool_{'or' if op == '||' else 'and'} {lt_} {rt_})", "Bool"
            if op == "==" and ltype == rtype == "Rectangle":
                return f"(Rectangle_eq {lt_} {rt_})", "Bool"
            if op == "!=" and ltype == rtype == "Rectangle":
                return f"(Rectangle_ne {lt_} {rt_})", "Bool"
            if op in ("+", "-") and ltype == rtype == "Point":
                return f"(Point_{'add' if op == '+' else 'sub'} {lt_} {rt_})", "Point"
            raise TrError(f"{where}: operator `{op}` on {ltype} and {rtype} is not known to the translator")
        if k == "struct":
            _, line, segs, fields, base = e
            sname = ctx["self_type"] if segs == ["Self"] else segs[-1]
            if segs != ["Self"] and len(segs) != 1:
                raise TrError(f"{where}: struct literal of `{'::'.join(segs)}`")
            if base is not None:
                raise TrError(f"{where}: struct base `..` not supported")
            if ctx["tag"] == "iter_pixel" and sname == "Translated":
                sname = "pixel_Translated"
            if ctx["tag"] == "iter_contig" and sname == "Cropped":
                sname = "contiguous_Cropped"
            decl = self.struct_fields(sname)
            if sorted(n for n, _ in fields) != sorted(n for n, _ in decl):
                raise TrError(f"{where}: struct literal of {sname} does not list exactly its fields")
            parts = []
            for (fn_, fe) in fields:
                want_t = dict(decl)[fn_]
                txt, t = self.expr(fe, env, ctx, ind, want=want_t)
                if t != want_t:
                    raise TrError(f"{where}: field `{fn_}` of {sname} has type {want_t}, got {t}")
                parts.append(f"{fn_} := {txt}")
            return "({ " + ", ".join(parts) + f" }} : {sname})", sname
        if k == "callexpr":
            return self.call(e, env, ctx, ind)
        if k == "mcall":
            return self.mcall(e, env, ctx, ind, allow_call)
        if k == "closure":
            raise TrError(f"{where}: closure outside `map` / `filter`")
        if k == "try":
            raise TrError(f"{where}: `?` outside the shape the translator knows (a parent call in statement or tail position)")
        raise TrError(f"{where}: `{k}` expression is not supported")

    def args(self, args, want, env, ctx, ind, where):
        if len(args) != len(want):
            raise TrError(f"{where}: {len(args)} arguments, {len(want)} expected")
        out = []
        for a, w in zip(args, want):
            txt, t = self.expr(a, env, ctx, ind)
            txt, t = self.coerce(txt, t, w, ctx, where)
            if t != w:
                raise TrError(f"{where}: argument of type {t} where {w} is expected")
            out.append(txt)
        return out

    def coerce(self, txt, t, want, ctx, where):
        """a value of a crate-defined iterator adapter used where an `IntoIterator` is expected: the list of its items,
        by the shape of its `next` (`self.iter.next().map(F)`)."""
        if t == "pixel_Translated" and want == ("Iter", "Pixel"):
            name = "pixel_Translated_next_item"
            if name not in self.done:
                self.translate_next_map(name, where)
            return f"(iter_of_next_map (pixel_Translated.iter {txt}) ({name} {txt}))", ("Iter", "Pixel")
        if t == "contiguous_Cropped" and want == ("Iter", "Color"):
            # a crate-defined iterator with a stateful `next`: the items it yields, on explicit fuel
            info = self.need("iter_contig", "Cropped", "Iterator", "next", "contiguous_Cropped", "contiguous_Cropped_next",
                             where, kind="stateful")
            if info[1] != ("Tuple", ("Option", "Color"), "contiguous_Cropped"):
                raise TrError(f"{where}: `Cropped::next` does not return `Option<colour>`")
            ctx["fuel"] = True
            return f"(iter_collect_fuel contiguous_Cropped_next fuel {txt})", ("Iter", "Color")
        return txt, t

    def translate_next_map(self, lean_name, where):
        f = self.fn("iter_pixel", "Translated", "Iterator", "next", where)
        w = f"{f.rel}: fn next"
        toks, s, e = f.body
        with adapt_parser():
            stmts, tail = AdaptBodyParser(toks, s, e, w).parse_block_body()
        ok = (not stmts and tail is not None and tail[0] == "mcall" and tail[3] == "map" and len(tail[5]) == 1
              and tail[5][0][0] == "closure" and tail[2][0] == "mcall" and tail[2][3] == "next" and not tail[2][5]
              and tail[2][2][0] == "field" and tail[2][2][3] == "iter" and tail[2][2][2] == ("path", tail[2][2][2][1], ["self"]))
        if not ok or f.self_kind != "refmut":
            raise TrError(f"{w}: the body is not `self.iter.next().map(|..| ..)` (the only iterator-adapter shape the translator knows)")
        env = {"self": "pixel_Translated"}
        ctx = {"where": w, "tag": "iter_pixel", "self_type": "pixel_Translated", "fuel": False, "into": False, "into_ok": False, "f": f}
        fields = dict(self.struct_fields("pixel_Translated"))
        if fields.get("iter") != ("Iter", "Pixel"):
            raise TrError(f"{w}: field `iter` of pixel::Translated is not the inner iterator")
        ctxt, rt = self.closure(tail[5][0], "Pixel", env, ctx, "  ")
        if rt != "Pixel":
            raise TrError(f"{w}: the mapped item has type {rt}, not Pixel")
        self.out.append(f"/-- item function of `Iterator::next` of `pixel::Translated` ({f.rel}): the body is\n"
                        f"`self.iter.next().map(F)`; this is `F` -/\n"
                        f"def {lean_name} (self : pixel_Translated) : Pixel → Pixel :=\n  {ctxt}\n")
        self.done[lean_name] = (["pixel_Translated"], "fn", False, False)
        self.translated_keys.add(("iter_pixel", "Translated", "Iterator", "next"))

    def closure(self, e, item_t, env, ctx, ind):
        _, line, params, body = e
        where = f"{ctx['where']}: line {line}"
        if len(params) != 1:
            raise TrError(f"{where}: closure with {len(params)} parameters")
        self.var_n += 1
        v = f"it{self.var_n}"
        env = dict(env)
        lets = []
        p = params[0]
        if p[0] == "pbind":
            env[p[2]] = item_t
            lets.append(f"let {lvar(p[2])} := {v};")
        elif p[0] == "pctor" and p[2] == ["Pixel"] and len(p[3]) == 2 and item_t == "Pixel":
            for i, (sub, st) in enumerate(zip(p[3], ("Point", "Color"))):
                if sub[0] == "pbind":
                    env[sub[2]] = st
                    lets.append(f"let {lvar(sub[2])} := Pixel_{i} {v};")
                elif sub[0] != "pwild":
                    raise TrError(f"{where}: nested pattern in a closure parameter")
        elif p[0] == "ptuple" and len(p[2]) == 2 and isinstance(item_t, tuple) and item_t[0] == "Tuple":
            for i, sub in enumerate(p[2]):
                if sub[0] == "pbind":
                    env[sub[2]] = item_t[1 + i]
                    lets.append(f"let {lvar(sub[2])} := tuple_{i} {v};")
                elif sub[0] != "pwild":
                    raise TrError(f"{where}: nested pattern in a closure parameter")
        elif p[0] == "pwild":
            pass
        else:
            raise TrError(f"{where}: closure parameter pattern `{p[0]}` does not fit an item of type {item_t}")
        txt, t = self.expr(body, env, ctx, ind)
        return f"(fun {v} => " + " ".join(lets) + f" {txt})", t

    def call(self, e, env, ctx, ind):
        _, line, fe, args = e
        where = f"{ctx['where']}: line {line}"
        if fe[0] != "path":
            raise TrError(f"{where}: call of a computed function")
        segs = fe[2]
        tag = ctx["tag"]
        if segs == ["Pixel"]:
            a = self.args(args, ["Point", "Color"], env, ctx, ind, where)
            return f"(Pixel_mk {a[0]} {a[1]})", "Pixel"
        if segs == ["Rectangle", "new"]:
            a = self.args(args, ["Point", "Size"], env, ctx, ind, where)
            return f"(Rectangle_new {a[0]} {a[1]})", "Rectangle"
        if segs == ["Point", "zero"]:
            self.args(args, [], env, ctx, ind, where)
            return "point_zero", "Point"
        if segs == ["core", "iter", "repeat"]:
            a = self.args(args, ["Color"], env, ctx, ind, where)
            ctx["fuel"] = True
            return f"(core_iter_repeat fuel {a[0]})", ("Iter", "Color")
        if segs == ["pixel", "Translated", "new"] and tag == "iter_mod":
            info = self.need("iter_pixel", "Translated", None, "new", "pixel_Translated", "pixel_Translated_new", where)
            a = self.args(args, info[0], env, ctx, ind, where)
            return self.call_text("pixel_Translated_new", info, a, ctx), info[1]
        if len(segs) == 2 and segs[1] == "new" and segs[0] == "Cropped" and tag == "clipped":
            if "iterator::contiguous::Cropped" not in self.src.uses[tag]:
                raise TrError(f"{where}: `Cropped` is not imported from `iterator::contiguous` in {FILES[tag]}")
            info = self.need("iter_contig", "Cropped", None, "new", "contiguous_Cropped", "contiguous_Cropped_new", where,
                             kind="stateful")
            a = self.args(args, info[0], env, ctx, ind, where)
            return self.call_text("contiguous_Cropped_new", info, a, ctx), info[1]
        if len(segs) == 2 and segs[1] == "new" and segs[0] in ADAPTERS and tag == "dt_mod":
            info = self.need(ADAPTER_FILE[segs[0]], segs[0], None, "new", segs[0], f"{segs[0]}_new", where)
            a = self.args(args, info[0], env, ctx, ind, where)
            return self.call_text(f"{segs[0]}_new", info, a, ctx), info[1]
        raise TrError(f"{where}: function `{'::'.join(segs)}` is not known to the translator")

    def mcall(self, e, env, ctx, ind, allow_call):
        _, line, recv, name, turbofish, args = e
        where = f"{ctx['where']}: line {line}"
        if turbofish is not None:
            raise TrError(f"{where}: turbofish not supported")
        rtxt, rt = self.expr(recv, env, ctx, ind)
        if rt == "Target" or rt in ADAPTERS:
            if name in DT_METHODS:
                if not allow_call:
                    raise TrError(f"{where}: a `DrawTarget` call whose `Result` is used as a value (argument, receiver, operand): "
                                  f"not a forwarding shape the translator knows")
                want = {"draw_iter": [("Iter", "Pixel")], "fill_contiguous": ["Rectangle", ("Iter", "Color")],
                        "fill_solid": ["Rectangle", "Color"], "clear": ["Color"]}[name]
                a = self.args(args, want, env, ctx, ind, where)
                if rt == "Target":
                    return "(" + " ".join([f"DrawTargetT_{name}", rtxt] + a) + ")", "Call"
                ln, info = self.need_method(rt, name, where)
                return self.call_text(ln, info, [rtxt] + a, ctx), "Call"
            if name == "bounding_box":
                self.args(args, [], env, ctx, ind, where)
                if rt == "Target":
                    return f"(DrawTargetT_bounding_box {rtxt})", "Rectangle"
                ln, info = self.need_method(rt, name, where)
                return self.call_text(ln, info, [rtxt], ctx), "Rectangle"
            if name == "size" and rt in ADAPTERS:
                self.args(args, [], env, ctx, ind, where)
                ln, info = self.need_method(rt, name, where)
                return self.call_text(ln, info, [rtxt], ctx), info[1]
            if name in EXT_METHODS and rt == "Target":
                ln = f"DrawTargetExt_{name}"
                info = self.need("dt_mod", "T", "DrawTargetExt", name, "Target", ln, where)
                a = self.args(args, info[0][1:], env, ctx, ind, where)
                return self.call_text(ln, info, [rtxt] + a, ctx), info[1]
            raise TrError(f"{where}: method `{name}` on a draw target is not known to the translator")
        if rt == "Rectangle":
            if name not in RECT_METHODS:
                raise TrError(f"{where}: method `{name}` on Rectangle is not known to the translator")
            pn, want, res = RECT_METHODS[name]
            a = self.args(args, want, env, ctx, ind, where)
            return "(" + " ".join([pn, rtxt] + a) + ")", res
        if rt == "u32":
            if name == "saturating_sub":
                a = self.args(args, ["u32"], env, ctx, ind, where)
                return f"(u32_saturating_sub {rtxt} {a[0]})", "u32"
            raise TrError(f"{where}: method `{name}` on u32 is not known to the translator")
        if rt == "Color":
            if name == "into" and not args:
                if not ctx["into_ok"]:
                    raise TrError(f"{where}: `.into()` on a colour in an impl without an `Into<..>` bound")
                ctx["into"] = True
                return f"(C_into {rtxt})", "Color"
            raise TrError(f"{where}: method `{name}` on a colour is not known to the translator")
        if isinstance(rt, tuple) and rt[0] == "Iter":
            item = rt[1]
            if name == "into_iter" and not args:
                return f"(into_iter {rtxt})", rt
            if name in ("map", "filter") and len(args) == 1 and args[0][0] == "closure":
                ctxt, ct = self.closure(args[0], item, env, ctx, ind)
                if name == "filter":
                    if ct != "Bool":
                        raise TrError(f"{where}: `filter` closure of type {ct}")
                    return f"(iter_filter {rtxt} {ctxt})", rt
                return f"(iter_map {rtxt} {ctxt})", ("Iter", ct)
            if name == "zip" and len(args) == 1:
                otxt, ot = self.expr(args[0], env, ctx, ind)
                if not (isinstance(ot, tuple) and ot[0] == "Iter"):
                    raise TrError(f"{where}: `zip` with a value of type {ot}")
                return f"(iter_zip {rtxt} (into_iter {otxt}))", ("Iter", ("Tuple", item, ot[1]))
            if name == "translated" and item == "Pixel":
                ln = "PixelIteratorExt_translated"
                info = self.need("iter_mod", "I", "PixelIteratorExt", "translated", ("Iter", "Pixel"), ln, where)
                a = self.args(args, info[0][1:], env, ctx, ind, where)
                return self.call_text(ln, info, [rtxt] + a, ctx), info[1]
            raise TrError(f"{where}: iterator method `{name}` is not known to the translator")
        raise TrError(f"{where}: method `{name}` on a value of type {rt} is not known to the translator")


def mcall_names(e):
    out = []

    def walk(n):
        if isinstance(n, tuple):
            if n and n[0] == "mcall":
                out.append(n[3])
            for x in n:
                walk(x)
        elif isinstance(n, list):
            for x in n:
                walk(x)
    walk(e)
    return out


def lvar(name):
    return name + "_" if name in tr_rect.LEAN_KEYWORDS else name


HEADER = """/-
  EG.Generated.AdaptSrc — GENERATED by tools/tr_adapt.py from /repo's current sources. Do not edit.

  One `def` per Rust function of the four draw-target adapters (src/draw_target/*.rs), of the `DrawTarget` trait's
  default methods (core/src/draw_target/mod.rs) and of the pixel / colour iterators they use (`pixel::Translated`,
  `iterator::contiguous::Cropped`), mirroring the Rust text.
  A `Result`-returning method is the parent call it makes (a value of `EG.Call`); `adapterMethodShapes` records for
  each of them that the call is the tail expression and that nothing is applied to its `Result`. Every Rust
  primitive is a function of the hand-written prelude EG/Model/AdaptSrcPrelude.lean. The theorems
  `<name>_src_eq_model` of EG/Props/C03/GeneratedAdapters.lean / GeneratedCroppedIter.lean prove these definitions equal
  to the hand model EG/Model/Adapters.lean / Target.lean / CroppedIter.lean for all inputs.
-/
import EG.Model.AdaptSrcPrelude
set_option linter.unusedVariables false
namespace EG.Generated.AdaptSrc
open EG EG.RectSrcPrelude EG.AdaptSrcPrelude

"""


def translate(repo):
    src = load(repo)
    tr = AdaptTranslator(src)
    structs = []
    for sname in ["pixel_Translated", "contiguous_Cropped", "Translated", "Clipped", "Cropped", "ColorConverted"]:
        fields = tr.struct_fields(sname)
        rust = {"pixel_Translated": "pixel::Translated", "contiguous_Cropped": "iterator::contiguous::Cropped"}.get(sname, sname)
        tag = {"pixel_Translated": "iter_pixel", "contiguous_Cropped": "iter_contig"}.get(sname) or ADAPTER_FILE[sname]
        structs.append(f"/-- `struct {rust}` of {FILES[tag]} -/\nstructure {sname} where\n" +
                       "\n".join(f"  {n} : {lean_ty(t)}" for n, t in fields) + "\n")
    # roots: trait defaults on an abstract target, then everything of every adapter, then the constructors
    for m in ("fill_contiguous", "fill_solid", "clear"):
        tr.need("core_dt", None, "DrawTarget", m, "Target", f"DrawTarget_{m}", "roots", kind="result")
        for s in tr.shapes:
            if s[0] == f"DrawTarget_{m}":
                s[1:4] = ["DrawTarget", m, False]
    for a in ADAPTERS:
        tr.need(ADAPTER_FILE[a], a, None, "new", a, f"{a}_new", "roots")
        for m in DT_METHODS + ["bounding_box"]:
            tr.need_method(a, m, "roots")
    for m in EXT_METHODS:
        tr.need("dt_mod", "T", "DrawTargetExt", m, "Target", f"DrawTargetExt_{m}", "roots")
    # every function of every impl of the adapter types (and of DrawTargetExt) must have been translated
    untranslated = []
    for (tag, ty, trt, head, names) in src.impls:
        relevant = (tag in ("translated", "clipped", "cropped", "color_converted", "dt_mod")) or \
                   (tag == "iter_pixel" and ty == "Translated") or (tag == "iter_contig" and ty == "Cropped")
        if not relevant:
            continue
        for n in names:
            k = (tag, ty, trt, n)
            if k not in tr.translated_keys and src.fns[k].body is not None:
                untranslated.append(f"{FILES[tag]}: impl {trt + ' for ' if trt else ''}{ty}: fn {n}")
    shapes = sorted(tr.shapes, key=lambda s: (["DrawTarget"] + ADAPTERS).index(s[1]) * 10 + DT_METHODS.index(s[2]))
    b = lambda x: "true" if x else "false"
    out = [HEADER] + [s + "\n" for s in structs] + [t + "\n" for t in tr.out]
    out.append("/-- shape of a `Result`-returning method: `overridden` = the adapter's own `impl DrawTarget` defines it (else\n"
               "the trait's default body, `Self` := the adapter); `tail` = on every path the parent call is the tail\n"
               "expression of the function; `bare` = nothing is applied to the parent call's `Result` (no `?`, `.ok()`,\n"
               "`.unwrap()`, `.map_err(..)`, no `let` binding); `paths` = number of control-flow paths, each with exactly\n"
               "one parent call (a body with a path without one, or with two, is refused by the translator). -/\n"
               "structure MethodShape where\n  owner : String\n  method : String\n  overridden : Bool\n  tail : Bool\n"
               "  bare : Bool\n  paths : Nat\n  deriving DecidableEq, Repr\n\n")
    out.append("def adapterMethodShapes : List MethodShape := [\n" + ",\n".join(
        f"  ⟨\"{s[1]}\", \"{s[2]}\", {b(s[3])}, {b(s[4])}, {b(s[5])}, {s[6]}⟩" for s in shapes) + "]\n\n")
    out.append("/-- functions with a body in an `impl` of one of the adapter types (any trait: a `Drop` impl would show up\n"
               "here), of `DrawTargetExt` or of `pixel::Translated` that are NOT translated above -/\n"
               "def untranslated : List String := [" + ", ".join('"' + u.replace('"', "'") + '"' for u in untranslated) + "]\n\n")
    out.append("end EG.Generated.AdaptSrc\n")
    info = {"functions": len(tr.out), "shapes": len(shapes), "untranslated": len(untranslated)}
    return "".join(out), info


def failed_file(reason):
    r = reason.replace("\\", "\\\\").replace('"', '\\"').replace("\n", " ")
    return ("/-\n  EG.Generated.AdaptSrc — GENERATED by tools/tr_adapt.py. THE TRANSLATION FAILED: the Rust source of the\n"
            "  draw-target adapters / trait defaults contains a construct the translator does not know. No function is\n"
            "  defined here, so the theorems of EG/Props/C03/GeneratedAdapters.lean and EG/Props/C04/GeneratedAdapters.lean\n"
            "  do not build.\n-/\n"
            "namespace EG.Generated.AdaptSrc\n\n"
            f"def translationFailed : String := \"{r}\"\n\nend EG.Generated.AdaptSrc\n")


# ---------------------------------------------------------------------------------------------------------------
# self test of the SHAPE CHECK: bodies of `fn clear(&mut self, color) -> Result<(), Self::Error>` of a forwarding adapter
# ---------------------------------------------------------------------------------------------------------------
# (body, expected (tail, bare) or None = must be refused, fragment of the refusal)
SHAPE_CASES = [
    ("self.parent.clear(color)", (True, True), None),
    ("{ self.parent.clear(color) }", (True, True), None),
    ("let c = color; self.parent.clear(c)", (True, True), None),
    ("self.parent.clear(color)?; Ok(())", (False, False), None),
    ("Ok(self.parent.clear(color)?)", (True, False), None),
    ("let r = self.parent.clear(color); r", (False, False), None),
    ("let _ = self.parent.clear(color); Ok(())", (False, False), None),
    ("self.parent.clear(color).ok(); Ok(())", (False, False), None),
    ("self.parent.clear(color).map_err(|e| e)", (True, False), None),
    ("self.parent.clear(color).or(Ok(()))", (True, False), None),
    ("self.parent.clear(color).unwrap(); Ok(())", (False, False), None),
    ("Ok(())", None, "where the parent call was expected"),
    ("self.parent.clear(color)?; self.parent.clear(color)", None, "second parent call"),
    ("drop(self.parent.clear(color)); Ok(())", None, "where the parent call was expected"),
    ("match self.parent.clear(color) { Ok(()) => Ok(()), Err(e) => Err(e) }", None, "where the parent call was expected"),
    ("let f = || self.parent.clear(color); f()", None, "where the parent call was expected"),
    ("if self.offset == self.offset { return Ok(()); } self.parent.clear(color)", None, "statement-position `if`"),
    ("for _k in 0..2 { self.parent.clear(color)?; } Ok(())", None, "`for`"),
    ("DrawTarget::clear(self.parent, color)", None, "where the parent call was expected"),
    ("let b = self.parent.bounding_box(); self.parent.fill_solid(&b, color)", (True, True), None),
    ("let b = self.parent.clear(color).is_ok(); self.parent.clear(color)", None, "second parent call"),
]
SHAPE_SRC = """
pub struct Translated<'a, T> where T: DrawTarget { parent: &'a mut T, offset: Point }
impl<T> DrawTarget for Translated<'_, T> where T: DrawTarget {
    type Color = T::Color;
    type Error = T::Error;
    fn clear(&mut self, color: Self::Color) -> Result<(), Self::Error> { BODY }
}
"""


def selftest():
    problems = []
    for (body, want, frag) in SHAPE_CASES:
        try:
            src = Src()
            scan_items(Cursor(tokenize(strip_comments(SHAPE_SRC.replace("BODY", body), "selftest"), "selftest")), src,
                       "translated", "selftest")
            tr = AdaptTranslator(src)
            tr.need("translated", "Translated", "DrawTarget", "clear", "Translated", "Translated_clear", "selftest", kind="result")
            got = (tr.shapes[-1][4], tr.shapes[-1][5])
            if want is None:
                problems.append(f"`{body}` was ACCEPTED with shape {got} but must be refused")
            elif got != want:
                problems.append(f"`{body}`: shape (tail, bare) = {got}, expected {want}")
        except TrError as ex:
            if want is not None:
                problems.append(f"`{body}` refused: {ex}")
            elif frag not in str(ex):
                problems.append(f"`{body}` refused with an unexpected message: {ex}")
    return problems


def generate(repo):
    try:
        problems = selftest()
        if problems:
            raise TrError("shape-check self test failed: " + "; ".join(problems[:3]))
        text, info = translate(repo)
        info["shape_selftest_cases"] = len(SHAPE_CASES)
        return {"AdaptSrc.lean": text}, info
    except TrError as ex:
        reason = str(ex)
    except RecursionError:
        reason = "recursion limit reached while parsing"
    except Exception as ex:
        reason = f"internal error {type(ex).__name__}: {ex}"
    return {"AdaptSrc.lean": failed_file(reason)}, {"failed": reason}


if __name__ == "__main__":
    import json
    import sys
    repo = os.environ.get("EG_REPO", "/repo")
    if len(sys.argv) > 1 and sys.argv[1] == "--selftest":
        ps = selftest()
        print("\n".join(ps) if ps else f"selftest: {len(SHAPE_CASES)} shape cases fine")
        sys.exit(1 if ps else 0)
    elif len(sys.argv) > 1 and sys.argv[1] == "--strict":
        t, i = translate(repo)
        print(t)
    else:
        files, info = generate(repo)
        print(files["AdaptSrc.lean"])
        print(json.dumps(info), file=sys.stderr)
