#!/bin/sh
# confirm_seeds.sh Cxx [Cxx ...] — confirm seeded changes from /tmp/sw/out/Cxx/n/ in a scratch worktree of /repo:
#  (1) patch applies and the unedited test suite passes with it, (2) the demonstration fails with it,
#  (3) the demonstration passes without it. Confirmed ones are copied to /verif/seeded/Cxx-n/ with the
#  observed results added to meta.json ("confirmed": {...}).
CS=/tmp/cs$CS_SLOT
W=$CS/repo
T=$CS/target
mkdir -p $CS
[ -d $W ] || git -C /repo worktree add -q --detach $W HEAD
for p in "$@"; do
 for d in /tmp/sw/out/$p/*/; do
  n=$(basename $d); id=$p-$n
  [ -f $d/patch.diff ] || continue
  [ -f /verif/seeded/$id/meta.json ] && continue
  git -C $W checkout -q --detach $(git -C /repo rev-parse HEAD); git -C $W checkout -q -- .; git -C $W clean -fdq
  if ! git -C $W apply --check $d/patch.diff 2>/dev/null; then echo "$id: patch does not apply to current HEAD" >> $CS/results.txt; continue; fi
  cp $d/demo.rs $W/tests/seed_demo.rs
  (cd $W && CARGO_TARGET_DIR=$T cargo test --offline --test seed_demo > $CS/$id-clean.log 2>&1); clean_rc=$?
  git -C $W apply $d/patch.diff
  (cd $W && CARGO_TARGET_DIR=$T cargo test --offline --test seed_demo > $CS/$id-patched.log 2>&1); patched_rc=$?
  rm -f $W/tests/seed_demo.rs
  (cd $W && CARGO_TARGET_DIR=$T cargo test --workspace --no-fail-fast --offline > $CS/$id-suite.log 2>&1); suite_rc=$?
  passed=$(grep -E "^test result" $CS/$id-suite.log | awk '{p+=$4; f+=$6} END {print p" passed "f" failed"}')
  echo "$id: demo clean rc=$clean_rc, demo patched rc=$patched_rc, suite rc=$suite_rc ($passed)" >> $CS/results.txt
  if [ $clean_rc -eq 0 ] && [ $patched_rc -ne 0 ] && [ $suite_rc -eq 0 ]; then
    mkdir -p /verif/seeded/$id
    cp $d/patch.diff $d/demo.rs /verif/seeded/$id/
    python3 - "$d/meta.json" "/verif/seeded/$id/meta.json" "$passed" "$(git -C /repo rev-parse --short HEAD)" <<'PY'
import json,sys
m=json.load(open(sys.argv[1]))
m["confirmed"]={"against_repo_commit":sys.argv[4],"suite_with_patch":sys.argv[3],"demo_with_patch":"fails","demo_without_patch":"passes",
 "ran":"scratch worktree of /repo: cargo test --offline --test seed_demo (clean, then patched); cargo test --workspace --no-fail-fast --offline (patched)"}
json.dump(m,open(sys.argv[2],"w"),indent=1)
PY
  fi
  git -C $W checkout -q -- .
 done
done
echo "batch done: $*" >> $CS/results.txt
