#!/bin/sh
# seedtest_all.sh <out.txt> Cxx [Cxx ...] — run each seeded patch of the given properties
# (from /tmp/sw/out/Cxx/n/patch.diff; only the n matching the shell pattern $SEED_FILTER if set, e.g. "r5-*")
# through tools/seedrun.sh and summarise.
out="$1"; shift
for p in "$@"; do
  for d in /tmp/sw/out/$p/*/; do
    n=$(basename "$d")
    [ -f "$d/patch.diff" ] || continue
    case "$n" in ${SEED_FILTER:-*}) ;; *) continue ;; esac
    log=/tmp/vseed-log-$p-$n.txt
    /verif/tools/seedrun.sh "$d/patch.diff" $p > "$log" 2>&1
    rc=$?
    echo "$p/$n rc=$rc $(grep -c '^VIOLATION' $log) violation line(s): $(grep '^\[' $log | tail -1)" >> "$out"
    grep '^VIOLATION' "$log" | head -3 >> "$out"
  done
done
echo done >> "$out"
