#!/bin/sh
# merge_branch.sh <branch> "<message>" — merge a builder branch: evidence / MANIFEST.json / parts.json take ours (regenerated),
# manifest_src.json by the clause-level 3-way merge, DESIGN.md / docs/BUILDING.md keep both sides.
b=$1; msg=$2
cd "$(dirname "$0")/.."
git checkout -- evidence 2>/dev/null
git merge $b -m "$msg" > /tmp/merge-$b.log 2>&1 && { echo "clean merge"; exit 0; }
for f in $(git diff --name-only --diff-filter=U); do
  case $f in
    evidence/*|MANIFEST.json|lean/EG/Generated/parts.json|docs/STATUS.md) git checkout --ours $f ;;
    tools/manifest_src.json) python3 tools/merge_manifest_src.py $b ;;
    DESIGN.md|docs/BUILDING.md) sed -i "/^<<<<<<< HEAD\$/d; /^=======\$/d; /^>>>>>>> $b\$/d" $f ;;
    *) echo "UNRESOLVED: $f" ;;
  esac
done
python3 tools/translate.py > /dev/null
python3 tools/gen_manifest.py
git diff --name-only --diff-filter=U
