#!/usr/bin/env python3
"""tr_rawsrc.py — SOURCE-TO-LEAN translator for the RAW DATA layer (C11; C10 / C09 rest on it).

Reads, from /repo's current working tree,
  core/src/pixelcolor/raw/load_store.rs   `bit_position`, `impl_load_store_bits!` (RawU1/2/4), `LoadStore` for RawU8/16/24/32
  core/src/pixelcolor/raw/mod.rs          `impl_raw_data!`: `new`, `new_unmasked`, `BITS_PER_PIXEL`, `MASK`, `into_inner`,
                                          `from_u32`, `RawData::load/store`, `From<Storage>`; the two `DataOrder` impls
  core/src/pixelcolor/raw/to_bytes.rs     `impl_to_bytes!`, `ToBytes for RawU24`
  src/iterator/raw.rs                     `RawDataIterator::{new, next, nth, size_hint}`
and writes EG/Generated/RawSrc.lean: one Lean `def` per Rust function / associated constant (macros are expanded per
invocation by textual parameter substitution first), mirroring the Rust text arm for arm.

REUSE: the tokenizer, `Cursor`, `BodyParser` (statement / expression / pattern parser) and the failure-file idea are
tools/tr_rect.py's (imported, not edited). What this file adds:
  * `RawBodyParser(tr_rect.BodyParser)`: the constructs the raw sources use and Rectangle's do not: `& | ^ << >> %`,
    indexing `a[i]` / `a[lo..hi]`, `start..` ranges, array literals `[v; n]`, literals with `u8`/`usize`.. suffixes or
    in hex, turbofish paths `f::<A, B>(..)` / `T::<O>::f`, `<T as Trait>::X`, closure parameter `_`, a closure whose
    body is an assignment. tr_rect.BodyParser builds its sub-parsers with the module global `BodyParser` and parses
    `let` type annotations with the module global `parse_type`; both are rebound to the classes of this file for the
    duration of one parse (`scoped_parser`, restored in `finally`), which is the only way to extend them without a copy.
  * a `macro_rules!` pre-pass (`expand_macros`): token-level substitution of `$name` per invocation; repetition forms
    `$( .. )*` are refused.
  * an item scanner and an emitter of their own (tr_rect's `Translator` is built around `Point`/`Size`/`Rectangle`
    signatures, knows no slices, no generic parameters, no closures other than `is_some_and`).

The emitter is syntax-directed and dumb: every Rust primitive becomes a call of a function of the hand-written,
TRUSTED prelude lean/EG/Model/RawSrcPrelude.lean (`u8_shr`, `u8_not`, `slice_get`, `usize_checked_mul`,
`mutslice_get_mut`, `option_and_then`, ...). The only things it does beyond re-spelling:
  * it resolves a method / operator by the TYPE of its receiver (types from signatures, literals take the type of the
    other operand, closure parameters take the element type of the `Option` / `Result` they are mapped over);
  * generic parameters `R: RawData`, `O: DataOrder` become explicit arguments of the enumerations `RawTy` / `DataOrderTy`
    (one constructor per `impl_raw_data!` invocation / per `impl DataOrder for ..`), `R::X` becomes the dispatch function
    `RawData_X R` (a `match` over the implementors, emitted mechanically);
  * `&mut [u8]` is a `MutSlice` (current content + how to put a new content back into the function's buffer); a closure
    whose body writes through its parameter (`*byte = v`, `buffer.copy_from_slice(..)`) yields the buffer after the
    write; a function `fn(.., buffer: &mut [u8], ..) -> Result<(), E>` yields `store_result` = (is_ok, buffer after);
  * `&mut self` methods yield (value, self after); single-field tuple structs (`RawU1(u8)`) are transparent.
Anything unknown raises (never skipped); `generate` then writes a RawSrc.lean that only contains
`def translationFailed`, so exactly the theorems of EG/Props/C11/Generated*.lean stop building.
"""
import contextlib
import os
import re
import sys

sys.path.insert(0, os.path.dirname(os.path.abspath(__file__)))
import tr_rect
from tr_rect import RectTrError as TrError, Tok, Cursor, tokenize, strip_comments, LEAN_KEYWORDS

FILES = [
    "core/src/pixelcolor/raw/mod.rs",
    "core/src/pixelcolor/raw/load_store.rs",
    "core/src/pixelcolor/raw/to_bytes.rs",
    "src/iterator/raw.rs",
]

# ---------------------------------------------------------------------------------------------------------------
# types (of this part): 'usize' 'u8' 'u16' 'u32' 'bool' 'unit' 'slice' 'mutslice' 'mutu8' 'buf' 'phantom' 'err',
# raw type names, generic names, ('Option', T), ('Result', T), ('tuple', [T..]), ('Self::X',) unresolved assoc
# ---------------------------------------------------------------------------------------------------------------

INTS = ("usize", "u8", "u16", "u32")


def parse_type2(c):
    if c.at("&"):
        c.next()
        if c.peek() and c.peek().kind == "life":
            c.next()
        if c.at("mut"):
            c.next()
            t = parse_type2(c)
            if t == "slice":
                return "mutslice"
            if t == "u8":
                return "mutu8"
            if t == "Self":
                return "Self"
            raise TrError(f"`&mut {t}` not supported")
        return parse_type2(c)
    if c.at("["):
        c.next()
        t = c.next()
        if t.text not in ("u8", "_"):
            raise TrError(f"array / slice of `{t.text}` not supported at {t!r}")
        if c.at(";"):
            c.next()
            c.next()
        c.expect("]")
        return "slice"
    if c.at("("):
        c.next()
        items = []
        while not c.at(")"):
            items.append(parse_type2(c))
            if c.at(","):
                c.next()
        c.expect(")")
        if not items:
            return "unit"
        return items[0] if len(items) == 1 else ("tuple", tuple(items))
    if c.at("<"):
        # <<C as PixelColor>::Raw as ToBytes>::Bytes and friends: not needed by any translated function
        raise TrError(f"qualified type path not supported at {c.peek()!r}")
    segs = [c.ident()]
    while c.at("::"):
        c.next()
        segs.append(c.ident())
    args = []
    if c.at("<"):
        c.next()
        while not c.at(">"):
            if c.peek().kind == "life":
                c.next()
            else:
                args.append(parse_type2(c))
            if c.at(","):
                c.next()
        c.expect(">")
    name = segs[-1]
    if segs[0] == "Self" and len(segs) == 2:
        return ("Self::" + segs[1],)
    if name == "Option":
        return ("Option", args[0])
    if name == "Result":
        return ("Result", args[0])
    if name == "PhantomData":
        return "phantom"
    if name == "OutOfBoundsError":
        return "err"
    return name


# ---------------------------------------------------------------------------------------------------------------
# parser extension
# ---------------------------------------------------------------------------------------------------------------

class RawBodyParser(tr_rect.BodyParser):
    def sub(self, s, e):
        return RawBodyParser(self.c.t, s, e, self.where)

    def parse_range(self, nostruct):
        c = self.c
        if c.at("..") or c.at("..="):
            self.fail("range without a start not supported")
        lhs = self.parse_binary(0, nostruct)
        if c.at(".."):
            op = c.next()
            if c.eof() or c.at(")") or c.at(",") or c.at(";") or c.at("]"):
                return ("rangefrom", op.line, lhs)
            rhs = self.parse_binary(0, nostruct)
            return ("range", op.line, False, lhs, rhs)
        if c.at("..="):
            self.fail("inclusive range not supported here")
        return lhs

    LEVELS = [("||",), ("&&",), tr_rect.CMP_OPS, ("|",), ("^",), ("&",), ("<<", ">>"), ("+", "-"), ("*", "/", "%")]

    def peek_op(self, ops):
        """the binary operator at the cursor if it is one of `ops` (shifts are two adjacent `<` / `>` tokens)."""
        c = self.c
        t = c.peek()
        if t is None or t.kind != "p":
            return None, 0
        if t.text in ("<", ">") and c.peek(1) is not None and c.peek(1).kind == "p" and c.peek(1).text == t.text:
            return (t.text * 2, 2) if t.text * 2 in ops else (None, 0)
        if t.text in ops:
            if t.text in ("&", "|") and False:
                return None, 0
            return t.text, 1
        return None, 0

    def parse_binary_tail(self, lhs, level, nostruct):
        c = self.c
        ops = self.LEVELS[level]
        while True:
            op, n = self.peek_op(ops)
            if op is None:
                return lhs
            line = c.peek().line
            if op == "^":
                self.fail("operator `^` not supported")
            for _ in range(n):
                c.next()
            rhs = self.parse_binary(level + 1, nostruct)
            if op in tr_rect.CMP_OPS and self.peek_op(tr_rect.CMP_OPS)[0] is not None:
                self.fail("chained comparison")
            lhs = ("bin", line, op, lhs, rhs)

    def parse_closure(self):
        c = self.c
        t = c.next()
        if t.text == "move":
            self.fail("`move` closure not supported")
        params = []
        if t.text == "|":
            while not c.at("|"):
                p = self.parse_pattern1()
                if p[0] == "pwild":
                    params.append("_")
                elif p[0] == "pbind":
                    params.append(p[2])
                else:
                    self.fail("closure parameter must be a plain name or `_`")
                if c.at(":"):
                    self.fail("closure parameter type annotations not supported")
                if c.at(","):
                    c.next()
            c.next()
        body = self.parse_expr()
        if c.at("="):
            op = c.next()
            rhs = self.parse_expr()
            body = ("assignexpr", op.line, body, rhs)
        return ("closure", t.line, params, body)

    def parse_postfix_from(self, e, nostruct):
        c = self.c
        while True:
            if c.at("?"):
                self.fail("`?` not supported")
            if c.at("["):
                t = c.peek()
                s, en = c.skip_balanced("[", "]")
                sub = self.sub(s, en)
                idx = sub.parse_expr()
                if not sub.c.eof():
                    sub.fail("tokens after the index expression")
                e = ("index", t.line, e, idx)
                continue
            if c.at("("):
                t = c.peek()
                e = ("callexpr", t.line, e, self.parse_args())
                continue
            if c.at("."):
                d = c.next()
                if c.peek() is not None and c.peek().kind == "int":
                    n = c.next()
                    if n.text != "0":
                        self.fail("tuple field other than `.0` not supported", n)
                    e = ("field", d.line, e, "0")
                    continue
                name = c.ident()
                if name == "await":
                    self.fail("await")
                turbofish = None
                if c.at("::"):
                    c.next()
                    c.expect("<")
                    turbofish = parse_type2(c)
                    c.expect(">")
                if c.at("("):
                    e = ("mcall", d.line, e, name, turbofish, self.parse_args())
                else:
                    if turbofish is not None:
                        self.fail("turbofish without a call")
                    e = ("field", d.line, e, name)
                continue
            return e

    def parse_prefix(self, nostruct):
        c = self.c
        if c.at("&") and c.at("mut", 1):
            t = c.next()
            c.next()
            return ("refmut", t.line, self.parse_prefix(nostruct))
        return super().parse_prefix(nostruct)

    def parse_block_body(self):
        """tr_rect.BodyParser.parse_block_body (copied: it is one loop) plus `const NAME: T = e;` (read as a `let`) and
        `for PAT in EXPR { .. }` (a statement)."""
        c = self.c
        stmts, tail = [], None
        while not c.eof():
            if tail is not None:
                self.fail("expression in the middle of a block without `;`")
            if c.at(";"):
                c.next()
                continue
            if c.at("let") or (c.at("const") and c.peek(1) is not None and c.peek(1).kind == "id" and c.peek(1).text != "fn"):
                t = c.next()
                mut = False
                if c.at("mut"):
                    c.next()
                    mut = True
                pat = self.parse_pattern()
                ty = None
                if c.at(":"):
                    c.next()
                    ty = parse_type2(c)
                c.expect("=")
                e = self.parse_expr()
                if c.at("else"):
                    self.fail("let-else not supported")
                c.expect(";")
                stmts.append(("let", t.line, pat, ty, e, mut))
                continue
            if c.at("for"):
                t = c.next()
                pat = self.parse_pattern()
                c.expect("in")
                it = self.parse_expr(nostruct=True)
                body = self.parse_braced_block()
                stmts.append(("expr", t.line, ("for", t.line, pat, it, body)))
                continue
            if c.peek().kind == "id" and c.peek().text in ("fn", "struct", "enum", "impl", "use", "static", "loop", "unsafe"):
                self.fail(f"`{c.peek().text}` inside a body is not supported")
            e = self.parse_expr(stmt=True)
            if c.at("=") or (c.peek() and c.peek().kind == "p" and c.peek().text in ("+=", "-=", "*=", "/=", "%=")):
                op = c.next()
                rhs = self.parse_expr()
                c.expect(";")
                stmts.append(("assign", op.line, op.text, e, rhs))
            elif c.at(";"):
                c.next()
                stmts.append(("expr", e[1], e))
            elif c.eof():
                tail = e
            elif e[0] in ("if", "match", "block", "while"):
                stmts.append(("expr", e[1], e))
            else:
                self.fail(f"expected `;` or end of block after expression, found `{c.peek().text}`")
        return stmts, tail

    def parse_generic_args(self):
        c = self.c
        c.expect("<")
        args = []
        while not c.at(">"):
            args.append(parse_type2(c))
            if c.at(","):
                c.next()
        c.expect(">")
        return args

    def parse_primary(self, nostruct):
        c = self.c
        t = c.peek()
        if t.kind == "int":
            c.next()
            m = re.fullmatch(r"(0x[0-9a-fA-F_]+|[0-9][0-9_]*)(u8|u16|u32|usize)?", t.text)
            if not m or (m.group(1).startswith("0x") and m.group(2)):
                self.fail(f"integer literal `{t.text}` not supported", t)
            return ("int", t.line, int(m.group(1).replace("_", ""), 0), m.group(2))
        if c.at("["):
            s, en = c.skip_balanced("[", "]")
            sub = self.sub(s, en)
            if sub.c.eof():
                return ("arrayrep", t.line, ("int", t.line, 0, None), ("int", t.line, 0, None))
            v = sub.parse_expr()
            if not sub.c.at(";"):
                sub.fail("only `[value; count]` and `[]` array literals are supported")
            sub.c.next()
            n = sub.parse_expr()
            if not sub.c.eof():
                sub.fail("tokens after the array length")
            return ("arrayrep", t.line, v, n)
        if c.at("<"):
            # <T as Trait>::name
            c.next()
            ty = parse_type2(c)
            if c.at("as"):
                c.next()
                parse_type2(c)
            c.expect(">")
            c.expect("::")
            name = c.ident()
            return ("path", t.line, [ty if isinstance(ty, str) else "?", name], [])
        if t.kind == "id" and t.text not in ("if", "while", "match"):
            if t.text in ("loop", "for", "unsafe", "async", "let", "mut", "ref", "static", "const", "dyn", "impl", "fn", "where", "in"):
                self.fail(f"`{t.text}` not supported")
            segs, gens = [c.ident()], []
            while c.at("::"):
                c.next()
                if c.at("<"):
                    gens.extend(self.parse_generic_args())
                else:
                    segs.append(c.ident())
            if c.at("!"):
                self.fail(f"macro `{'::'.join(segs)}!` not supported", t)
            if c.at("{") and not nostruct and segs[-1][0].isupper():
                s, en = c.skip_balanced("{", "}")
                sub = self.sub(s, en)
                fields = []
                while not sub.c.eof():
                    if sub.c.at(".."):
                        sub.fail("struct base not supported")
                    fname = sub.c.ident()
                    if sub.c.at(":"):
                        sub.c.next()
                        fe = sub.parse_expr()
                    else:
                        fe = ("path", t.line, [fname], [])
                    fields.append((fname, fe))
                    if sub.c.at(","):
                        sub.c.next()
                    elif not sub.c.eof():
                        sub.fail("`,` expected in struct literal")
                return ("struct", t.line, segs, fields, None)
            return ("path", t.line, segs, gens)
        return super().parse_primary(nostruct)


@contextlib.contextmanager
def scoped_parser():
    """tr_rect.BodyParser instantiates `BodyParser(..)` / calls `parse_type(..)` through its module globals: rebind them to
    this file's classes while one of OUR bodies is parsed (translate.py runs the parts one after the other in one process)."""
    old = (tr_rect.BodyParser, tr_rect.parse_type)
    tr_rect.BodyParser, tr_rect.parse_type = RawBodyParser, parse_type2
    try:
        yield
    finally:
        tr_rect.BodyParser, tr_rect.parse_type = old


# ---------------------------------------------------------------------------------------------------------------
# macro_rules! pre-pass (token level)
# ---------------------------------------------------------------------------------------------------------------

def split_balanced(toks, i, open_, close):
    """toks[i] is `open_`: returns (inside tokens, index after the matching close)."""
    if toks[i].text != open_:
        raise TrError(f"expected `{open_}` but found {toks[i]!r}")
    depth, j = 1, i + 1
    while depth:
        if j >= len(toks):
            raise TrError(f"unbalanced `{open_}` at {toks[i]!r}")
        if toks[j].kind == "p" and toks[j].text in "([{":
            depth += 1
        elif toks[j].kind == "p" and toks[j].text in ")]}":
            depth -= 1
        j += 1
    return toks[i + 1:j - 1], j


def parse_macro_def(toks, i):
    """toks[i..] = `macro_rules ! name { (pat) => { body } ; ... }`: returns (name, arms, next index)."""
    name = toks[i + 2].text
    inner, nxt = split_balanced(toks, i + 3, "{", "}")
    arms, j = [], 0
    while j < len(inner):
        if inner[j].text == ";":
            j += 1
            continue
        pat, j = split_balanced(inner, j, "(", ")")
        if not (inner[j].text == "=>"):
            raise TrError(f"macro {name}: `=>` expected at {inner[j]!r}")
        body, j = split_balanced(inner, j + 1, "{", "}")
        items, k = [], 0
        while k < len(pat):
            if pat[k].text == "$":
                if pat[k + 1].text == "(":
                    raise TrError(f"macro {name}: repetition `$( .. )` in the pattern is not supported")
                items.append(("param", pat[k + 1].text, pat[k + 3].text))
                k += 4
            else:
                items.append(("lit", pat[k].text))
                k += 1
        for k in range(len(body) - 1):
            if body[k].text == "$" and body[k + 1].text == "(":
                raise TrError(f"macro {name}: repetition `$( .. )` in the body is not supported")
        arms.append((items, body))
    return name, arms, nxt


def match_arm(items, args):
    """bind the parameters of one macro arm to the invocation tokens, or None."""
    binds, j = {}, 0
    for idx, it in enumerate(items):
        if it[0] == "lit":
            if j >= len(args) or args[j].text != it[1]:
                return None
            j += 1
            continue
        nxt = items[idx + 1][1] if idx + 1 < len(items) and items[idx + 1][0] == "lit" else None
        start, depth = j, 0
        if it[2] == "ident":
            j += 1
        else:
            while j < len(args):
                tx = args[j].text if args[j].kind == "p" else None
                if depth == 0 and nxt is not None and tx == nxt:
                    break
                if tx in ("(", "[", "{"):
                    depth += 1
                elif tx in (")", "]", "}"):
                    depth -= 1
                j += 1
        if j == start or j > len(args):
            return None
        binds[it[1]] = args[start:j]
    return binds if j == len(args) else None


def expand_macros(toks, rel, depth=0):
    """remove `macro_rules!` definitions and replace every invocation `name!(..);` of a macro defined in the same file
    by the body of the first matching arm with `$param` substituted (recursively)."""
    if depth > 4:
        raise TrError(f"{rel}: macro expansion too deep")
    macros, out, i = {}, [], 0
    while i < len(toks):
        t = toks[i]
        if t.kind == "id" and t.text == "macro_rules" and toks[i + 1].text == "!":
            name, arms, i = parse_macro_def(toks, i)
            macros[name] = arms
            continue
        out.append(t)
        i += 1
    if not macros:
        return out, {}
    res, i, counts = [], 0, {}
    while i < len(out):
        t = out[i]
        if t.kind == "id" and t.text in macros and i + 1 < len(out) and out[i + 1].text == "!":
            args, j = split_balanced(out, i + 2, "(", ")")
            if j < len(out) and out[j].text == ";":
                j += 1
            for items, body in macros[t.text]:
                b = match_arm(items, args)
                if b is not None:
                    break
            else:
                raise TrError(f"{rel}:{t.line}: no arm of macro `{t.text}!` matches its invocation")
            exp, k = [], 0
            while k < len(body):
                if body[k].text == "$" and body[k].kind == "p":
                    nm = body[k + 1].text
                    if nm == "crate":
                        exp.append(body[k + 1])
                        k += 2
                        continue
                    if nm not in b:
                        raise TrError(f"{rel}: macro {t.text}: unknown parameter `${nm}`")
                    exp.extend(Tok(x.kind, x.text, t.line, rel) for x in b[nm])
                    k += 2
                else:
                    exp.append(Tok(body[k].kind, body[k].text, body[k].line, rel))
                    k += 1
            counts[t.text] = counts.get(t.text, 0) + 1
            # the expansion may invoke the macro again (second arm of impl_raw_data!): expand with the same definitions
            defs = []
            for nm, arms in macros.items():
                pass
            res.extend(expand_with(exp, macros, rel, depth + 1, counts))
            i = j
            continue
        res.append(t)
        i += 1
    return res, counts


def expand_with(toks, macros, rel, depth, counts):
    if depth > 4:
        raise TrError(f"{rel}: macro expansion too deep")
    res, i = [], 0
    while i < len(toks):
        t = toks[i]
        if t.kind == "id" and t.text in macros and i + 1 < len(toks) and toks[i + 1].text == "!":
            args, j = split_balanced(toks, i + 2, "(", ")")
            if j < len(toks) and toks[j].text == ";":
                j += 1
            for items, body in macros[t.text]:
                b = match_arm(items, args)
                if b is not None:
                    break
            else:
                raise TrError(f"{rel}:{t.line}: no arm of macro `{t.text}!` matches its (nested) invocation")
            exp, k = [], 0
            while k < len(body):
                if body[k].text == "$" and body[k].kind == "p":
                    nm = body[k + 1].text
                    if nm == "crate":
                        exp.append(body[k + 1])
                        k += 2
                        continue
                    if nm not in b:
                        raise TrError(f"{rel}: macro {t.text}: unknown parameter `${nm}`")
                    exp.extend(b[nm])
                    k += 2
                else:
                    exp.append(body[k])
                    k += 1
            res.extend(expand_with(exp, macros, rel, depth + 1, counts))
            i = j
            continue
        res.append(t)
        i += 1
    return res


# ---------------------------------------------------------------------------------------------------------------
# item scanner
# ---------------------------------------------------------------------------------------------------------------

class Item:
    def __init__(self):
        self.kind = None           # "fn" / "const"
        self.name = None
        self.impl_type = None
        self.trait = None          # trait name without generics
        self.generics = []         # [(name, bound)] impl-level then fn-level
        self.params = []           # [(name, type)]
        self.self_kind = None      # None / "value" / "ref" / "refmut"
        self.ret = "unit"
        self.body = None           # (toks, start, end)
        self.rel = None
        self.line = 0
        self.assoc = {}            # associated types of the enclosing impl
        self.spec = ""             # concrete type arguments of the enclosing impl (`Framebuffer<C, RawU1, ..>` -> "RawU1")
        self.color_raw = {}        # colour generics: name -> raw type (`C: PixelColor<Raw = RawU1>`)
        self.aliases = {}          # fn-level generics that stand for a known type (`I: IntoIterator<Item = Pixel<..>>`)

    def key(self):
        return (self.impl_type + ("<" + self.spec + ">" if self.spec else "") if self.impl_type else None, self.trait, self.name)


class Prog:
    def __init__(self):
        self.items = {}            # key -> Item
        self.structs = {}          # name -> [(field, type)] (named) or ("tuple", type)
        self.impls = {}            # trait -> [type] in source order
        self.order = []


def parse_where(c, stop):
    """cursor after `where`: predicates up to (not including) the token `stop`. Returns ({name: bound}, {name: {assoc: type}}).
    `for<'a> ..` predicates (higher-ranked bounds on helper types) are skipped."""
    bounds, assoc = {}, {}
    while not c.at(stop):
        if c.at("for"):
            depth = 0
            while not (depth == 0 and (c.at(",") or c.at(stop))):
                t = c.next()
                if t.text in ("<", "("):
                    depth += 1
                elif t.text in (">", ")"):
                    depth -= 1
        else:
            n = c.ident()
            c.expect(":")
            while True:
                b = c.ident()
                while c.at("::"):
                    c.next()
                    b = c.ident()
                bounds.setdefault(n, b)
                if c.at("<"):
                    c.next()
                    while not c.at(">"):
                        an = c.ident()
                        if c.at("="):
                            c.next()
                            assoc.setdefault(n, {})[an] = parse_type2(c)
                        elif c.at("<"):
                            c.skip_balanced("<", ">")
                        if c.at(","):
                            c.next()
                    c.expect(">")
                if c.at("+"):
                    c.next()
                    continue
                break
        if c.at(","):
            c.next()
    return bounds, assoc


def parse_generics(c):
    """cursor at `<`: [(name, bound or None)]; `const N: usize` has the bound "const"."""
    out = []
    c.expect("<")
    while not c.at(">"):
        if c.peek().kind == "life":
            c.next()
        elif c.at("const"):
            c.next()
            n = c.ident()
            c.expect(":")
            if c.ident() != "usize":
                raise TrError(f"const generic `{n}` is not a usize")
            out.append((n, "const"))
        else:
            n = c.ident()
            b = None
            if c.at(":"):
                c.next()
                b = c.ident()
                while c.at("::"):
                    c.next()
                    b = c.ident()
                if c.at("+") or c.at("<"):
                    raise TrError(f"generic bound of `{n}` too complex at {c.peek()!r}")
            out.append((n, b))
        if c.at(","):
            c.next()
    c.expect(">")
    return out


def skip_attrs(c):
    """returns True when a `#[cfg(test)]` was among the attributes."""
    test = False
    while c.at("#"):
        c.next()
        if c.at("!"):
            c.next()
        s, e = c.skip_balanced("[", "]")
        txt = " ".join(t.text for t in c.t[s:e])
        if txt.replace(" ", "") == "cfg(test)":
            test = True
        if txt.replace(" ", "").startswith("cfg(target_endian"):
            test = True     # `to_ne_bytes` variants: skipped with their item (not translated)
    if c.at("pub"):
        c.next()
        if c.at("("):
            c.skip_balanced("(", ")")
    return test


def scan_items(c, prog, rel, impl_type=None, trait=None, impl_generics=(), assoc=None, impl_info=None):
    while not c.eof():
        skip = skip_attrs(c)
        if c.eof():
            break
        t = c.peek()
        if c.at(";"):
            c.next()
        elif c.at("use") or (c.at("mod") and c.peek(2) is not None and c.peek(2).text == ";"):
            while not c.at(";"):
                c.next()
            c.next()
        elif c.at("mod"):
            c.next()
            c.ident()
            s, e = c.skip_balanced("{", "}")
            if not skip:
                scan_items(Cursor(c.t, s, e), prog, rel)
        elif c.at("trait"):
            while not c.at("{"):
                c.next()
            c.skip_balanced("{", "}")
        elif c.at("enum"):
            c.next()
            c.ident()
            c.skip_balanced("{", "}")
        elif c.at("struct"):
            c.next()
            name = c.ident()
            if c.at("<"):
                parse_generics(c)
            if c.at("("):
                s, e = c.skip_balanced("(", ")")
                prog.structs[name] = ("tuple", parse_type2(Cursor(c.t, s, e)))
                c.expect(";")
            elif c.at(";"):
                c.next()
                prog.structs[name] = []
            else:
                s, e = c.skip_balanced("{", "}")
                cc, fields = Cursor(c.t, s, e), []
                while not cc.eof():
                    skip_attrs(cc)
                    fn_ = cc.ident()
                    cc.expect(":")
                    fields.append((fn_, parse_type2(cc)))
                    if cc.at(","):
                        cc.next()
                prog.structs[name] = fields
        elif c.at("impl"):
            c.next()
            gens = parse_generics(c) if c.at("<") else []
            first = [c.ident()]
            while c.at("::"):
                c.next()
                first.append(c.ident())
            targs = None
            if c.at("<"):
                s0, e0 = c.skip_balanced("<", ">")
                targs = [t_.text for t_ in c.t[s0:e0]]
            tr_name, ty = None, first[-1]
            if c.at("for"):
                c.next()
                tr_name = first[-1]
                targs = None
                if c.at("("):
                    c.skip_balanced("(", ")")
                    ty = "()"
                else:
                    ty = c.ident()
                    if c.at("<"):
                        s0, e0 = c.skip_balanced("<", ">")
                        targs = [t_.text for t_ in c.t[s0:e0]]
            wb, wa = {}, {}
            if c.at("where"):
                c.next()
                wb, wa = parse_where(c, "{")
            s, e = c.skip_balanced("{", "}")
            if skip or ty == "()" or ty in [g for g, _ in gens]:
                continue            # `impl ToBytes for ()`, blanket `impl<C: PixelColor> ToBytes for C`
            gens = [(g, b if b is not None else wb.get(g)) for g, b in gens]
            if tr_name:
                prog.impls.setdefault(tr_name, []).append(ty)
            a = {}
            info = {"targs": targs or [], "color_raw": {g: v["Raw"] for g, v in wa.items() if wb.get(g) == "PixelColor" and "Raw" in v}}
            scan_items(Cursor(c.t, s, e), prog, rel, ty, tr_name, gens, a, info)
        elif c.at("type"):
            c.next()
            n = c.ident()
            c.expect("=")
            try:
                ty = parse_type2(c)
            except TrError:
                ty = None
                while not c.at(";"):
                    c.next()
            c.expect(";")
            if assoc is not None:
                assoc[n] = ty
        elif c.at("const") and c.peek(1) is not None and c.peek(1).text != "fn":
            c.next()
            it = Item()
            it.kind, it.name, it.impl_type, it.trait, it.rel, it.line = "const", c.ident(), impl_type, trait, rel, t.line
            it.generics, it.assoc = [(g, b) for g, b in impl_generics if b is not None], assoc if assoc is not None else {}
            c.expect(":")
            it.ret = parse_type2(c)
            c.expect("=")
            s = c.i
            while not c.at(";"):
                c.next()
            it.body = (c.t, s, c.i)
            c.next()
            if not skip:
                prog.items[it.key()] = it
                prog.order.append(it.key())
        elif c.at("fn") or c.at("const"):
            if c.at("const"):
                c.next()
            c.expect("fn")
            it = Item()
            it.kind, it.name, it.impl_type, it.trait, it.rel, it.line = "fn", c.ident(), impl_type, trait, rel, t.line
            it.assoc = assoc if assoc is not None else {}
            it.generics = [(g, b) for g, b in list(impl_generics) + (parse_generics(c) if c.at("<") else []) if b is not None]
            s, e = c.skip_balanced("(", ")")
            pc = Cursor(c.t, s, e)
            while not pc.eof():
                if pc.at("&") and (pc.at("self", 1) or (pc.at("mut", 1) and pc.at("self", 2))):
                    pc.next()
                    it.self_kind = "ref"
                    if pc.at("mut"):
                        pc.next()
                        it.self_kind = "refmut"
                    pc.next()
                elif pc.at("self"):
                    pc.next()
                    it.self_kind = "value"
                else:
                    if pc.at("mut"):
                        pc.next()
                    n = pc.ident()
                    pc.expect(":")
                    it.params.append((n, parse_type2(pc)))
                if pc.at(","):
                    pc.next()
            if c.at("->"):
                c.next()
                it.ret = parse_type2(c)
            if c.at("where"):
                c.next()
                wb, wa = parse_where(c, "{")
                for g, b in wb.items():
                    if b == "IntoIterator" and wa.get(g, {}).get("Item") == "Pixel":
                        it.aliases[g] = "pixels"
                    else:
                        raise TrError(f"{rel}:{t.line}: `where {g}: {b}` on fn {it.name} not supported")
            if c.at(";"):
                c.next()
                continue
            s, e = c.skip_balanced("{", "}")
            it.body = (c.t, s, e)
            if impl_info:
                it.color_raw = dict(impl_info["color_raw"])
                known = prog.impls.get("RawData", []) + prog.impls.get("DataOrder", [])
                it.spec = "_".join(a for a in impl_info["targs"] if a in known)
            if not skip:
                if it.key() in prog.items:
                    raise TrError(f"{rel}:{t.line}: duplicate definition of {it.key()}")
                prog.items[it.key()] = it
                prog.order.append(it.key())
        else:
            raise TrError(f"{rel}:{t.line}: item starting with `{t.text}` not supported")


# ---------------------------------------------------------------------------------------------------------------
# emitter
# ---------------------------------------------------------------------------------------------------------------

BOUND_ENUM = {"RawData": "RawTy", "DataOrder": "DataOrderTy"}
BINOPS = {"+": "add", "-": "sub", "*": "mul", "/": "div", "%": "rem", "&": "and", "|": "or", "<<": "shl", ">>": "shr",
          "<": "lt", "<=": "le", ">": "gt", ">=": "ge", "==": "eq", "!=": "ne"}
CMP = ("<", "<=", ">", ">=", "==", "!=")

# (receiver type, method, argument shape) -> (prelude function, result type)
#   shapes: () no argument, "v" one value argument, "from" a `start..` range, "range" a `lo..hi` range
METHODS = {
    ("usize", "checked_mul", "v"): ("usize_checked_mul", ("Option", "usize")),
    ("usize", "saturating_add", "v"): ("usize_saturating_add", "usize"),
    ("usize", "saturating_mul", "v"): ("usize_saturating_mul", "usize"),
    ("usize", "saturating_sub", "v"): ("usize_saturating_sub", "usize"),
    ("slice", "len", ()): ("slice_len", "usize"),
    ("slice", "get", "v"): ("slice_get", ("Option", "u8")),
    ("slice", "get", "from"): ("slice_get_from", ("Option", "slice")),
    ("slice", "get", "range"): ("slice_get_range", ("Option", "slice")),
    ("slice", "try_into", ()): ("slice_try_into_array", ("TryInto", "slice")),
    (("TryInto", "slice"), "unwrap", ()): ("tryinto_unwrap", "slice"),
    ("mutslice", "get_mut", "v"): ("mutslice_get_mut", ("Option", "mutu8")),
    ("mutslice", "get_mut", "from"): ("mutslice_get_mut_from", ("Option", "mutslice")),
    ("mutslice", "get_mut", "range"): ("mutslice_get_mut_range", ("Option", "mutslice")),
    ("mutslice", "copy_from_slice", "v"): ("mutslice_copy_from_slice", "buf"),
    ("u16", "to_be_bytes", ()): ("u16_to_be_bytes", "slice"),
    ("u16", "to_le_bytes", ()): ("u16_to_le_bytes", "slice"),
    ("u32", "to_be_bytes", ()): ("u32_to_be_bytes", "slice"),
    ("u32", "to_le_bytes", ()): ("u32_to_le_bytes", "slice"),
    ("u8", "to_be_bytes", ()): ("u8_to_be_bytes", "slice"),
    ("u8", "to_le_bytes", ()): ("u8_to_le_bytes", "slice"),
}
ASSOC_FNS = {
    ("u16", "from_be_bytes"): ("u16_from_be_bytes", ["slice"], "u16"),
    ("u16", "from_le_bytes"): ("u16_from_le_bytes", ["slice"], "u16"),
    ("u32", "from_be_bytes"): ("u32_from_be_bytes", ["slice"], "u32"),
    ("u32", "from_le_bytes"): ("u32_from_le_bytes", ["slice"], "u32"),
}
ASSOC_FNS[("usize", "try_from")] = ("usize_try_from_i32", ["i32"], ("Result", "usize"))
ASSOC_CONSTS = {("u8", "MAX"): ("u8_MAX", "u8"), ("u16", "MAX"): ("u16_MAX", "u16"), ("u32", "MAX"): ("u32_MAX", "u32"),
                ("u8", "BITS"): ("u8_BITS", "u32"), ("u16", "BITS"): ("u16_BITS", "u32"), ("u32", "BITS"): ("u32_BITS", "u32")}
CASTS = {("i32", "usize"): "i32_as_usize", ("u32", "u8"): "u32_as_u8", ("u32", "u16"): "u32_as_u16", ("u32", "u32"): "u32_as_u32"}


def strip_allow_attrs(toks):
    """`#[allow(..)]` lint attributes inside a body say nothing about behaviour: dropped (any other attribute stays and
    is refused by the parser)."""
    out, i = [], 0
    while i < len(toks):
        if toks[i].text == "#" and i + 2 < len(toks) and toks[i + 1].text == "[" and toks[i + 2].text == "allow":
            _, i = split_balanced(toks, i + 1, "[", "]")
            continue
        out.append(toks[i])
        i += 1
    return out


class Ctx:
    def __init__(self, item):
        self.item = item
        self.self_type = item.impl_type
        self.gen = dict(item.generics)
        self.mut_self = item.self_kind == "refmut"
        self.mutbuf = None


class Emitter:
    def __init__(self, prog):
        self.prog = prog
        self.raw_types = prog.impls.get("RawData", [])
        self.orders = prog.impls.get("DataOrder", [])
        self.out, self.done, self.inprog, self.listing = [], {}, set(), []
        self.dispatch = {}

    # ---- names and types
    def fname(self, it):
        ty = it.impl_type + ("_" + it.spec if it.spec else "") if it.impl_type else None
        base = it.name if ty is None else (f"{ty}_{it.trait}_{it.name}" if it.trait else f"{ty}_{it.name}")
        return base

    @staticmethod
    def lvar(n):
        return n + "_" if n in LEAN_KEYWORDS else n

    def norm(self, t, it):
        if isinstance(t, tuple):
            if len(t) == 1 and t[0].startswith("Self::"):
                a = it.assoc.get(t[0][6:])
                if a is None:
                    raise TrError(f"{it.rel}:{it.line}: associated type `{t[0]}` not resolved")
                return self.norm(a, it)
            if t[0] == "tuple":
                return ("tuple", tuple(self.norm(x, it) for x in t[1]))
            return (t[0], self.norm(t[1], it))
        if t == "Self":
            return it.impl_type
        if t in it.color_raw:
            return "color:" + it.color_raw[t]
        if t in it.aliases:
            return it.aliases[t]
        if t == "Infallible":
            return "err"
        return t

    def lean_type(self, t, it=None):
        if isinstance(t, tuple):
            if t[0] == "tuple":
                return "(" + " × ".join(self.lean_type(x, it) for x in t[1]) + ")"
            if t[0] == "Option":
                return f"(Option {self.lean_type(t[1], it)})"
            if t[0] == "Result":
                return f"(Result {self.lean_type(t[1], it)})"
            raise TrError(f"no Lean type for {t}")
        if t in INTS or t in self.raw_types:
            return "Nat"
        if t == "bool":
            return "Bool"
        if t == "unit":
            return "Unit"
        if t == "slice":
            return "(List Nat)"
        if t == "mutslice":
            return "(List Nat)"
        if t in self.prog.structs and isinstance(self.prog.structs[t], list):
            return t
        if t == "Point":
            return "EG.Pt"
        if t == "pixels":
            return "(List (EG.Pt × Nat))"
        if t == "i32":
            return "Int"
        if isinstance(t, str) and t.startswith("color:"):
            return "Nat"
        if it is not None and t in dict(it.generics):
            return "Nat"
        raise TrError(f"no Lean type for `{t}`")

    def is_rawlike(self, t, ctx):
        return t in self.raw_types or (t in ctx.gen and ctx.gen[t] == "RawData")

    # ---- lookup
    def find(self, impl_type, name, where, trait=None, spec=None):
        c = [it for k, it in self.prog.items.items() if it.impl_type == impl_type and k[2] == name and (trait is None or k[1] == trait)
             and (spec is None or it.spec == spec)]
        if len(c) != 1:
            raise TrError(f"{where}: `{impl_type}::{name}` " + ("not found in the parsed sources" if not c else "is ambiguous"))
        return c[0]

    def need(self, it):
        k = it.key()
        if k in self.done:
            return self.done[k]
        if k in self.inprog:
            raise TrError(f"recursion through {k}")
        self.inprog.add(k)
        text = self.emit_item(it)
        self.inprog.discard(k)
        self.out.append(text)
        self.done[k] = self.fname(it)
        self.listing.append((self.fname(it), f"{it.rel}:{it.line} " + (f"impl {it.trait + ' for ' if it.trait else ''}{it.impl_type} :: " if it.impl_type else "") + it.name))
        return self.done[k]

    def need_dispatch(self, trait, name, where):
        """`R::name` for a generic `R: trait`: a match over the implementors."""
        key = (trait, name)
        if key in self.dispatch:
            return self.dispatch[key]
        impls = self.prog.impls.get(trait, [])
        if not impls:
            raise TrError(f"{where}: no impl of trait {trait} found")
        its = [self.find(ty, name, where, trait) for ty in impls]
        names = [self.need(x) for x in its]
        it0 = its[0]
        en = BOUND_ENUM[trait]
        dn = f"{trait}_{name}"
        if it0.kind == "const":
            sig, args = f"(T : {en}) : {self.lean_type(self.norm(it0.ret, it0))}", ""
        else:
            ps = []
            extra = [g for g in it0.generics]
            for g, b in extra:
                ps.append((g, BOUND_ENUM[b]))
            if it0.self_kind:
                ps.append(("self", "Nat"))
            for n, t in it0.params:
                ps.append((self.lvar(n), self.lean_type(self.norm(t, it0), it0)))
            sig = f"(T : {en}) " + " ".join(f"({n} : {t})" for n, t in ps) + " : " + self.result_type(it0)
            args = "".join(" " + n for n, _ in ps)
        text = (f"/-- dispatch of `<T as {trait}>::{name}` over the implementors of `{trait}` -/\n"
                f"def {dn} {sig} :=\n  match T with\n"
                + "".join(f"  | .{ty} => {nm}{args}\n" for ty, nm in zip(impls, names)))
        self.out.append(text)
        self.dispatch[key] = dn
        self.listing.append((dn, f"dispatch {trait}::{name}"))
        return dn

    def result_type(self, it):
        r = self.norm(it.ret, it)
        if any(self.norm(t, it) == "mutslice" for _, t in it.params):
            if r != ("Result", "unit"):
                raise TrError(f"{it.rel}:{it.line}: fn with a `&mut [u8]` parameter must return Result<(), _>")
            return "StoreRes"
        if it.self_kind == "refmut" and r == "unit":
            return it.impl_type
        lt = self.lean_type(r, it)
        if it.self_kind == "refmut":
            return f"({lt} × {it.impl_type})"
        return lt

    # ---- items
    def emit_item(self, it):
        where = f"{it.rel}:{it.line} {it.name}"
        ctx = Ctx(it)
        with scoped_parser():
            btoks = strip_allow_attrs(it.body[0][it.body[1]:it.body[2]])
            bp = RawBodyParser(btoks, 0, len(btoks), where)
            if it.kind == "const":
                e = bp.parse_expr()
                if not bp.c.eof():
                    bp.fail("tokens after the constant's value")
                stmts, tail = [], e
            else:
                stmts, tail = bp.parse_block_body()
        env = {}
        ps = []
        for g, b in self.sig_generics(it, where):
            ps.append(f"({g} : {b})")
            if b == "Nat":
                env[g] = "usize"
        if it.self_kind:
            env["self"] = it.impl_type
            ps.append(f"(self : {self.lean_type(it.impl_type, it)})")
        pre = ""
        for n, t in it.params:
            t = self.norm(t, it)
            env[n] = t
            ps.append(f"({self.lvar(n)} : {self.lean_type(t, it)})")
            if t == "mutslice":
                if ctx.mutbuf:
                    raise TrError(f"{where}: two `&mut [u8]` parameters")
                ctx.mutbuf = n
                pre = f"  let {self.lvar(n)} := mutslice_root {self.lvar(n)};\n"
        ret = self.norm(it.ret, it)
        try:
            if ctx.mut_self and self.norm(it.ret, it) == "unit":
                if tail is not None and tail[0] in ("if", "match", "for"):
                    stmts, tail = stmts + [("expr", tail[1], tail)], None
                if tail is not None:
                    raise TrError("a `&mut self` fn returning () with a tail expression")
                body, bt = self.self_block(stmts, env, ctx, "  "), ("withself", "unit")
                body = body  # the value IS self after the statements
            elif ctx.mut_self:
                # the value of a `&mut self` fn is (value, self after): pair them INSIDE the `let` chain
                body, bt = self.block(stmts, tail, env, ctx, "  ", final=True,
                                      wrap=lambda v, t: (v, t) if isinstance(t, tuple) and t[0] == "withself" else (f"({v}, self)", ("withself", t)))
            else:
                body, bt = self.block(stmts, tail, env, ctx, "  ", final=True)
        except TrError as ex:
            if str(ex).startswith(it.rel) or ".rs:" in str(ex).split(" ")[0]:
                raise
            raise TrError(f"{where}: {ex}")
        if ctx.mutbuf and bt == "storeres":
            pass
        elif ctx.mutbuf:
            if bt != ("Result", "buf"):
                raise TrError(f"{where}: body of a storing fn has type {bt}, expected Result<buffer>")
            body = f"  store_result {self.lvar(ctx.mutbuf)}\n  ({body.strip()})"
        elif ctx.mut_self and ret == "unit":
            pass
        elif ctx.mut_self:
            if not (isinstance(bt, tuple) and bt[0] == "withself"):
                body, bt = f"  ({body.strip()}, self)", ("withself", bt)
            self.unify(bt[1], ret, where)
        else:
            self.unify(bt, ret, where)
        doc = f"/-- `{'impl ' + (it.trait + ' for ' if it.trait else '') + it.impl_type + ' :: ' if it.impl_type else ''}{it.name}` ({it.rel}) -/\n"
        return doc + f"def {self.fname(it)} " + " ".join(ps) + (" " if ps else "") + ": " + self.result_type(it) + " :=\n" + pre + body + "\n"

    def sig_generics(self, it, where=""):
        """the generic parameters that become explicit arguments: [(name, lean type)]; colour generics (`C: PixelColor<Raw = X>`)
        carry no information beyond X and are dropped."""
        out = []
        for g, b in it.generics:
            if b == "const":
                out.append((g, "Nat"))
            elif b in BOUND_ENUM:
                out.append((g, BOUND_ENUM[b]))
            elif g in it.color_raw or b == "PixelColor":
                continue
            else:
                raise TrError(f"{where}: generic `{g}: {b}` not supported")
        return out

    def unify(self, got, want, where):
        if got == want or got == "lit" and want in INTS:
            return
        raise TrError(f"{where}: type mismatch: got {got}, expected {want}")

    # ---- blocks
    def block(self, stmts, tail, env, ctx, ind, final=False, wrap=None):
        env = dict(env)
        lines = []
        for st in stmts:
            if ctx.mut_self and (st[0] == "expr" or (st[0] == "let" and st[2][0] == "pwild")):
                l = self.self_stmt(st[2] if st[0] == "expr" else st[4], env, ctx, ind, discard=st[0] == "let")
                if l is not None:
                    lines.append(l)
                    continue
            if st[0] == "let":
                _, line, pat, ty, e, mut = st
                v, t = self.expr(e, env, ctx)
                if pat[0] == "ppath" and len(pat[2]) == 1:        # `const NAME: T = ..;` inside a body
                    pat = ("pbind", pat[1], pat[2][0])
                if pat[0] == "pbind":
                    env[pat[2]] = t
                    lines.append(f"{ind}let {self.lvar(pat[2])} := {v};\n")
                elif pat[0] == "ptuple" and isinstance(t, tuple) and t[0] == "tuple" and len(t[1]) == len(pat[2]) and all(p[0] == "pbind" for p in pat[2]):
                    for p, pt in zip(pat[2], t[1]):
                        env[p[2]] = pt
                    lines.append(f"{ind}let ({', '.join(self.lvar(p[2]) for p in pat[2])}) := {v};\n")
                else:
                    raise TrError(f"line {line}: `let` pattern not supported")
            elif st[0] == "assign":
                _, line, op, lhs, rhs = st
                lines.append(ind + self.assign(op, lhs, rhs, env, ctx, line) + "\n")
            elif st[0] == "expr":
                e = st[2]
                # `x.copy_from_slice(&y);` / `x[lo..hi].copy_from_slice(&y);` on a local array
                if e[0] == "mcall" and e[3] == "copy_from_slice" and len(e[5]) == 1:
                    tgt = e[2]
                    src, stp = self.expr(e[5][0], env, ctx)
                    if stp != "slice":
                        raise TrError(f"line {e[1]}: copy_from_slice from {stp}")
                    if tgt[0] == "path" and len(tgt[2]) == 1 and env.get(tgt[2][0]) == "slice":
                        n = self.lvar(tgt[2][0])
                        lines.append(f"{ind}let {n} := array_copy_from_slice {n} {src};\n")
                        continue
                    if tgt[0] == "index" and tgt[2][0] == "path" and len(tgt[2][2]) == 1 and env.get(tgt[2][2][0]) == "slice" and tgt[3][0] == "range":
                        n = self.lvar(tgt[2][2][0])
                        lo, _ = self.expr(tgt[3][3], env, ctx, "usize")
                        hi, _ = self.expr(tgt[3][4], env, ctx, "usize")
                        lines.append(f"{ind}let {n} := array_range_copy_from_slice {n} {lo} {hi} {src};\n")
                        continue
                    # through a mutable borrow: the value of the closure (handled by expr)
                    if tail is None and st is stmts[-1]:
                        v, t = self.expr(e, env, ctx)
                        if t == "buf":
                            return "".join(lines) + ind + v, "buf"
                raise TrError(f"line {e[1]}: expression statement `{e[0]}` has no translation")
            else:
                raise TrError(f"statement {st[0]} not supported")
        if tail is None:
            # a block ending in an assignment through a mutable borrow: `{ *byte = v; }`
            if stmts and stmts[-1][0] == "assign" and lines and lines[-1].lstrip().startswith("-- buf:"):
                v = lines.pop().strip()[len("-- buf:"):]
                return "".join(lines) + ind + v, "buf"
            raise TrError("block without a value")
        v, t = self.expr(tail, env, ctx)
        if wrap is not None:
            v, t = wrap(v, t)
        return "".join(lines) + ind + v, t

    @staticmethod
    def unit_stmts(block):
        """the statements of a `{ .. }` used for its effect: a trailing `if` / `match` / `for` without `;` is a statement too.
        None when the block has a genuine value."""
        stmts, tail = list(block[2]), block[3]
        if tail is not None:
            if tail[0] not in ("if", "match", "for"):
                return None
            stmts.append(("expr", tail[1], tail))
        return stmts

    def self_block(self, stmts, env, ctx, ind):
        """the statements of a block run for their effect on `self` (no value): Lean text whose value is `self` afterwards."""
        text, t = self.block(stmts, ("path", 0, ["self"], []), env, ctx, ind)
        return text

    def lean_pat(self, p, t, env, line):
        """pattern -> Lean pattern; binds the names in env."""
        if p[0] == "pwild":
            return "_"
        if p[0] == "pbind":
            env[p[2]] = t
            return self.lvar(p[2])
        if p[0] == "ptuple" and isinstance(t, tuple) and t[0] == "tuple" and len(t[1]) == len(p[2]):
            return "(" + ", ".join(self.lean_pat(q, qt, env, line) for q, qt in zip(p[2], t[1])) + ")"
        if p[0] == "pctor" and isinstance(t, tuple):
            ctor = p[2][-1]
            table = {("Result", "Ok", 1): "Result.ok", ("Result", "Err", 1): "Result.err", ("Option", "Some", 1): "some",
                     ("Option", "None", 0): "none"}
            k = (t[0], ctor, len(p[3]))
            if k in table:
                if ctor == "Err":
                    return "Result.err"
                return "(" + table[k] + "".join(" " + self.lean_pat(q, t[1], env, line) for q in p[3]) + ")" if p[3] else table[k]
        raise TrError(f"line {line}: pattern not supported for a value of type {t}")

    def self_field_place(self, e, ctx):
        """`self.f` (also behind `&mut`) -> field name, or None"""
        if e[0] in ("refmut", "ref"):
            e = e[2]
        if e[0] == "field" and e[2][0] == "path" and e[2][2] == ["self"] and ctx.mut_self:
            return e[3]
        return None

    def self_stmt(self, e, env, ctx, ind, discard=False):
        """an expression statement whose effect is on `self`: a `let self := ..;` line, or None when it is not of that kind."""
        k, line = e[0], e[1]
        if k == "for":
            _, _, pat, it, body = e
            v, t = self.expr(it, env, ctx)
            if t != "pixels":
                raise TrError(f"line {line}: `for` over a {t} not supported")
            if not (pat[0] == "pctor" and pat[2] == ["Pixel"] and len(pat[3]) == 2 and all(q[0] in ("pbind", "pwild") for q in pat[3])):
                raise TrError(f"line {line}: the pattern of `for` must be `Pixel(p, c)`")
            env2 = dict(env)
            col = self.norm(("Self::Color",), ctx.item)
            names = [self.lean_pat(q, qt, env2, line) for q, qt in zip(pat[3], ["Point", col])]
            if self.unit_stmts(body) is None:
                raise TrError(f"line {line}: body of `for` has a value")
            b = self.self_block(self.unit_stmts(body), env2, ctx, ind + "    ")
            return f"{ind}let self := for_loop {v} self (fun self ({names[0]}, {names[1]}) =>\n{b});\n"
        if k == "if" and ctx.mut_self:
            c, ct = self.expr(e[2], env, ctx)
            self.unify(ct, "bool", f"line {line}: condition")
            if self.unit_stmts(e[3]) is None or (e[4] is not None and self.unit_stmts(e[4]) is None):
                return None
            a = self.self_block(self.unit_stmts(e[3]), env, ctx, ind + "    ")
            b = self.self_block(self.unit_stmts(e[4]), env, ctx, ind + "    ") if e[4] is not None else ind + "    self"
            return f"{ind}let self := if {c} then (\n{a}) else (\n{b});\n"
        if k == "match" and ctx.mut_self:
            sc, st = self.expr(e[2], env, ctx)
            arms = []
            for pat, body in e[3]:
                env2 = dict(env)
                lp = self.lean_pat(pat, st, env2, line)
                if body[0] == "unit":
                    b = ind + "      self"
                elif body[0] == "block" and self.unit_stmts(body) is not None:
                    b = self.self_block(self.unit_stmts(body), env2, ctx, ind + "      ")
                else:
                    return None
                arms.append(f"{ind}  | {lp} => (\n{b})\n")
            return f"{ind}let self := match {sc} with\n" + "".join(arms) + f"{ind}  ;\n"
        if k == "mcall":
            _, _, recv, name, turbofish, args = e
            if recv[0] == "path" and recv[2] == ["self"] and ctx.mut_self and turbofish is None:
                it = self.find(ctx.self_type, name, f"line {line}", spec=ctx.item.spec)
                if it.self_kind == "refmut" and self.norm(it.ret, it) == "unit":
                    v, _ = self.call(it, [g for g, _ in self.sig_generics(it)], "self", args, env, ctx, line)
                    return f"{ind}let self := {v};\n"
                return None
            if name == "store" and turbofish is not None and len(args) == 2 and self.self_field_place(args[0], ctx):
                if not discard:
                    raise TrError(f"line {line}: the result of `store` must be discarded with `let _ =`")
                f = self.self_field_place(args[0], ctx)
                r, rt = self.expr(recv, env, ctx)
                if rt not in self.raw_types:
                    raise TrError(f"line {line}: `store` on a {rt}")
                it = self.find(rt, "store", f"line {line}", "RawData")
                idx, _ = self.expr(args[1], env, ctx, "usize")
                g = self.generic_arg(turbofish, ctx, line)
                return f"{ind}let self := {{ self with {f} := ({self.need(it)} {g} {r} self.{f} {idx}).2 }};\n"
            if name == "copy_from_slice" and len(args) == 1 and recv[0] == "index" and self.self_field_place(recv[2], ctx) and recv[3][0] == "range":
                f = self.self_field_place(recv[2], ctx)
                src, stp = self.expr(args[0], env, ctx)
                self.unify(stp, "slice", f"line {line}: copy_from_slice")
                lo, _ = self.expr(recv[3][3], env, ctx, "usize")
                hi, _ = self.expr(recv[3][4], env, ctx, "usize")
                return f"{ind}let self := {{ self with {f} := (array_range_copy_from_slice self.{f} {lo} {hi} {src}) }};\n"
        return None

    def assign(self, op, lhs, rhs, env, ctx, line):
        if lhs[0] == "index" and op == "=" and self.self_field_place(lhs[2], ctx) and lhs[3][0] not in ("range", "rangefrom"):
            f = self.self_field_place(lhs[2], ctx)
            i, _ = self.expr(lhs[3], env, ctx, "usize")
            v, t = self.expr(rhs, env, ctx, "u8")
            self.unify(t, "u8", f"line {line}: element assigned to self.{f}")
            return f"let self := {{ self with {f} := (array_index_assign self.{f} {i} {v}) }};"
        # self.field = e / self.field += e
        if lhs[0] == "field" and lhs[2][0] == "path" and lhs[2][2] == ["self"] and ctx.mut_self:
            ft = dict(self.prog.structs[ctx.self_type])[lhs[3]]
            v, t = self.expr(rhs, env, ctx, ft)
            if op != "=":
                v = f"({ft}_{BINOPS[op[0]]} self.{lhs[3]} {v})"
            return f"let self := {{ self with {lhs[3]} := {v} }};"
        if lhs[0] == "deref" and op == "=":
            tgt, tt = self.expr(lhs[2], env, ctx)
            if tt != "mutu8":
                raise TrError(f"line {line}: assignment through `*` of a {tt}")
            v, t = self.expr(rhs, env, ctx, "u8")
            self.unify(t, "u8", f"line {line}")
            return f"-- buf:(mutu8_write {tgt} {v})"
        raise TrError(f"line {line}: assignment not supported")

    # ---- expressions
    def generic_arg(self, g, ctx, line):
        g = ctx.self_type if g == "Self" else g
        if g in ctx.gen:
            return g
        if g in self.raw_types:
            return f"RawTy.{g}"
        if g in self.orders:
            return f"DataOrderTy.{g}"
        raise TrError(f"line {line}: generic argument `{g}` not known")

    def call(self, it, gens, self_arg, args, env, ctx, line):
        name = self.need(it)
        parts = [name] + gens
        if self_arg is not None:
            parts.append(self_arg)
        if len(args) != len(it.params):
            raise TrError(f"line {line}: {name}: {len(args)} arguments for {len(it.params)} parameters")
        for a, (pn, ptp) in zip(args, it.params):
            ptp = self.norm(ptp, it)
            v, t = self.expr(a, env, ctx, ptp if ptp in INTS else None)
            if ptp == "mutslice" and t == "mutslice":
                raise TrError(f"line {line}: passing a `&mut [u8]` on is only supported through a dispatching call")
            self.unify(t, ptp, f"line {line}: argument `{pn}` of {name}")
            parts.append(v)
        ret = self.norm(it.ret, it)
        return "(" + " ".join(parts) + ")", ret

    def expr(self, e, env, ctx, want=None):
        k, line = e[0], e[1]
        if k == "int":
            t = e[3] or want
            if t is None:
                return f"({e[2]} : Nat)", "lit"
            return f"({e[2]} : Nat)", t
        if k == "paren":
            return self.expr(e[2], env, ctx, want)
        if k in ("ref", "deref"):
            v, t = self.expr(e[2], env, ctx, want)
            if k == "deref" and t == "mutu8":
                return f"(mutu8_read {v})", "u8"
            return v, t
        if k == "unit":
            return "()", "unit"
        if k == "tuple":
            vs = [self.expr(x, env, ctx) for x in e[2]]
            return "(" + ", ".join(v for v, _ in vs) + ")", ("tuple", tuple(t for _, t in vs))
        if k == "block":
            v, t = self.block(e[2], e[3], env, ctx, "    ")
            return "(\n" + v + ")", t
        if k == "if":
            c, ct = self.expr(e[2], env, ctx)
            self.unify(ct, "bool", f"line {line}: condition")
            if e[4] is None:
                raise TrError(f"line {line}: `if` without `else` used as a value")
            a, at = self.expr(e[3], env, ctx, want)
            b, bt = self.expr(e[4], env, ctx, want)
            if at == "lit":
                at = bt
            if bt != at and bt != "lit":
                raise TrError(f"line {line}: arms of `if` have types {at} / {bt}")
            return f"(if {c} then {a} else {b})", at
        if k == "arrayrep":
            v, _ = self.expr(e[2], env, ctx, "u8")
            n, _ = self.expr(e[3], env, ctx, "usize")
            return f"(array_repeat {v} {n})", "slice"
        if k == "path":
            return self.path(e, env, ctx, want)
        if k == "field":
            v, t = self.expr(e[2], env, ctx)
            if e[3] == "0":
                st = self.prog.structs.get(t)
                if not (isinstance(st, tuple) and st[0] == "tuple"):
                    raise TrError(f"line {line}: `.0` of {t}")
                return v, st[1]       # single-field tuple struct: transparent
            if t == "Point" and e[3] in ("x", "y"):
                return f"(Point_{e[3]} {v})", "i32"
            st = self.prog.structs.get(t)
            if not isinstance(st, list) or e[3] not in dict(st):
                raise TrError(f"line {line}: field `{e[3]}` of {t}")
            return f"{v}.{e[3]}", dict(st)[e[3]]
        if k == "cast":
            v, t = self.expr(e[2], env, ctx)
            to = self.norm(e[3] if not isinstance(e[3], tuple) or e[3][0] != "Self::Storage" else e[3], ctx.item)
            if (t, to) not in CASTS:
                raise TrError(f"line {line}: cast {t} as {to} not supported")
            return f"({CASTS[(t, to)]} {v})", to
        if k == "not":
            v, t = self.expr(e[2], env, ctx, want)
            if t not in ("u8", "bool"):
                raise TrError(f"line {line}: `!` on {t}")
            return f"({t}_not {v})", t
        if k == "bin":
            return self.binop(e, env, ctx, want)
        if k == "index":
            b, bt = self.expr(e[2], env, ctx)
            if bt != "slice" or e[3][0] != "range":
                raise TrError(f"line {line}: indexing {bt} with `{e[3][0]}` not supported")
            lo, _ = self.expr(e[3][3], env, ctx, "usize")
            hi, _ = self.expr(e[3][4], env, ctx, "usize")
            return f"(slice_index_range {b} {lo} {hi})", "slice"
        if k == "struct":
            name = ctx.self_type if e[2] == ["Self"] else e[2][-1]
            st = self.prog.structs.get(name)
            if not isinstance(st, list):
                raise TrError(f"line {line}: struct literal of `{name}`")
            if [f for f, _ in e[3]] != [f for f, _ in st]:
                raise TrError(f"line {line}: struct literal fields differ from the declaration of {name}")
            fs = []
            for (f, fe), (_, ft) in zip(e[3], st):
                if ft == "phantom":
                    if not (fe[0] == "path" and fe[2] == ["PhantomData"]):
                        raise TrError(f"line {line}: PhantomData field `{f}` initialised with something else")
                    continue
                if ft == "unit":
                    continue        # `n_assert: Self::CHECK_N`: a compile-time assertion, no run-time content
                v, t = self.expr(fe, env, ctx, ft if ft in INTS else None)
                self.unify(t, ft, f"line {line}: field {f}")
                fs.append(f"{f} := {v}")
            return "{ " + ", ".join(fs) + f" : {name} }}", name
        if k == "callexpr":
            return self.callexpr(e, env, ctx, want)
        if k == "mcall":
            return self.mcall(e, env, ctx, want)
        if k == "closure":
            raise TrError(f"line {line}: closure outside a supported combinator")
        raise TrError(f"line {line}: expression `{k}` not supported")

    def path(self, e, env, ctx, want):
        line, segs = e[1], list(e[2])
        gens = e[3] if len(e) > 3 else []
        if len(segs) == 1:
            n = segs[0]
            if n in env:
                return self.lvar(n), env[n]
            if n == "OutOfBoundsError":
                return "OutOfBoundsError", "err"
            if n in ("true", "false"):
                return n, "bool"
            raise TrError(f"line {line}: unknown name `{n}`")
        if segs[0] == "Self":
            segs[0] = ctx.self_type
        if len(segs) == 3 and segs[0] in ctx.item.color_raw and segs[1] == "Raw":      # C::Raw::BITS_PER_PIXEL
            segs = [ctx.item.color_raw[segs[0]], segs[2]]
        if len(segs) == 3 and segs[1] in ctx.item.assoc:          # Self::Storage::MAX
            segs = [self.norm(("Self::" + segs[1],), ctx.item), segs[2]]
        if len(segs) == 2:
            ty, n = segs
            if (ty, n) in ASSOC_CONSTS:
                return ASSOC_CONSTS[(ty, n)]
            if ty in ctx.gen:
                tr = ctx.gen[ty]
                it0 = self.find(self.prog.impls[tr][0], n, f"line {line}", tr)
                if it0.kind != "const":
                    raise TrError(f"line {line}: `{ty}::{n}` used as a value")
                return f"({self.need_dispatch(tr, n, f'line {line}')} {ty})", self.norm(it0.ret, it0)
            if ty in self.raw_types or ty in self.orders:
                it = self.find(ty, n, f"line {line}")
                if it.kind == "const":
                    return self.need(it), self.norm(it.ret, it)
        raise TrError(f"line {line}: path `{'::'.join(map(str, segs))}` not supported as a value")

    def binop(self, e, env, ctx, want):
        _, line, op, l, r = e
        if op in ("&&", "||"):
            a, at = self.expr(l, env, ctx)
            b, bt = self.expr(r, env, ctx)
            self.unify(at, "bool", f"line {line}")
            self.unify(bt, "bool", f"line {line}")
            return f"(bool_{'and' if op == '&&' else 'or'} {a} {b})", "bool"
        if op in ("<<", ">>"):
            a, at = self.expr(l, env, ctx, want)
            b, bt = self.expr(r, env, ctx, "usize")      # any unsigned type is accepted as the shift amount
            if at not in ("u8", "u16", "u32") or bt not in INTS:
                raise TrError(f"line {line}: `{op}` on {at} by {bt} not supported")
            return f"({at}_{BINOPS[op]} {a} {b})", at
        a, at = self.expr(l, env, ctx, want if op not in CMP else None)
        b, bt = self.expr(r, env, ctx, at if at != "lit" else (want if op not in CMP else None))
        if at == "lit" and bt != "lit":
            a, at = self.expr(l, env, ctx, bt)
        if at == "lit":
            raise TrError(f"line {line}: operands of `{op}` are both untyped literals")
        if at != bt or at not in INTS:
            raise TrError(f"line {line}: `{op}` on {at} and {bt} not supported")
        return f"({at}_{BINOPS[op]} {a} {b})", ("bool" if op in CMP else at)

    def fn_value(self, e, arg_t, env, ctx, line):
        """a path used as a function value (`Self::new`, `Into::into`): (lean function text, result type)."""
        segs = list(e[2])
        if segs == ["Into", "into"]:
            ret = self.norm(ctx.item.ret, ctx.item)
            tgt = ret[1] if isinstance(ret, tuple) else ret       # `Option<Self>`: the conversion's target is the item type
            it = self.find(tgt, "from", f"line {line}", "From")
        else:
            if segs[0] == "Self":
                segs[0] = ctx.self_type
            if len(segs) != 2:
                raise TrError(f"line {line}: function value `{'::'.join(segs)}` not supported")
            it = self.find(segs[0], segs[1], f"line {line}")
        if it.self_kind or len(it.params) != 1 or it.generics:
            raise TrError(f"line {line}: `{'::'.join(segs)}` is not a plain one-argument function")
        self.unify(arg_t, self.norm(it.params[0][1], it), f"line {line}: argument of {'::'.join(segs)}")
        return self.need(it), self.norm(it.ret, it)

    def closure(self, f, arg_t, env, ctx, line, self_state=False):
        """(lean `fun`, result type) of a closure / function value applied to a value of type arg_t."""
        if f[0] == "path":
            return self.fn_value(f, arg_t, env, ctx, line)
        if f[0] != "closure" or len(f[2]) != 1:
            raise TrError(f"line {line}: a one-parameter closure or a function path is expected here")
        p, body = f[2][0], f[3]
        env2 = dict(env)
        if p != "_":
            env2[p] = arg_t
        pn = "_" if p == "_" else self.lvar(p)
        if self_state:
            # `|_| { self.f = ..; }`: a state transformer of `self`
            if body[0] != "block" or body[3] is not None or not all(s[0] == "assign" for s in body[2]):
                raise TrError(f"line {line}: the closure of `inspect` must be a block of assignments to fields of self")
            ls = [self.assign(s[2], s[3], s[4], env2, ctx, s[1]) for s in body[2]]
            return f"(fun {pn} self => " + " ".join(ls) + " self)", "self"
        if body[0] == "assignexpr":
            v = self.assign("=", body[2], body[3], env2, ctx, body[1])
            return f"(fun {pn} => {v[len('-- buf:'):]})", "buf"
        if body[0] == "block":
            v, t = self.block(body[2], body[3], env2, ctx, "      ")
            return f"(fun {pn} =>\n{v})", t
        v, t = self.expr(body, env2, ctx)
        return f"(fun {pn} => {v})", t

    def callexpr(self, e, env, ctx, want):
        _, line, f, args = e
        if f[0] != "path":
            raise TrError(f"line {line}: call of a computed function")
        segs, gens = list(f[2]), (f[3] if len(f) > 3 else [])
        if segs[0] == "Self":
            segs[0] = ctx.self_type
        # tuple-struct constructor `Self(v)` / `RawU1(v)`: transparent
        if len(segs) == 1 and isinstance(self.prog.structs.get(segs[0]), tuple):
            v, t = self.expr(args[0], env, ctx, self.prog.structs[segs[0]][1])
            self.unify(t, self.prog.structs[segs[0]][1], f"line {line}: field of {segs[0]}")
            return v, segs[0]
        if segs == ["Ok"] and len(args) == 1:
            v, t = self.expr(args[0], env, ctx)
            return f"(Result.ok {v})", ("Result", t)
        if segs == ["Some"] and len(args) == 1:
            v, t = self.expr(args[0], env, ctx)
            return f"(some {v})", ("Option", t)
        if len(segs) == 1:
            it = self.find(None, segs[0], f"line {line}")
            if len(gens) != len(it.generics):
                raise TrError(f"line {line}: `{segs[0]}` needs {len(it.generics)} explicit generic arguments")
            return self.call(it, [self.generic_arg(g, ctx, line) for g in gens], None, args, env, ctx, line)
        if len(segs) == 2 and tuple(segs) in ASSOC_FNS:
            fn, pts, rt = ASSOC_FNS[tuple(segs)]
            vs = []
            for a, pt in zip(args, pts):
                v, t = self.expr(a, env, ctx)
                self.unify(t, pt, f"line {line}: argument of {'::'.join(segs)}")
                vs.append(v)
            return f"({fn} {' '.join(vs)})", rt
        if len(segs) == 2 and segs[0] in ctx.gen:
            # R::load::<O>(..): dispatch over the implementors of R's bound
            tr = ctx.gen[segs[0]]
            dn = self.need_dispatch(tr, segs[1], f"line {line}")
            it0 = self.find(self.prog.impls[tr][0], segs[1], f"line {line}", tr)
            own = it0.generics
            if len(gens) != len(own):
                raise TrError(f"line {line}: `{'::'.join(segs)}` needs {len(own)} explicit generic arguments")
            parts = [dn, segs[0]] + [self.generic_arg(g, ctx, line) for g in gens]
            if it0.self_kind:
                raise TrError(f"line {line}: dispatching call with a receiver not supported")
            for a, (pn, ptp) in zip(args, it0.params):
                v, t = self.expr(a, env, ctx)
                self.unify(t, self.norm(ptp, it0), f"line {line}: argument {pn}")
                parts.append(v)
            ret = self.norm(it0.ret, it0)
            ret = ("Option", segs[0]) if ret == ("Option", it0.impl_type) else ret
            return "(" + " ".join(parts) + ")", ret
        if len(segs) >= 2 and segs[-2] in self.prog.impls and ctx.self_type in self.prog.impls[segs[-2]]:
            # load_store::LoadStore::<O>::load(buffer, index): the impl of that trait for the enclosing type
            it = self.find(ctx.self_type, segs[-1], f"line {line}", segs[-2])
            g = [self.generic_arg(x, ctx, line) for x in gens]
            if len(g) != len(it.generics):
                raise TrError(f"line {line}: generic arguments of `{'::'.join(segs)}`")
            name = self.need(it)
            parts, rest = [name] + g, list(args)
            if it.self_kind:
                v, t = self.expr(rest.pop(0), env, ctx)
                self.unify(t, ctx.self_type, f"line {line}: receiver")
                parts.append(v)
            forwarded = False
            for a, (pn, ptp) in zip(rest, it.params):
                ptp = self.norm(ptp, it)
                v, t = self.expr(a, env, ctx)
                self.unify(t, ptp, f"line {line}: argument {pn}")
                if ptp == "mutslice":
                    forwarded = True
                    v = f"(mutslice_content {v})"
                parts.append(v)
            ret = self.norm(it.ret, it)
            if forwarded:
                # the callee returns (is_ok, buffer after): that IS this function's own result
                return "(" + " ".join(parts) + ")", "storeres"
            return "(" + " ".join(parts) + ")", ret
        if len(segs) == 2:
            it = self.find(segs[0], segs[1], f"line {line}")
            if it.self_kind:
                raise TrError(f"line {line}: `{'::'.join(segs)}` called without receiver")
            own = [g for g in it.generics]
            return self.call(it, [g for g, _ in own], None, args, env, ctx, line)
        raise TrError(f"line {line}: call of `{'::'.join(segs)}` not supported")

    def mcall(self, e, env, ctx, want):
        _, line, recv, name, turbofish, args = e
        if turbofish is not None:
            raise TrError(f"line {line}: turbofish on method `{name}` not supported")
        r, rt = self.expr(recv, env, ctx)
        if isinstance(rt, str) and rt.startswith("color:") and name == "into" and not args:
            return f"(color_into_raw {r})", rt[6:]
        # Option / Result combinators
        if isinstance(rt, tuple) and rt[0] in ("Option", "Result"):
            kind, inner = rt
            pre = "option" if kind == "Option" else "result"
            if name == "map" and len(args) == 1:
                f, ft = self.closure(args[0], inner, env, ctx, line)
                return f"({pre}_map {r} {f})", (kind, ft)
            if name == "and_then" and len(args) == 1 and kind == "Option":
                f, ft = self.closure(args[0], inner, env, ctx, line)
                if not (isinstance(ft, tuple) and ft[0] == "Option"):
                    raise TrError(f"line {line}: closure of and_then returns {ft}")
                return f"(option_and_then {r} {f})", ft
            if name == "ok_or" and len(args) == 1 and kind == "Option":
                v, t = self.expr(args[0], env, ctx)
                self.unify(t, "err", f"line {line}: ok_or")
                return f"(option_ok_or {r} {v})", ("Result", inner)
            if name == "copied" and not args and kind == "Option":
                return f"(option_copied {r})", rt
            if name == "inspect" and len(args) == 1 and kind == "Option" and ctx.mut_self:
                f, _ = self.closure(args[0], inner, env, ctx, line, self_state=True)
                return f"(option_inspect_self {r} {f} self)", ("withself", rt)
            raise TrError(f"line {line}: method `{name}` on {kind} is not known to the translator")
        # methods of user types
        if rt in self.prog.structs or rt in self.raw_types:
            it = self.find(rt, name, f"line {line}")
            if not it.self_kind:
                raise TrError(f"line {line}: `{name}` has no receiver")
            gens = [g for g, _ in self.sig_generics(it)]
            v, t = self.call(it, gens, r, args, env, ctx, line)
            if it.self_kind == "refmut":
                if not (recv[0] == "path" and recv[2] == ["self"] and ctx.mut_self):
                    raise TrError(f"line {line}: `&mut self` method on something other than self")
                return v, ("withself", t)
            return v, t
        shape = ()
        vals = []
        if len(args) == 1:
            a = args[0]
            if a[0] == "rangefrom":
                shape = "from"
                vals = [self.expr(a[2], env, ctx, "usize")[0]]
            elif a[0] == "range":
                shape = "range"
                vals = [self.expr(a[3], env, ctx, "usize")[0], self.expr(a[4], env, ctx, "usize")[0]]
            else:
                shape = "v"
                v, t = self.expr(a, env, ctx, rt if rt in INTS else ("usize" if name in ("get", "get_mut") else None))
                vals = [v]
        elif len(args) > 1:
            raise TrError(f"line {line}: method `{name}` with {len(args)} arguments not known")
        m = METHODS.get((rt, name, shape))
        if m is None:
            raise TrError(f"line {line}: method `{name}` on {rt} is not known to the translator")
        return f"({m[0]} {r}{''.join(' ' + v for v in vals)})", m[1]


# ---------------------------------------------------------------------------------------------------------------
# driver
# ---------------------------------------------------------------------------------------------------------------

HEADER = """/-
  EG.Generated.RawSrc — GENERATED by tools/tr_rawsrc.py from the Rust text of
    core/src/pixelcolor/raw/{mod,load_store,to_bytes}.rs and src/iterator/raw.rs. DO NOT EDIT.

  One `def` per Rust function / associated constant (macros expanded per invocation), mirroring the Rust text arm
  for arm. Every primitive is a function of the hand-written prelude EG/Model/RawSrcPrelude.lean. Equivalence with
  the hand-written model EG/Model/Raw.lean: EG/Props/C11/Generated*.lean.
-/
import EG.Model.RawSrcPrelude
set_option linter.unusedVariables false
namespace EG.Generated.RawSrc
open EG.RawSrcPrelude

"""

ROOT_NAMES = [
    (None, None, "bit_position"),
    ("RawDataIterator", None, "new"), ("RawDataIterator", "Iterator", "next"), ("RawDataIterator", "Iterator", "nth"),
    ("RawDataIterator", "Iterator", "size_hint"),
    ("RawDataSlice", None, "new"), ("RawDataSlice", "IntoIterator", "into_iter"),
]
DISPATCH_ROOTS = [("RawData", "BITS_PER_PIXEL"), ("RawData", "MASK"), ("RawData", "load"), ("RawData", "store"),
                  ("RawData", "into_inner"), ("RawData", "from_u32"), ("DataOrder", "IS_ALTERNATE_ORDER")]
INVENTORY_TYPES = ["RawDataIterator", "RawDataSlice"]


def load(repo):
    prog = Prog()
    macro_counts = {}
    for rel in FILES:
        p = os.path.join(repo, rel)
        if not os.path.exists(p):
            raise TrError(f"{rel}: file not found")
        toks = tokenize(strip_comments(open(p).read(), rel), rel)
        toks, counts = expand_macros(toks, rel)
        macro_counts.update(counts)
        scan_items(Cursor(toks), prog, rel)
    return prog, macro_counts


def translate(repo):
    prog, macro_counts = load(repo)
    em = Emitter(prog)
    if not em.raw_types or not em.orders:
        raise TrError("no impls of RawData / DataOrder found")
    text = [HEADER]
    text.append("/-- the implementors of `RawData` (one per `impl_raw_data!` invocation) -/\ninductive RawTy where\n"
                + "".join(f"  | {t}\n" for t in em.raw_types) + "  deriving DecidableEq, Repr\n\n")
    text.append("/-- the implementors of `DataOrder` -/\ninductive DataOrderTy where\n"
                + "".join(f"  | {t}\n" for t in em.orders) + "  deriving DecidableEq, Repr\n\n")
    for sn in INVENTORY_TYPES:
        st = prog.structs.get(sn)
        if not isinstance(st, list):
            raise TrError(f"struct {sn} not found")
        fs = [(f, t) for f, t in st if t != "phantom"]
        text.append(f"/-- `struct {sn}` (from the Rust declaration; `PhantomData` fields dropped) -/\nstructure {sn} where\n"
                    + "".join(f"  {f} : {em.lean_type(t)}\n" for f, t in fs) + "  deriving DecidableEq, Repr\n\n")
    for tr_, n in DISPATCH_ROOTS:
        em.need_dispatch(tr_, n, "roots")
    for ty in em.raw_types:
        for n in ("new", "new_unmasked"):
            em.need(em.find(ty, n, "roots"))
        em.need(em.find(ty, "from", "roots", "From"))
        em.need(em.find(ty, "to_be_bytes", "roots", "ToBytes"))
        em.need(em.find(ty, "to_le_bytes", "roots", "ToBytes"))
    for k in ROOT_NAMES:
        if k not in prog.items:
            raise TrError(f"root {k} not found")
        em.need(prog.items[k])
    text.append("\n".join(em.out))
    untranslated = {}
    for (it, trn, n), f in sorted(prog.items.items(), key=lambda kv: (kv[0][0] or "", kv[0][1] or "", kv[0][2])):
        if (it in INVENTORY_TYPES or it in em.raw_types or it is None) and (it, trn, n) not in em.done:
            untranslated.setdefault(f"impl {trn + ' for ' if trn else ''}{it}" if it else "free", []).append(n)
    text.append("\n/-- functions / constants of the parsed files that are NOT translated -/\n"
                "def untranslated : List (String × List String) := [\n"
                + ",\n".join(f'  ("{k}", [' + ", ".join(f'"{n}"' for n in v) + "])" for k, v in untranslated.items()) + "]\n")
    text.append("\n/-- what was translated (Lean name, Rust origin) -/\ndef translated : List (String × String) := [\n"
                + ",\n".join(f'  ("{a}", "{b}")' for a, b in em.listing) + "]\n")
    text.append("\nend EG.Generated.RawSrc\n")
    info = {"functions": len(em.listing), "macro_invocations": macro_counts, "raw_types": em.raw_types, "orders": em.orders,
            "untranslated": untranslated}
    return "".join(text), info, prog, em


FB_FILE = "src/framebuffer.rs"
FB_HEADER = """/-
  EG.Generated.FbSrc — GENERATED by tools/tr_rawsrc.py from the Rust text of src/framebuffer.rs. DO NOT EDIT.

  `buffer_size_bpp`, `Framebuffer::new`, the ten `set_pixel` (three expansions of `impl_bit!`, RawU8, six of `impl_bytes!`)
  and the ten `DrawTarget::draw_iter`. Const generics `WIDTH`, `HEIGHT`, `N` and the data order are explicit arguments;
  a colour `c: C` with `C: PixelColor<Raw = X>` is its raw value (`c.into()` = `color_into_raw`). Equivalence with the
  hand-written model EG/Model/Framebuffer.lean: EG/Props/C10/Generated.lean.
-/
import EG.Generated.RawSrc
set_option linter.unusedVariables false
namespace EG.Generated.FbSrc
open EG.RawSrcPrelude EG.Generated.RawSrc

"""
FB_ROOT_NAMES = ("new", "set_pixel", "draw_iter")


def translate_fb(repo, prog, em):
    p = os.path.join(repo, FB_FILE)
    if not os.path.exists(p):
        raise TrError(f"{FB_FILE}: file not found")
    toks = tokenize(strip_comments(open(p).read(), FB_FILE), FB_FILE)
    toks, counts = expand_macros(toks, FB_FILE)
    scan_items(Cursor(toks), prog, FB_FILE)
    start, lstart = len(em.out), len(em.listing)
    st = prog.structs.get("Framebuffer")
    if not isinstance(st, list):
        raise TrError("struct Framebuffer not found")
    fs = [(f, t) for f, t in st if t not in ("phantom", "unit")]
    text = [FB_HEADER, "/-- `struct Framebuffer` (from the Rust declaration; `PhantomData` and `()` fields dropped) -/\nstructure Framebuffer where\n"
            + "".join(f"  {f} : {em.lean_type(t)}\n" for f, t in fs) + "  deriving DecidableEq, Repr\n\n"]
    em.need(em.find(None, "buffer_size_bpp", "roots"))
    for k in list(prog.order):
        it = prog.items[k]
        if it.impl_type == "Framebuffer" and it.name in FB_ROOT_NAMES:
            em.need(it)
    text.append("\n".join(em.out[start:]))
    untranslated = {}
    for k, f in sorted(prog.items.items(), key=lambda kv: (kv[0][0] or "", kv[0][1] or "", kv[0][2])):
        if f.rel == FB_FILE and k not in em.done:
            untranslated.setdefault(f"impl {k[1] + ' for ' if k[1] else ''}{k[0]}" if k[0] else "free", []).append(k[2])
    text.append("\n/-- functions / constants of src/framebuffer.rs that are NOT translated -/\n"
                "def untranslated : List (String × List String) := [\n"
                + ",\n".join(f'  ("{k}", [' + ", ".join(f'"{n}"' for n in v) + "])" for k, v in untranslated.items()) + "]\n")
    text.append("\n/-- what was translated (Lean name, Rust origin) -/\ndef translated : List (String × String) := [\n"
                + ",\n".join(f'  ("{a}", "{b}")' for a, b in em.listing[lstart:]) + "]\n")
    text.append("\nend EG.Generated.FbSrc\n")
    return "".join(text), {"functions": len(em.listing) - lstart, "macro_invocations": counts, "untranslated": untranslated}


def failed_fb_file(reason):
    r = reason.replace("\\", "\\\\").replace('"', '\\"').replace("\n", " ")
    return ("/-\n  EG.Generated.FbSrc — GENERATED by tools/tr_rawsrc.py. THE TRANSLATION FAILED: src/framebuffer.rs contains a construct\n"
            "  the translator does not know. No function is defined here, so the theorems of EG/Props/C10/Generated.lean do\n"
            "  not build.\n-/\nnamespace EG.Generated.FbSrc\n\n"
            f"def translationFailed : String := \"{r}\"\n\nend EG.Generated.FbSrc\n")


def failed_file(reason):
    r = reason.replace("\\", "\\\\").replace('"', '\\"').replace("\n", " ")
    return ("/-\n  EG.Generated.RawSrc — GENERATED by tools/tr_rawsrc.py. THE TRANSLATION FAILED: the Rust source of the raw data\n"
            "  layer contains a construct the translator does not know. No function is defined here, so the `_src_eq_model`\n"
            "  theorems of EG/Props/C11/Generated*.lean do not build.\n-/\n"
            "namespace EG.Generated.RawSrc\n\n"
            f"def translationFailed : String := \"{r}\"\n\nend EG.Generated.RawSrc\n")


def generate(repo):
    try:
        text, info, prog, em = translate(repo)
        # the framebuffer is a part of its own: its failure breaks FbSrc.lean (C10's theorems) only
        try:
            fb_text, fb_info = translate_fb(repo, prog, em)
            info["fb"] = fb_info
        except TrError as ex:
            fb_text, info["fb_failed"] = failed_fb_file(str(ex)), str(ex)
        except RecursionError:
            fb_text, info["fb_failed"] = failed_fb_file("recursion limit reached"), "recursion limit reached"
        except Exception as ex:
            fb_text, info["fb_failed"] = failed_fb_file(f"internal error {type(ex).__name__}: {ex}"), f"internal error {type(ex).__name__}: {ex}"
        return {"RawSrc.lean": text, "FbSrc.lean": fb_text}, info
    except TrError as ex:
        reason = str(ex)
    except RecursionError:
        reason = "recursion limit reached while parsing"
    except Exception as ex:
        reason = f"internal error {type(ex).__name__}: {ex}"
    return {"RawSrc.lean": failed_file(reason), "FbSrc.lean": failed_fb_file("the raw data layer failed: " + reason)}, {"failed": reason}


if __name__ == "__main__":
    import json
    repo = os.environ.get("EG_REPO", "/repo")
    if len(sys.argv) > 1 and sys.argv[1] == "--strict":
        t, i, prog, em = translate(repo)
        print(t)
    elif len(sys.argv) > 1 and sys.argv[1] == "--fb":
        t, i, prog, em = translate(repo)
        t2, i2 = translate_fb(repo, prog, em)
        print(t2)
    else:
        files, info = generate(repo)
        print(files["RawSrc.lean"])
        print(json.dumps(info), file=sys.stderr)
