#!/usr/bin/env python3
"""tr_mock.py — translator part `mock` (serves C20).

The MockDisplay model (`EG.Model.MockDisplay`: `CT`, `charToColor`, `colorToChar`) and the harness
(`m_mock.rs`: `TYPES`, `palette`, `accepted`, `by_type!`) list the colour types that implement
`ColorMapping` BY HAND. This part reads, from /repo's current working tree,
  * src/mock_display/color_mapping.rs     every `impl ColorMapping for <Type>`: written out, or produced
                                          by an invocation of a local macro whose body contains
                                          `impl ColorMapping for $type`
  * every other .rs file under src/ and core/src/   (there must be no further `ColorMapping for`)
and writes
  * lean/EG/Generated/MockTypes.lean      the list of implementing types in source order (Rust type
                                          name, how the impl is written, the macro's numeric argument),
                                          the character <-> constant table of `impl_rgb_color_mapping!`,
                                          the characters of the `BinaryColor` impl, and `implsSeen`
                                          (counted independently of the strict patterns)
  * harness/src/mock_types.rs             the same type list as a Rust const (rewritten only when it
                                          differs); m_mock.rs checks that every entry is one of its TYPES.
EG/Props/C20/Types.lean asserts that the list is exactly the model's `allCT` (same order), that the gray
radices are the ones `toDigit4` / `toDigit16` implement and that the RGB characters are the model's.
A thirteenth mapping type, a changed radix or a renamed pattern character therefore breaks the build
instead of going unnoticed.

Fails loudly (exception) on anything it does not recognise: an impl with generics, an impl inside a
macro that is invoked with arguments of another shape, a `ColorMapping for` anywhere else.
"""
import os
import re

V = os.path.dirname(os.path.dirname(os.path.abspath(__file__)))


class TieError(Exception):
    pass


def _strip(src):
    """remove line comments and `#[cfg(test)] mod x { .. }` blocks"""
    src = re.sub(r"//[^\n]*", "", src)
    while True:
        m = re.search(r"#\[cfg\(test\)\]\s*mod\s+[A-Za-z_][A-Za-z0-9_]*\s*\{", src)
        if not m:
            break
        end = _match_brace(src, m.end() - 1)
        src = src[:m.start()] + src[end + 1:]
    if "cfg(test)" in src:
        raise TieError("unexpected use of cfg(test) outside a test module")
    return src


def _match_brace(src, i):
    """index of the brace closing the one at src[i] (char literals like '{' do not occur in these files)"""
    assert src[i] == "{"
    depth = 0
    for k in range(i, len(src)):
        if src[k] == "{":
            depth += 1
        elif src[k] == "}":
            depth -= 1
            if depth == 0:
                return k
    raise TieError("unbalanced braces")


def scan(repo):
    rel = os.path.join("src", "mock_display", "color_mapping.rs")
    path = os.path.join(repo, rel)
    if not os.path.exists(path):
        raise TieError(f"{rel}: file not found")
    src = _strip(open(path).read())

    # ---- local macros whose body implements ColorMapping -------------------------------------------
    macros = {}          # name -> (span, body)
    spans = []
    for m in re.finditer(r"macro_rules!\s*([A-Za-z_][A-Za-z0-9_]*)\s*\{", src):
        end = _match_brace(src, m.end() - 1)
        body = src[m.end():end]
        spans.append((m.start(), end))
        n_impl = len(re.findall(r"\bColorMapping\s+for\b", body))
        if n_impl == 0:
            continue
        if n_impl != 1 or not re.search(r"impl\s+ColorMapping\s+for\s+\$type\s*\{", body):
            raise TieError(f"macro {m.group(1)}: `ColorMapping for` in a form this part does not know")
        pm = re.search(r"\(\s*\$type:ident\s*(,\s*\$([a-z_]+):expr\s*)?\)\s*=>", body)
        if not pm:
            raise TieError(f"macro {m.group(1)}: parameter list not `($type:ident)` or `($type:ident, $x:expr)`")
        macros[m.group(1)] = {"has_arg": pm.group(1) is not None, "body": body}

    def in_macro(pos):
        return any(a <= pos <= b for a, b in spans)

    # ---- impls in source order ---------------------------------------------------------------------
    items = []   # (pos, type name, how, numeric argument)
    for m in re.finditer(r"\bimpl\b([^{;]*?)\bColorMapping\s+for\s+([^{]*?)\{", src):
        if in_macro(m.start()):
            continue
        if m.group(1).strip() != "" or not re.fullmatch(r"[A-Z][A-Za-z0-9]*", m.group(2).strip()):
            raise TieError(f"impl of ColorMapping in an unknown form: {m.group(0)[:80]!r}")
        items.append((m.start(), m.group(2).strip(), "impl", 0))
    for m in re.finditer(r"^([A-Za-z_][A-Za-z0-9_]*)!\(([^)]*)\);", src, re.M):
        if in_macro(m.start()) or m.group(1) not in macros:
            if not in_macro(m.start()):
                raise TieError(f"top-level invocation of an unknown macro: {m.group(0)!r}")
            continue
        args = [a.strip() for a in m.group(2).split(",")]
        mac = macros[m.group(1)]
        if not re.fullmatch(r"[A-Z][A-Za-z0-9]*", args[0]) or len(args) != (2 if mac["has_arg"] else 1):
            raise TieError(f"invocation with unexpected arguments: {m.group(0)!r}")
        num = 0
        if mac["has_arg"]:
            if not re.fullmatch(r"\d+", args[1]):
                raise TieError(f"non-literal macro argument: {m.group(0)!r}")
            num = int(args[1])
        items.append((m.start(), args[0], m.group(1), num))
    items.sort()
    names = [it[1] for it in items]
    if len(set(names)) != len(names):
        raise TieError("a type implements ColorMapping twice")

    # ---- independent count: `ColorMapping for` outside macro bodies + line-start `<known macro>!(` ----
    outside = "".join(ch if not in_macro(i) else " " for i, ch in enumerate(src))
    seen = len(re.findall(r"\bColorMapping\s+for\b", outside))
    for name in macros:
        seen += len(re.findall(r"^" + re.escape(name) + r"!\(", outside, re.M))
    total_tokens = len(re.findall(r"\bColorMapping\s+for\b", src))
    if total_tokens != len([1 for it in items if it[2] == "impl"]) + len(macros):
        raise TieError("a `ColorMapping for` occurrence is neither a written-out impl nor the body of a known macro")

    # ---- no impl anywhere else -----------------------------------------------------------------------
    for base in ("src", os.path.join("core", "src")):
        for root, _, files in os.walk(os.path.join(repo, base)):
            for fn in files:
                if not fn.endswith(".rs"):
                    continue
                p = os.path.join(root, fn)
                if os.path.samefile(p, path):
                    continue
                if re.search(r"\bColorMapping\s+for\b", re.sub(r"//[^\n]*", "", open(p).read())):
                    raise TieError(f"{os.path.relpath(p, repo)}: implements ColorMapping outside color_mapping.rs")

    # ---- characters of the RGB macro and of the BinaryColor impl --------------------------------------
    rgb_chars = []
    for name, mac in macros.items():
        fwd = re.findall(r"'(.)'\s*=>\s*Self::([A-Z_]+)\s*,", mac["body"])
        back = re.findall(r"Self::([A-Z_]+)\s*=>\s*'(.)'\s*,", mac["body"])
        if fwd or back:
            if rgb_chars:
                raise TieError("two macros with character tables")
            if [(c, k) for c, k in fwd] != [(c, k) for k, c in back]:
                raise TieError(f"{name}: char_to_color and color_to_char tables differ: {fwd} vs {back}")
            fb = re.findall(r"_\s*=>\s*'(.)'", mac["body"])
            if fb != ["?"]:
                raise TieError(f"{name}: fallback character of color_to_char is not '?': {fb}")
            rgb_chars = fwd
    bm = re.search(r"impl\s+ColorMapping\s+for\s+BinaryColor\s*\{", src)
    binary_chars = []
    if bm:
        body = src[bm.end():_match_brace(src, bm.end() - 1)]
        fwd = re.findall(r"'(.)'\s*=>\s*BinaryColor::(Off|On)\s*,", body)
        back = re.findall(r"BinaryColor::(Off|On)\s*=>\s*'(.)'\s*,", body)
        if [(c, k) for c, k in fwd] != [(c, k) for k, c in back] or len(fwd) != 2:
            raise TieError(f"BinaryColor: character tables not recognised: {fwd} vs {back}")
        binary_chars = fwd
    return items, seen, rgb_chars, binary_chars


def lean_source(items, seen, rgb_chars, binary_chars):
    o = []
    o.append("/-\n  EG.Generated.MockTypes — GENERATED by tools/tr_mock.py from /repo's current sources. Do not edit.\n"
             "  Source: src/mock_display/color_mapping.rs (every `impl ColorMapping for`, written out or by macro).\n-/\n")
    o.append("namespace EG.Generated.MockTypes\n")
    o.append("/-- (Rust type, how the impl is written: `impl` or the macro's name, numeric macro argument or 0), source order. -/")
    o.append("def mappingTypes : List (String × String × Nat) := [")
    o.append(",\n".join(f'  ("{n}", "{how}", {num})' for _, n, how, num in items))
    o.append("]\n")
    o.append("/-- `ColorMapping for` tokens outside macro bodies + line-start invocations of the implementing macros,\n"
             "counted independently of the strict patterns that filled `mappingTypes`. -/")
    o.append(f"def implsSeen : Nat := {seen}\n")
    o.append("/-- the two tables of `impl_rgb_color_mapping!` (they agree; fallback of `color_to_char` is '?') -/")
    o.append("def rgbChars : List (Char × String) := [" + ", ".join(f"('{c}', \"{k}\")" for c, k in rgb_chars) + "]\n")
    o.append("/-- the two tables of the `BinaryColor` impl -/")
    o.append("def binaryChars : List (Char × String) := [" + ", ".join(f"('{c}', \"{k}\")" for c, k in binary_chars) + "]\n")
    o.append("theorem mappingTypes_length : mappingTypes.length = implsSeen := by decide\n")
    o.append("end EG.Generated.MockTypes\n")
    return "\n".join(o)


def rust_source(items):
    o = []
    o.append("// GENERATED by tools/tr_mock.py from /repo/src/mock_display/color_mapping.rs — do not edit.")
    o.append("// Every type that implements `ColorMapping`, in source order (Rust type name).")
    o.append("// The translator rewrites this file on every `./check` run when the source scan differs.")
    o.append(f"pub const MAPPING_TYPES: [&str; {len(items)}] = [" + ", ".join(f'"{n}"' for _, n, _, _ in items) + "];")
    o.append("")
    return "\n".join(o)


def generate(repo):
    items, seen, rgb_chars, binary_chars = scan(repo)
    rs = rust_source(items)
    rs_path = os.path.join(V, "harness", "src", "mock_types.rs")
    old = open(rs_path).read() if os.path.exists(rs_path) else None
    status = "unchanged"
    if old != rs:
        with open(rs_path, "w") as f:
            f.write(rs)
        status = "rewritten"
    info = {
        "color_mapping_impls_seen": seen, "color_mapping_types": [n for _, n, _, _ in items],
        "rgb_chars": "".join(c for c, _ in rgb_chars), "binary_chars": "".join(c for c, _ in binary_chars),
        "harness_mock_types": status,
    }
    return {"MockTypes.lean": lean_source(items, seen, rgb_chars, binary_chars)}, info


if __name__ == "__main__":
    import json
    import sys
    files, info = generate(os.environ.get("EG_REPO", "/repo"))
    print(json.dumps(info))
    if "--print" in sys.argv:
        print(files["MockTypes.lean"])
