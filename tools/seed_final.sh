#!/bin/sh
# seed_final.sh [Cxx-n ...] — run each confirmed seeded change (default: all of seeded/*/) against /repo
# ITSELF: git -C /repo apply, ./check <its property> --tier quick, git -C /repo checkout -- .
# Logs go to /tmp/vseed-log-<Cxx>-<n>.txt (collected by tools/seed_results.py). /repo must be clean.
cd "$(dirname "$0")/.."
if [ -n "$(git -C /repo status --porcelain --untracked-files=no)" ]; then echo "/repo is not clean"; exit 2; fi
ids="$@"
[ -n "$ids" ] || ids=$(ls seeded | grep -E "^C[0-9]+-")
for id in $ids; do
  p=${id%%-*}; n=${id#*-}
  [ -f seeded/$id/patch.diff ] || continue
  if ! git -C /repo apply --check "$PWD/seeded/$id/patch.diff" 2>/dev/null; then echo "$id: patch does not apply"; continue; fi
  git -C /repo apply "$PWD/seeded/$id/patch.diff"
  ./check $p --tier quick > /tmp/vseed-log-$p-$n.txt 2>&1
  rc=$?
  git -C /repo checkout -- .
  echo "$id rc=$rc $(grep -c '^VIOLATION' /tmp/vseed-log-$p-$n.txt) violation line(s)"
done
# leave the harness built against the unchanged tree again
(cd harness && cargo build --offline >/dev/null 2>&1)
python3 tools/seed_results.py
