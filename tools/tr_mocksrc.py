#!/usr/bin/env python3
"""tr_mocksrc.py — SOURCE-TO-LEAN translator for `MockDisplay` (C20).

Reads, from /repo's current working tree,
  src/mock_display/mod.rs            `SIZE`, `DISPLAY_AREA`, every function of every `impl` of `MockDisplay` except the
                                     formatting-only assertion helpers (listed in `untranslated`, pinned by a theorem)
  src/mock_display/color_mapping.rs  every `ColorMapping::{char_to_color, color_to_char}` (macros expanded per invocation)
and writes lean/EG/Generated/MockSrc.lean: one Lean `def` per Rust function, mirroring the Rust text arm for arm, in
Lean's `do` notation over the prelude's panic monad (lean/EG/Model/MockSrcPrelude.lean, TRUSTED):

  * every translated `fn` returns `Panics T` (= `MutRes Unit T`); `panic!` / `assert!` / `assert_eq!` become
    `rs_panic "<format string>"` / `rs_assert c "<format string>"` (the format ARGUMENTS are formatting only and are
    dropped); calls of fallible things are bound with `(← ..)` in source order;
  * a `&mut self` method returns `MutRes MockDisplay MockDisplay`: the display after the call, or the panic message AND
    THE DISPLAY AS IT WAS WHEN THE PANIC FIRED (what `catch_unwind` observes). Inside such a method everything fallible
    that is not itself a `&mut self` call on `self` is wrapped in `at_state self (..)` (= "if this panics, the display is
    `self` as of now"); `self.f = v` / `self.pixels[i] = v` rebind `self`;
  * `let mut` locals, `for` loops and early `return` are Lean's own `let mut` / `for .. in .. do` / `return`;
  * generic colour types are erased (a colour is its raw value, `Color = Nat`, as everywhere in the framework) except in
    the `C: ColorMapping` impls, where `C` becomes an explicit argument `(C : CT)` and `C::char_to_color` the generated
    dispatcher `ColorMapping_char_to_color C` (a `match` over the implementing types in source order);
  * `match` guards: `P if g => e` becomes `| P => if g then e else (match <same scrutinee> with <remaining arms>)`;
  * `iter::repeat(v)` runs on explicit `fuel` (an extra first argument of `from_pattern`);
  * a `map` whose closure can panic yields a LAZY iterator: its elements are computations (`List (Panics T)`), carried
    through `chain` (the other side lifted with `iter_lift`) / `take` / `flat_map` / `enumerate` and run by the `for` loop that
    pulls them (`let x ← x` at the head of the body); every other consumer of a lazy iterator is refused.
The translator knows no semantics: every Rust primitive is a prelude name. Method names are resolved by the TYPE of
the receiver (types from signatures, struct fields and a small table of prelude result types).

REUSE: tools/tr_rect.py (tokenizer, `Cursor`, `BodyParser`) and tools/tr_rawsrc.py (`RawBodyParser`: `for`, indexing,
`[v; n]`, turbofish paths; `expand_macros`), both imported, neither edited. `MockBodyParser` adds struct patterns
(`let Point { x, y } = p`), char literal patterns, closure parameters that are patterns with type annotations, `?`,
match guards and the macros `panic! assert! assert_eq! writeln!`. tr_rect.BodyParser creates its sub-parsers through the
module global: it is rebound for the duration of one parse (`scoped`), as tr_rawsrc.py does.

Anything unknown raises; `generate` then writes a MockSrc.lean containing only `def translationFailed`, so exactly the
theorems of EG/Props/C20/Generated*.lean stop building.
"""
import contextlib
import os
import re
import sys

sys.path.insert(0, os.path.dirname(os.path.abspath(__file__)))
import tr_rect
import tr_rawsrc
from tr_rect import RectTrError as TrError, Cursor, tokenize, strip_comments, LEAN_KEYWORDS

MOD = "src/mock_display/mod.rs"
CM = "src/mock_display/color_mapping.rs"

# functions of `impl .. MockDisplay` that are NOT translated (formatting of assertion failures only)
NOT_TRANSLATED = {"assert_eq", "assert_eq_with_message", "assert_pattern", "assert_pattern_with_message"}

RGB_TYPES = ("Rgb332", "Rgb444", "Rgb555", "Bgr555", "Rgb565", "Bgr565", "Rgb666", "Bgr666", "Rgb888", "Bgr888")
GRAY_TYPES = ("Gray2", "Gray4", "Gray8")
INT_TYPES = ("i32", "u32", "usize", "u8")


# ---------------------------------------------------------------------------------------------------------------
# parser extension
# ---------------------------------------------------------------------------------------------------------------

class MockBodyParser(tr_rawsrc.RawBodyParser):
    def sub(self, s, e):
        return MockBodyParser(self.c.t, s, e, self.where)

    def parse_pattern1(self):
        c = self.c
        t = c.peek()
        if t is not None and t.kind == "char":
            c.next()
            return ("pchar", t.line, t.text)
        if t is not None and t.kind == "id" and c.peek(1) is not None and c.peek(1).text == "{" and t.text[0].isupper():
            name = c.ident()
            s, e = c.skip_balanced("{", "}")
            sub = self.sub(s, e)
            fields = []
            while not sub.c.eof():
                f = sub.c.ident()
                if sub.c.at(":"):
                    sub.fail("struct pattern with renamed fields not supported")
                fields.append(f)
                if sub.c.at(","):
                    sub.c.next()
                elif not sub.c.eof():
                    sub.fail("`,` expected in struct pattern")
            return ("pstruct", t.line, name, fields)
        return super().parse_pattern1()

    def parse_closure(self):
        c = self.c
        t = c.next()
        if t.text == "move":
            self.fail("`move` closure not supported")
        params = []
        if t.text == "|":
            while not c.at("|"):
                p = self.parse_pattern1()
                ty = None
                if c.at(":"):
                    c.next()
                    ty = parse_ty(c, {})
                params.append((p, ty))
                if c.at(","):
                    c.next()
            c.next()
        body = self.parse_expr()
        return ("closure", t.line, params, body)

    def parse_postfix_from(self, e, nostruct):
        c = self.c
        while True:
            if c.at("?"):
                t = c.next()
                e = ("try", t.line, e)
                continue
            if c.at("["):
                t = c.peek()
                s, en = c.skip_balanced("[", "]")
                sub = self.sub(s, en)
                idx = sub.parse_expr()
                if not sub.c.eof():
                    sub.fail("tokens after the index expression")
                e = ("index", t.line, e, idx)
                continue
            if c.at("("):
                t = c.peek()
                e = ("callexpr", t.line, e, self.parse_args())
                continue
            if c.at("."):
                d = c.next()
                if c.peek() is not None and c.peek().kind == "int":
                    self.fail("tuple field access not supported")
                name = c.ident()
                if name == "await":
                    self.fail("await")
                if c.at("::"):
                    self.fail("turbofish on a method not supported")
                if c.at("("):
                    e = ("mcall", d.line, e, name, None, self.parse_args())
                else:
                    e = ("field", d.line, e, name)
                continue
            return e

    def parse_primary(self, nostruct):
        c = self.c
        t = c.peek()
        if t.kind == "id" and c.peek(1) is not None and c.peek(1).text == "!" and c.peek(2) is not None and c.peek(2).text == "(":
            if t.text not in ("panic", "assert", "assert_eq", "writeln"):
                self.fail(f"macro `{t.text}!` not supported", t)
            c.next()
            c.next()
            return ("macro", t.line, t.text, self.parse_args())
        if c.at("match"):
            c.next()
            scrut = self.parse_expr(nostruct=True)
            s, e = c.skip_balanced("{", "}")
            sub = self.sub(s, e)
            arms = []
            while not sub.c.eof():
                if sub.c.at("|"):
                    sub.c.next()
                pat = sub.parse_pattern()
                guard = None
                if sub.c.at("if"):
                    sub.c.next()
                    guard = sub.parse_expr(nostruct=True)
                sub.c.expect("=>")
                body = sub.parse_expr(stmt=True)
                if sub.c.at(","):
                    sub.c.next()
                elif not sub.c.eof() and body[0] != "block":
                    sub.fail("`,` expected after match arm")
                arms.append((pat, body, guard))
            return ("match", t.line, scrut, arms)
        return super().parse_primary(nostruct)


@contextlib.contextmanager
def scoped():
    old = (tr_rect.BodyParser, tr_rect.parse_type)
    tr_rect.BodyParser = MockBodyParser
    try:
        yield
    finally:
        tr_rect.BodyParser, tr_rect.parse_type = old


# ---------------------------------------------------------------------------------------------------------------
# types. Rust type -> one of: 'i32' 'u32' 'usize' 'u8' 'bool' 'char' 'unit' 'str' 'Point' 'Size' 'Rectangle' 'Color'
# 'MD' 'Fmt' 'ResultUnit' ('Option', T) ('tuple', (T..)) ('iter', T) ('array', T) ('slice', T) ('fn', (T..), R)
# ---------------------------------------------------------------------------------------------------------------

def parse_ty(c, gen):
    """`gen`: generic name -> type (from bounds)."""
    if c.at("&"):
        c.next()
        if c.peek() and c.peek().kind == "life":
            c.next()
        if c.at("mut"):
            c.next()
        return parse_ty(c, gen)
    if c.at("["):
        c.next()
        t = parse_ty(c, gen)
        if c.at(";"):
            c.next()
            depth = 0
            while not (c.at("]") and depth == 0):
                x = c.next()
                depth += (x.text == "[") - (x.text == "]")
            c.expect("]")
            return ("array", t)
        c.expect("]")
        return ("slice", t)
    if c.at("("):
        c.next()
        items = []
        while not c.at(")"):
            items.append(parse_ty(c, gen))
            if c.at(","):
                c.next()
        c.expect(")")
        if not items:
            return "unit"
        return items[0] if len(items) == 1 else ("tuple", tuple(items))
    if c.at("impl"):
        c.next()
        return parse_bound(c, gen)
    segs = [c.ident()]
    while c.at("::"):
        c.next()
        segs.append(c.ident())
    args = []
    if c.at("<"):
        c.next()
        while not c.at(">"):
            if c.peek().kind == "life":
                c.next()
            else:
                args.append(parse_ty(c, gen))
            if c.at(","):
                c.next()
        c.expect(">")
    name = segs[-1]
    if len(segs) == 1 and name in gen:
        return gen[name]
    if segs[0] == "Self" and len(segs) == 2:
        if name == "Color":
            return "Color"
        if name == "Error":
            return "Infallible"
        raise TrError(f"associated type `Self::{name}` not known")
    if name in ("i32", "u32", "usize", "u8", "bool", "char", "str", "Point", "Size", "Rectangle"):
        return name
    if name == "Option":
        return ("Option", args[0])
    if name == "Result":
        if segs[0] == "fmt" or args[:1] == ["unit"]:
            return "ResultUnit"
        raise TrError("`Result` with a value not supported")
    if name == "MockDisplay":
        return "MD"
    if name == "Formatter":
        return "Fmt"
    if name == "Pixel":
        return ("tuple", ("Point", args[0]))
    if name in RGB_TYPES or name in GRAY_TYPES or name == "BinaryColor":
        return "Color"
    raise TrError(f"type `{'::'.join(segs)}` not known at {c.t[c.i - 1]!r}")


def parse_bound(c, gen):
    """after `:` of a generic bound or after `impl`: the type a value of the bounded type is modelled as (or None)."""
    result = None
    while True:
        if c.at("IntoIterator") or c.at("Iterator"):
            c.next()
            c.expect("<")
            if c.ident() != "Item":
                raise TrError("`IntoIterator<Item = ..>` expected")
            c.expect("=")
            result = ("iter", parse_ty(c, gen))
            c.expect(">")
        elif c.at("Fn"):
            c.next()
            c.expect("(")
            ps = []
            while not c.at(")"):
                ps.append(parse_ty(c, gen))
                if c.at(","):
                    c.next()
            c.expect(")")
            c.expect("->")
            r = parse_ty(c, gen)
            result = ("fn", tuple(ps), r)
        elif c.at("PixelColor"):
            c.next()
            result = result or "Color"
        elif c.at("ColorMapping"):
            c.next()
            result = "ColorM"
        elif c.at("Copy"):
            c.next()
        else:
            raise TrError(f"generic bound not known at {c.peek()!r}")
        if c.at("+"):
            c.next()
            continue
        return result


def parse_generics(c, gen):
    """cursor at `<`: `<A, B: Bound, ..>`; updates gen."""
    c.expect("<")
    while not c.at(">"):
        n = c.ident()
        if c.at(":"):
            c.next()
            t = parse_bound(c, gen)
            if t is not None:
                gen[n] = t
        else:
            gen.setdefault(n, None)
        if c.at(","):
            c.next()
    c.expect(">")


def parse_where(c, gen):
    """cursor at `where`; stops at `{`."""
    c.expect("where")
    while not c.at("{"):
        n = c.ident()
        c.expect(":")
        t = parse_bound(c, gen)
        if t is not None:
            gen[n] = t
        if c.at(","):
            c.next()


# ---------------------------------------------------------------------------------------------------------------
# items
# ---------------------------------------------------------------------------------------------------------------

class Item:
    def __init__(self):
        self.kind = "fn"            # fn / const
        self.name = None
        self.impl = None            # "MockDisplay" / colour type / None
        self.trait = None
        self.params = []            # (name, type, is_mut_ref)
        self.self_kind = None       # None / "ref" / "refmut" / "value"
        self.ret = "unit"
        self.body = None            # (toks, s, e)
        self.gen = {}
        self.color_m = False        # impl has `C: ColorMapping`
        self.rel = None
        self.line = 0
        self.ty = None              # const type
        self.selfty = None          # what `Self` is

    def lname(self):
        if self.kind == "const":
            return self.name
        if self.impl == "MockDisplay":
            return (self.trait or "MockDisplay") + "_" + self.name
        if self.impl is not None:
            return self.impl + "_" + self.name
        return self.name


def skip_attrs(c):
    while c.at("#"):
        c.next()
        if c.at("!"):
            c.next()
        s, e = c.skip_balanced("[", "]")
        txt = " ".join(t.text for t in c.t[s:e])
        if txt.startswith("cfg") and "test" in txt:
            return "test"
    return None


def scan(toks, rel, items, structs):
    c = Cursor(toks)
    while not c.eof():
        attr = skip_attrs(c)
        if c.at("pub"):
            c.next()
            if c.at("("):
                c.skip_balanced("(", ")")
        if c.at("use") or (c.at("mod") and c.peek(2) is not None and c.peek(2).text == ";"):
            while not c.at(";"):
                if c.at("{"):
                    c.skip_balanced("{", "}")
                else:
                    c.next()
            c.next()
            continue
        if c.at("mod"):
            c.next()
            name = c.ident()
            c.skip_balanced("{", "}")
            if attr != "test":
                raise TrError(f"{rel}: inline module `{name}` that is not #[cfg(test)]")
            continue
        if attr == "test":
            raise TrError(f"{rel}: #[cfg(test)] on something that is not a module")
        if c.at("const"):
            t = c.next()
            it = Item()
            it.kind, it.rel, it.line = "const", rel, t.line
            it.name = c.ident()
            c.expect(":")
            it.ty = parse_ty(c, {})
            c.expect("=")
            s = c.i
            while not c.at(";"):
                c.next()
            it.body = (toks, s, c.i)
            c.next()
            items.append(it)
            continue
        if c.at("struct"):
            c.next()
            name = c.ident()
            gen = {}
            if c.at("<"):
                parse_generics(c, gen)
            if c.at("where"):
                parse_where(c, gen)
            if c.at("("):
                c.skip_balanced("(", ")")
                if c.at("where"):
                    c.next()
                    while not c.at(";"):
                        c.next()
                c.expect(";")
                structs[name] = None
                continue
            s, e = c.skip_balanced("{", "}")
            sub = Cursor(toks, s, e)
            fields = []
            while not sub.eof():
                skip_attrs(sub)
                if sub.at("pub"):
                    sub.next()
                f = sub.ident()
                sub.expect(":")
                fields.append((f, parse_ty(sub, gen)))
                if sub.at(","):
                    sub.next()
            structs[name] = fields
            continue
        if c.at("trait"):
            # `trait ColorMapping`: declarations only (a default body would be a function nobody translates)
            c.next()
            name = c.ident()
            while not c.at("{"):
                c.next()
            s, e = c.skip_balanced("{", "}")
            sub = Cursor(toks, s, e)
            while not sub.eof():
                if sub.at("fn"):
                    while not (sub.at(";") or sub.at("{")):
                        sub.next()
                    if sub.at("{"):
                        raise TrError(f"{rel}: trait `{name}` has a default method body (not translated)")
                sub.next()
            continue
        if c.at("impl"):
            scan_impl(c, toks, rel, items)
            continue
        if c.at("macro_rules"):
            raise TrError(f"{rel}: macro_rules! left after expansion")
        raise TrError(f"{rel}: item not known at {c.peek()!r}")


def scan_impl(c, toks, rel, items):
    c.expect("impl")
    gen = {}
    if c.at("<"):
        parse_generics(c, gen)
    first = c.ident()
    while c.at("::"):
        c.next()
        first = c.ident()
    if c.at("<"):
        c.skip_balanced("<", ">")
    trait, ty = None, first
    if c.at("for"):
        c.next()
        trait = first
        ty = c.ident()
        if c.at("<"):
            c.skip_balanced("<", ">")
    if c.at("where"):
        parse_where(c, gen)
    s, e = c.skip_balanced("{", "}")
    if ty == "MessageWrapper":
        return
    if ty == "MockDisplay":
        selfty = "MD"
    elif trait == "ColorMapping":
        selfty = "Color"
    else:
        raise TrError(f"{rel}: impl for `{ty}` not known")
    color_m = any(v == "ColorM" for v in gen.values())
    gen = {k: ("Color" if v == "ColorM" else v) for k, v in gen.items()}
    sub = Cursor(toks, s, e)
    while not sub.eof():
        skip_attrs(sub)
        if sub.at("pub"):
            sub.next()
        if sub.at("type") or sub.at("const") and not sub.at("fn", 1):
            if sub.at("const") and ty == "MockDisplay":
                raise TrError(f"{rel}: associated const in impl MockDisplay not supported")
            while not sub.at(";"):
                sub.next()
            sub.next()
            continue
        if sub.at("const"):
            sub.next()
        t = sub.expect("fn")
        it = Item()
        it.rel, it.line, it.impl, it.trait, it.color_m, it.selfty = rel, t.line, ty, trait, color_m, selfty
        it.name = sub.ident()
        g = dict(gen)
        g["Self"] = selfty
        if sub.at("<"):
            parse_generics(sub, g)
        ps, pe = sub.skip_balanced("(", ")")
        ret_toks = None
        if sub.at("->"):
            sub.next()
            rs = sub.i
            while not (sub.at("where") or sub.at("{")):
                sub.next()
            ret_toks = (rs, sub.i)
        if sub.at("where"):
            parse_where(sub, g)
        g = {k: ("Color" if v in (None, "ColorM") else v) for k, v in g.items()}
        it.gen = g
        pc = Cursor(toks, ps, pe)
        while not pc.eof():
            if pc.at("&") and (pc.at("self", 1) or (pc.at("mut", 1) and pc.at("self", 2))):
                pc.next()
                if pc.at("mut"):
                    pc.next()
                    it.self_kind = "refmut"
                else:
                    it.self_kind = "ref"
                pc.next()
            elif pc.at("self"):
                pc.next()
                it.self_kind = "value"
            else:
                if pc.at("mut"):
                    raise TrError(f"{rel}:{t.line}: `mut` parameter not supported")
                n = pc.ident()
                pc.expect(":")
                is_mut = pc.at("&") and pc.at("mut", 1)
                it.params.append((n, parse_ty(pc, g), is_mut))
            if pc.at(","):
                pc.next()
        if ret_toks:
            it.ret = parse_ty(Cursor(toks, *ret_toks), g)
        bs, be = sub.skip_balanced("{", "}")
        it.body = (toks, bs, be)
        items.append(it)


# ---------------------------------------------------------------------------------------------------------------
# emitter
# ---------------------------------------------------------------------------------------------------------------

def lv(n):
    return n + "_" if n in LEAN_KEYWORDS else n


def lean_type(t):
    if isinstance(t, str):
        return {"i32": "Int", "u32": "Nat", "usize": "Nat", "u8": "Nat", "bool": "Bool", "char": "Char", "unit": "Unit",
                "str": "(List Char)", "Point": "Point", "Size": "Size", "Rectangle": "Rectangle", "Color": "Color",
                "MD": "MockDisplay", "Fmt": "Formatter"}[t]
    if t[0] == "Option":
        return f"(Option {lean_type(t[1])})"
    if t[0] == "tuple":
        return "(" + " × ".join(lean_type(x) for x in t[1]) + ")"
    if t[0] in ("iter", "slice"):
        return f"(List {lean_type(t[1])})"
    if t[0] == "lazy":
        return f"(Panics {lean_type(t[1])})"
    if t[0] == "array":
        return f"(Cells {lean_type(t[1])})"
    if t[0] == "fn":
        return "(" + " → ".join(lean_type(x) for x in t[1] + (t[2],)) + ")"
    raise TrError(f"no Lean type for {t!r}")


# prelude / RectSrc functions called through paths `Type::name(args)`: (lean name, result type)
STATIC_CALLS = {
    ("Rectangle", "new"): ("RectSrc.new", "Rectangle"),
    ("Rectangle", "with_corners"): ("RectSrc.with_corners", "Rectangle"),
    ("Rectangle", "zero"): ("RectSrc.zero", "Rectangle"),
    ("Point", "new"): ("RectSrc.Point_new", "Point"),
    ("Point", "zero"): ("RectSrc.Point_zero", "Point"),
    ("Size", "new_equal"): ("RectSrc.Size_new_equal", "Size"),
    ("iter", "repeat"): ("iter_repeat fuel", None),
}
# methods by receiver type: (lean name, result type or a function of (receiver type, arg types), fallible)
PURE_METHODS = {
    ("Rectangle", "contains"): ("RectSrc.contains", "bool"),
    ("Rectangle", "bottom_right"): ("RectSrc.bottom_right", ("Option", "Point")),
    ("Rectangle", "points"): ("Rectangle_points", ("iter", "Point")),
    ("Point", "component_min"): ("RectSrc.Point_component_min", "Point"),
    ("Point", "component_max"): ("RectSrc.Point_component_max", "Point"),
    ("char", "to_ascii_uppercase"): ("char_to_ascii_uppercase", "char"),
    ("char", "to_digit"): ("char_to_digit", ("Option", "u32")),
    ("str", "len"): ("str_len", "usize"),
    ("str", "chars"): ("str_chars", ("iter", "char")),
}
FIELDS = {
    ("Point", "x"): ("Point_x", "i32"), ("Point", "y"): ("Point_y", "i32"),
    ("Rectangle", "size"): ("Rectangle_size", "Size"), ("Rectangle", "top_left"): ("Rectangle_top_left", "Point"),
}
CASTS = {("i32", "usize"), ("usize", "i32"), ("usize", "u32"), ("u32", "u8"), ("u8", "u32")}
BIN = {"+": "add", "-": "sub", "*": "mul", "&": "and", ">>": "shr"}
CMP = {"==": "rs_eq", "!=": "rs_ne", "<": "rs_lt", ">": "rs_gt", "<=": "rs_le", ">=": "rs_ge"}
# arithmetic that can panic in a checked build (returns `Panics`)
CHECKED = {("usize", "add"), ("usize", "mul"), ("usize", "sub"), ("u8", "mul")}


def is_lazy(t):
    """element type of a LAZY iterator: the element is a computation (a closure of `map` that can panic), run when pulled."""
    return isinstance(t, tuple) and t[0] == "lazy"


def has_lazy(t):
    return isinstance(t, tuple) and (t[0] == "lazy" or any(has_lazy(x) for x in (t[1] if t[0] == "tuple" else t[1:])))


class Done(str):
    """a finished output line: embedded newlines (multi-line closures) already carry the line's own indentation"""


def finish(lines):
    out = []
    for ln in lines:
        if not isinstance(ln, Done):
            pad = ln[:len(ln) - len(ln.lstrip())]
            ln = Done(ln.replace("\n", "\n" + pad))
        out.append(ln)
    return out


class Ctx:
    def __init__(self, it):
        self.it = it
        self.mut_self = it.self_kind == "refmut"
        self.mut_params = [n for n, t, m in it.params if m]
        self.needs_fuel = False
        self.lifts = 0              # fallible things bound with `←` at THIS level (a nested closure has its own Ctx)


class Emitter:
    def __init__(self, items, structs):
        self.items = items
        self.structs = structs
        self.by_name = {}
        for it in items:
            self.by_name.setdefault((it.impl, it.name), []).append(it)
        self.consts = {it.name: it for it in items if it.kind == "const"}
        self.mapping_types = []     # colour types implementing ColorMapping, source order

    def fail(self, line, it, msg):
        raise TrError(f"{it.rel}:{line}: {it.lname()}: {msg}")

    # -- lifting of fallible calls
    def lift(self, text, ctx, mut_call_on_self=False):
        ctx.lifts += 1
        if ctx.mut_self and not mut_call_on_self:
            return f"(← at_state self ({text}))"
        return f"(← {text})"

    def lift_mut_local(self, text, ctx):
        """a `&mut self` call on a local: the callee's panic state is dropped for the caller's"""
        st = "self" if ctx.mut_self else "()"
        ctx.lifts += 1
        return f"(← at_state {st} ({text}))"

    # -- blocks
    def block(self, stmts, tail, env, ctx, ind, mode):
        """mode: 'value' (tail value returned with `pure`), 'unit' (statement block), 'fnend' (end of a function body)."""
        env = dict(env)
        out = []
        pad = "  " * ind
        for st in stmts:
            out.extend(self.stmt(st, env, ctx, ind))
        if tail is not None:
            if tail[0] in ("if", "match") or (tail[0] == "macro" and tail[2] == "panic"):
                out.extend(self.tail_expr(tail, env, ctx, ind, mode))
            elif mode == "unit":
                out.extend(self.stmt(("expr", tail[1], tail), env, ctx, ind))
            else:
                out.append(pad + self.ret_line(tail, env, ctx, mode))
        elif mode == "fnend":
            out.append(pad + self.ret_unit(ctx))
        elif mode == "value":
            last = stmts[-1] if stmts else None
            if not (last is not None and last[0] == "expr" and last[2][0] == "macro" and last[2][2] == "panic"):
                out.append(pad + "pure ()")
        if not out:
            out.append(pad + "pure ()")
        return finish(out)

    def ret_unit(self, ctx):
        if ctx.mut_self:
            return "pure self"
        if ctx.mut_params:
            return f"pure {lv(ctx.mut_params[0])}"
        return "pure ()"

    def ret_line(self, e, env, ctx, mode):
        it = ctx.it
        if mode == "fnend" and (ctx.mut_self or ctx.mut_params):
            # unit / Ok(()) result: the function yields the mutated receiver
            if e[0] == "callexpr" and e[2][0] == "path" and e[2][2] == ["Ok"] and len(e[3]) == 1 and e[3][0][0] == "unit":
                return self.ret_unit(ctx)
            self.fail(e[1], it, "a `&mut` function must end in a statement or `Ok(())`")
        tx, ty = self.expr(e, env, ctx)
        return f"pure {tx}"

    def tail_expr(self, e, env, ctx, ind, mode):
        """`if` / `match` / `panic!` in tail position: a do-level statement whose branches end the block."""
        pad = "  " * ind
        it = ctx.it
        if e[0] == "macro":
            return [pad + self.panic_text(e, ctx)]
        if e[0] == "if":
            c, _ = self.expr(e[2], env, ctx)
            out = [pad + f"if {c} then"]
            out.extend(self.block(e[3][2], e[3][3], env, ctx, ind + 1, mode))
            if e[4] is not None:
                out.append(pad + "else")
                out.extend(self.block(e[4][2], e[4][3], env, ctx, ind + 1, mode))
            elif mode != "unit":
                self.fail(e[1], it, "`if` without `else` as a value")
            return out
        if e[0] == "match":
            return self.match_stmt(e, env, ctx, ind, mode)
        self.fail(e[1], it, "tail_expr")

    def match_stmt(self, e, env, ctx, ind, mode):
        pad = "  " * ind
        sc, sty = self.expr(e[2], env, ctx)
        return self.match_arms(sc, sty, e[3], env, ctx, ind, mode, e[1])

    def match_arms(self, sc, sty, arms, env, ctx, ind, mode, line):
        pad = "  " * ind
        it = ctx.it
        arms = [(tuple(a) + (None,))[:3] for a in arms]
        # constant patterns (`Self::BLACK => ..`): an if-chain of equality tests, in arm order
        if arms and all(a[0][0] in ("ppath", "pwild") for a in arms) and sty == "Color" and any(a[0][0] == "ppath" for a in arms):
            out = []
            for k, (pat, body, guard) in enumerate(arms):
                if guard is not None:
                    self.fail(line, it, "guard on a constant pattern")
                enum_last = (pat[0] == "ppath" and pat[2][0] == "BinaryColor" and k == len(arms) - 1 and k > 0
                             and all(a[0][0] == "ppath" and a[0][2][0] == "BinaryColor" for a in arms)
                             and len({a[0][2][1] for a in arms}) == 2)
                if pat[0] == "pwild" or enum_last:
                    # `_`, or the last variant of an exhaustive match over the two-variant enum `BinaryColor`
                    if k != len(arms) - 1:
                        self.fail(line, it, "`_` arm that is not the last")
                    out.append(pad + "else" if k else pad + "if true then")
                else:
                    cst, _ = self.path(("path", pat[1], pat[2], []), env, ctx)
                    out.append(pad + ("else " if k else "") + f"if rs_eq {sc} {cst} then")
                out.extend(self.arm_body(body, env, ctx, ind + 1, mode))
            if arms[-1][0][0] != "pwild" and not enum_last:
                self.fail(line, it, "match over constants without a `_` arm")
            return out
        out = [pad + f"match {sc} with"]
        for k, (pat, body, guard) in enumerate(arms):
            env2 = dict(env)
            ptx = self.pattern(pat, sty, env2, ctx)
            out.append(pad + f"| {ptx} =>")
            if guard is not None:
                g, _ = self.expr(guard, env2, ctx)
                out.append(pad + f"  if {g} then")
                out.extend(self.arm_body(body, env2, ctx, ind + 2, mode))
                out.append(pad + "  else")
                out.extend(self.match_arms(sc, sty, arms[k + 1:], env, ctx, ind + 2, mode, line))
            else:
                out.extend(self.arm_body(body, env2, ctx, ind + 1, mode))
        return out

    def arm_body(self, body, env, ctx, ind, mode):
        if body[0] == "block":
            return self.block(body[2], body[3], env, ctx, ind, mode)
        return self.block([], body, env, ctx, ind, mode)

    def panic_text(self, e, ctx):
        args = e[3]
        if not args or args[0][0] != "str":
            msg = '"explicit panic"'
        else:
            msg = args[0][2]
        return self.lift(f"rs_panic {msg}", ctx).replace("(← ", "", 1)[:-1]

    # -- patterns
    def pattern(self, p, ty, env, ctx):
        it = ctx.it
        k = p[0]
        if k == "pwild":
            return "_"
        if k == "pbind":
            env[p[2]] = ty
            return lv(p[2])
        if k == "pchar":
            return p[2]
        if k == "ptuple":
            tys = ty[1] if isinstance(ty, tuple) and ty[0] == "tuple" and len(ty[1]) == len(p[2]) else [None] * len(p[2])
            return "(" + ", ".join(self.pattern(x, t, env, ctx) for x, t in zip(p[2], tys)) + ")"
        if k == "pctor":
            name = p[2][-1]
            inner = ty[1] if isinstance(ty, tuple) and ty[0] == "Option" else None
            if name == "Some" and len(p[3]) == 1:
                return f"some {self.pattern(p[3][0], inner, env, ctx)}"
            if name == "None" and not p[3]:
                return "none"
            if name == "Pixel" and len(p[3]) == 2:
                tys = ty[1] if isinstance(ty, tuple) and ty[0] == "tuple" else (None, None)
                return "(" + ", ".join(self.pattern(x, t, env, ctx) for x, t in zip(p[3], tys)) + ")"
            self.fail(p[1], it, f"constructor pattern `{name}` not known")
        if k == "ppath":
            if p[2][0] in ("BinaryColor",) and len(p[2]) == 2:
                return {"Off": "0", "On": "_"}.get(p[2][1]) or self.fail(p[1], it, "BinaryColor variant")
            self.fail(p[1], it, f"path pattern `{'::'.join(p[2])}` not supported here")
        self.fail(p[1], it, f"pattern {k} not supported")

    # -- statements
    def stmt(self, st, env, ctx, ind):
        pad = "  " * ind
        it = ctx.it
        k = st[0]
        if k == "let":
            _, line, pat, ty, e, mut = st
            if pat[0] == "pstruct":
                tx, ety = self.expr(e, env, ctx)
                if pat[2] != ety or ety not in ("Point",):
                    self.fail(line, it, f"struct pattern `{pat[2]}` on a value of type {ety!r}")
                fields = [f for (s, f) in FIELDS if s == ety]
                if sorted(pat[3]) != sorted(fields):
                    self.fail(line, it, "struct pattern must name every field")
                out = []
                for f in pat[3]:
                    fn, fty = FIELDS[(ety, f)]
                    env[f] = fty
                    out.append(pad + f"let {lv(f)} := {fn} {tx}")
                return out
            if e[0] == "match":
                # a pure `match` bound by `let`
                sc, sty = self.expr(e[2], env, ctx)
                lines = self.pure_match(sc, sty, e[3], env, ctx, ind + 1, line)
                rty = self.pure_match_type
                ptx = self.pattern(pat, rty, env, ctx)
                return [pad + f"let {'mut ' if mut else ''}{ptx} :="] + lines
            tx, ety = self.expr(e, env, ctx)
            ptx = self.pattern(pat, ety, env, ctx)
            ann = f" : {lean_type(ety)}" if pat[0] == "pbind" and ety in INT_TYPES else ""
            return [pad + f"let {'mut ' if mut else ''}{ptx}{ann} := {tx}"]
        if k == "assign":
            _, line, op, lhs, rhs = st
            if op != "=":
                self.fail(line, it, f"`{op}` not supported")
            r, rty = self.expr(rhs, env, ctx)
            return [pad + self.assign(lhs, r, env, ctx, line)]
        if k == "expr":
            e = st[2]
            if e[0] == "try":
                e = e[2]
            if e[0] == "for":
                _, line, pat, itx, body = e
                src, sty = self.expr(itx, env, ctx)
                if not (isinstance(sty, tuple) and sty[0] in ("iter", "slice")):
                    self.fail(line, it, f"`for` over a value of type {sty!r}")
                env2 = dict(env)
                ptx = self.pattern(pat, sty[1], env2, ctx)
                out = [pad + f"for {ptx} in {src} do"]
                # pulling an element of a lazy iterator runs its computation (before the body)
                for n in sorted(k for k in env2 if is_lazy(env2[k]) and env.get(k) is not env2[k]):
                    env2[n] = env2[n][1]
                    out.append(pad + "  " + f"let {lv(n)} ← " + self.lift(lv(n), ctx)[3:-1])
                out.extend(self.block(body[2], body[3], env2, ctx, ind + 1, "unit"))
                return out
            if e[0] == "if":
                return self.tail_expr(e, env, ctx, ind, "unit")
            if e[0] == "match":
                return self.match_stmt(e, env, ctx, ind, "unit")
            if e[0] == "return":
                if e[2] is not None:
                    tx, _ = self.expr(e[2], env, ctx)
                    return [pad + f"return {tx}"]
                return [pad + "return " + self.ret_unit(ctx)[5:]]
            if e[0] == "macro":
                return [pad + self.macro_stmt(e, env, ctx)]
            if e[0] == "mcall":
                return [pad + self.mcall_stmt(e, env, ctx)]
            self.fail(st[1], it, f"expression statement `{e[0]}` not supported")
        self.fail(st[1], it, f"statement {k} not supported")

    def macro_stmt(self, e, env, ctx):
        it = ctx.it
        name, args = e[2], e[3]
        if name == "panic":
            return self.panic_text(e, ctx)
        if name == "assert":
            c, _ = self.expr(args[0], env, ctx)
            msg = args[1][2] if len(args) > 1 and args[1][0] == "str" else '"assertion failed"'
            return self.lift(f"rs_assert {c} {msg}", ctx).replace("(← ", "", 1)[:-1]
        if name == "assert_eq":
            a, _ = self.expr(args[0], env, ctx)
            b, _ = self.expr(args[1], env, ctx)
            msg = args[2][2] if len(args) > 2 and args[2][0] == "str" else '"assertion `left == right` failed"'
            return self.lift(f"rs_assert (rs_eq {a} {b}) {msg}", ctx).replace("(← ", "", 1)[:-1]
        if name == "writeln":
            f = args[0]
            if f[0] != "path" or f[2][0] not in ctx.mut_params:
                self.fail(e[1], it, "`writeln!` must write to the `&mut Formatter` parameter")
            fv = lv(f[2][0])
            fmt = args[1][2] if len(args) > 1 else '""'
            if len(args) > 1 and args[1][0] != "str":
                self.fail(e[1], it, "`writeln!` format must be a literal")
            fargs = []
            for a in args[2:]:
                tx, ty = self.expr(a, env, ctx)
                if ty != "usize":
                    self.fail(e[1], it, f"`writeln!` argument of type {ty!r} not supported")
                fargs.append(f"usize_display {tx}")
            return f"{fv} := fmt_writeln {fv} {fmt} [{', '.join(fargs)}]"
        self.fail(e[1], it, f"macro {name}")

    def mcall_stmt(self, e, env, ctx):
        """a method call in statement position: must mutate its receiver."""
        it = ctx.it
        _, line, recv, name, _, args = e
        if recv[0] == "path" and len(recv[2]) == 1:
            rn = recv[2][0]
            rty = "MD" if rn == "self" else env.get(rn)
            if rty == "MD":
                cal = self.find("MockDisplay", name, line, it)
                if cal.self_kind != "refmut":
                    self.fail(line, it, f"`{name}` in statement position does not take `&mut self`")
                atx = self.args(cal, args, env, ctx, line)
                call = f"{cal.lname()} {lv(rn)}{atx}"
                if rn == "self":
                    if not ctx.mut_self:
                        self.fail(line, it, "`&mut self` call on a shared `self`")
                    return f"self ← {call}"
                return f"{lv(rn)} ← at_state {'self' if ctx.mut_self else '()'} ({call})"
            if rty == "Fmt" and rn in ctx.mut_params and name == "write_char":
                a, aty = self.expr(args[0], env, ctx)
                return f"{lv(rn)} := fmt_write_char {lv(rn)} {a}"
        self.fail(line, it, f"method call `{name}` in statement position not supported")

    def assign(self, lhs, r, env, ctx, line):
        it = ctx.it
        # x.field = v   |   x.field[i] = v      (x = self or a `let mut` local of type MockDisplay)
        idx = None
        if lhs[0] == "index":
            idx = lhs[3]
            lhs = lhs[2]
        if lhs[0] == "field" and lhs[2][0] == "path" and len(lhs[2][2]) == 1:
            rn = lhs[2][2][0]
            rty = "MD" if rn == "self" else env.get(rn)
            if rty != "MD":
                self.fail(line, it, "assignment to a field of something that is not a MockDisplay")
            if rn == "self" and not ctx.mut_self:
                self.fail(line, it, "assignment through a shared `self`")
            f = lhs[3]
            fty = dict(self.structs["MockDisplay"]).get(f)
            if fty is None:
                self.fail(line, it, f"no field `{f}`")
            if idx is None:
                return f"{lv(rn)} := MockDisplay_with_{f} {lv(rn)} {r}"
            i, ity = self.expr(idx, env, ctx)
            if ity != "usize" or fty[0] != "array":
                self.fail(line, it, "indexed assignment needs an array field and a usize index")
            return f"{lv(rn)} := MockDisplay_with_{f} {lv(rn)} {self.lift(f'array_set (MockDisplay_{f} {lv(rn)}) {i} {r}', ctx)}"
        self.fail(line, it, "assignment target not supported")

    # -- pure match (value of a `let`)
    def pure_match(self, sc, sty, arms, env, ctx, ind, line):
        pad = "  " * ind
        arms = [(tuple(a) + (None,))[:3] for a in arms]
        out = [pad + f"match {sc} with"]
        for k, (pat, body, guard) in enumerate(arms):
            env2 = dict(env)
            ptx = self.pattern(pat, sty, env2, ctx)
            b, bty = self.expr(body, env2, ctx)
            if "(←" in b:
                self.fail(line, ctx.it, "fallible expression in a `let`-bound match arm")
            self.pure_match_type = bty if bty is not None and bty != ("Option", None) else getattr(self, "pure_match_type", None)
            if guard is not None:
                g, _ = self.expr(guard, env2, ctx)
                out.append(pad + f"| {ptx} =>")
                out.append(pad + f"  if {g} then {b} else")
                out.extend(self.pure_match(sc, sty, arms[k + 1:], env, ctx, ind + 2, line))
            else:
                out.append(pad + f"| {ptx} => {b}")
        return out

    # -- calls
    def find(self, impl, name, line, it, trait=None):
        c = [x for x in self.by_name.get((impl, name), []) if trait is None or x.trait == trait]
        if len(c) != 1:
            self.fail(line, it, f"function `{impl}::{name}` not found ({len(c)} candidates)")
        if c[0].name in NOT_TRANSLATED:
            self.fail(line, it, f"function `{name}` is not translated")
        return c[0]

    def args(self, cal, args, env, ctx, line):
        if len(args) != len(cal.params):
            self.fail(line, ctx.it, f"`{cal.name}` takes {len(cal.params)} arguments")
        out = ""
        for a, (pn, pty, _) in zip(args, cal.params):
            tx, ty = self.expr(a, env, ctx, want=pty)
            out += " " + tx
        return out

    def type_args(self, cal, ctx):
        """the explicit `(C : CT)` / `fuel` arguments of a callee."""
        out = ""
        if cal.color_m and cal.impl == "MockDisplay":
            if not ctx.it.color_m:
                self.fail(cal.line, ctx.it, "call of a `C: ColorMapping` function from a function without the bound")
            out += " C"
        if getattr(cal, "needs_fuel", False):
            ctx.needs_fuel = True
            out += " fuel"
        return out

    def closure(self, f, arg_tys, env, ctx):
        """returns (text, result type, fallible)."""
        it = ctx.it
        if f[0] == "closure":
            _, line, params, body = f
            if len(params) != len(arg_tys):
                self.fail(line, it, f"closure takes {len(params)} parameters, {len(arg_tys)} expected")
            env2 = dict(env)
            ps = []
            for (p, ann), aty in zip(params, arg_tys):
                ty = ann if ann is not None else aty
                ptx = self.pattern(p, ty, env2, ctx)
                if ann is not None:
                    ptx = f"(({ptx}) : {lean_type(ann)})" if p[0] == "ptuple" else f"({ptx} : {lean_type(ann)})"
                ps.append(ptx)
            sub = Ctx(it)
            sub.mut_self = False
            sub.mut_params = []
            while body[0] == "block" and not body[2] and body[3] is not None:
                body = body[3]
            if body[0] in ("match", "if", "block"):
                lines = self.block([], body, env2, sub, 0, "value") if body[0] != "block" else self.block(body[2], body[3], env2, sub, 0, "value")
                ctx.needs_fuel |= sub.needs_fuel
                body_txt = "\n".join("    " + x.replace("\n", "\n    ") for x in lines)
                return f"(fun {' '.join(ps)} => do\n{body_txt})", self.closure_ret(body, env2, sub), True
            b, bty = self.expr(body, env2, sub)
            ctx.needs_fuel |= sub.needs_fuel
            if sub.lifts:
                b = b.replace("\n", "\n    ")
                return f"(fun {' '.join(ps)} => do\n    pure {b})", bty, True
            return f"(fun {' '.join(ps)} => {b})", bty, False
        if f[0] == "path":
            segs = f[2]
            if segs == ["Option", "is_none"]:
                return "(fun x => option_is_none x)", "bool", False
            if len(segs) == 2 and segs[0] in it.gen and it.color_m and segs[1] in ("color_to_char", "char_to_color"):
                rty = "char" if segs[1] == "color_to_char" else "Color"
                return f"(fun x => ColorMapping_{segs[1]} {segs[0]} x)", rty, True
            if len(segs) == 1 and isinstance(env.get(segs[0]), tuple) and env[segs[0]][0] == "fn":
                return lv(segs[0]), env[segs[0]][2], False
        self.fail(f[1], it, "function value not supported")

    def closure_ret(self, body, env, ctx):
        """result type of a closure whose body is a `match` / `if` / block: the first informative arm type."""
        cands = []
        if body[0] == "match":
            for arm in body[3]:
                pat, b = arm[0], arm[1]
                env2 = dict(env)
                self.pattern(pat, None, env2, ctx)
                cands.append((b, env2))
        elif body[0] == "if":
            cands = [(body[3][3], env)] + ([(body[4][3], env)] if body[4] else [])
        elif body[0] == "block":
            cands = [(body[3], env)]
        for b, en in cands:
            if b is None or b[0] in ("match", "if", "block", "macro"):
                continue
            try:
                ty = self.expr(b, en, ctx)[1]
            except TrError:
                continue
            if ty is not None and ty != ("Option", None):
                return ty
        return None

    # -- expressions
    def expr(self, e, env, ctx, want=None):
        it = ctx.it
        k = e[0]
        line = e[1]
        if k == "int":
            return str(e[2]), (e[3] or want)
        if k == "str":
            if e[2].startswith("'"):
                return e[2], "char"
            return e[2], "strlit"
        if k == "paren":
            tx, ty = self.expr(e[2], env, ctx, want)
            return f"({tx})" if not tx.startswith("(") else tx, ty
        if k == "unit":
            return "()", "unit"
        if k in ("ref", "deref"):
            return self.expr(e[2], env, ctx, want)
        if k == "tuple":
            wants = want[1] if isinstance(want, tuple) and want[0] == "tuple" else [None] * len(e[2])
            parts = [self.expr(x, env, ctx, w) for x, w in zip(e[2], wants)]
            return "(" + ", ".join(p[0] for p in parts) + ")", ("tuple", tuple(p[1] for p in parts))
        if k == "path":
            return self.path(e, env, ctx, want)
        if k == "field":
            tx, ty = self.expr(e[2], env, ctx)
            if ty == "MD":
                fty = dict(self.structs["MockDisplay"]).get(e[3])
                if fty is None:
                    self.fail(line, it, f"MockDisplay has no field `{e[3]}`")
                return f"(MockDisplay_{e[3]} {tx})", fty
            if (ty, e[3]) in FIELDS:
                fn, fty = FIELDS[(ty, e[3])]
                return f"({fn} {tx})", fty
            self.fail(line, it, f"field `{e[3]}` of a value of type {ty!r}")
        if k == "cast":
            tx, ty = self.expr(e[2], env, ctx)
            to = e[3]
            if ty is None and e[2][0] == "int":
                return tx, to
            if (ty, to) not in CASTS:
                self.fail(line, it, f"cast from {ty!r} to {to!r} not known")
            return f"({ty}_as_{to} {tx})", to
        if k == "not":
            tx, ty = self.expr(e[2], env, ctx)
            if ty != "bool":
                self.fail(line, it, f"`!` on a value of type {ty!r}")
            return f"(bool_not {tx})", "bool"
        if k == "bin":
            return self.binop(e, env, ctx)
        if k == "index":
            a, aty = self.expr(e[2], env, ctx)
            i, ity = self.expr(e[3], env, ctx, "usize")
            if not (isinstance(aty, tuple) and aty[0] == "array") or ity != "usize":
                self.fail(line, it, f"indexing a value of type {aty!r} with {ity!r}")
            return self.lift(f"array_index {a} {i}", ctx), aty[1]
        if k == "arrayrep":
            v, vty = self.expr(e[2], env, ctx, want[1] if isinstance(want, tuple) else None)
            n = self.const_expr(e[3], ctx)
            return f"(array_repeat {v} {n})", ("array", vty)
        if k == "struct":
            name = e[2][-1]
            if name != "Self" or it.selfty != "MD" or e[4] is not None:
                self.fail(line, it, f"struct literal `{name}` not supported")
            decl = self.structs["MockDisplay"]
            if [f for f, _ in e[3]] != [f for f, _ in decl]:
                self.fail(line, it, "struct literal must give the fields in declaration order")
            vals = [self.expr(fe, env, ctx, fty)[0] for (f, fe), (_, fty) in zip(e[3], decl)]
            return "(MockDisplay_mk " + " ".join(vals) + ")", "MD"
        if k == "callexpr":
            return self.callexpr(e, env, ctx, want)
        if k == "mcall":
            return self.mcall(e, env, ctx, want)
        if k == "closure":
            self.fail(line, it, "closure outside an argument position")
        if k == "try":
            tx, ty = self.expr(e[2], env, ctx)
            return tx, ty
        if k == "macro":
            self.fail(line, it, f"`{e[2]}!` in expression position")
        if k == "match":
            self.fail(line, it, "`match` in expression position (only as a tail or a `let` value)")
        self.fail(line, it, f"expression `{k}` not supported")

    def const_expr(self, e, ctx):
        """an expression in a const context (array length): consts and `*`, unchecked (overflow is a compile error)."""
        if e[0] == "int":
            return str(e[2])
        if e[0] == "path" and len(e[2]) == 1 and e[2][0] in self.consts:
            return e[2][0]
        if e[0] == "bin" and e[2] == "*":
            return f"(const_mul {self.const_expr(e[3], ctx)} {self.const_expr(e[4], ctx)})"
        self.fail(e[1], ctx.it, "const expression not supported")

    def binop(self, e, env, ctx):
        it = ctx.it
        _, line, op, l, r = e
        if op in ("&&", "||"):
            a, aty = self.expr(l, env, ctx)
            sub = Ctx(it)
            sub.mut_self, sub.mut_params = False, []
            b, bty = self.expr(r, env, sub)
            if aty != "bool" or bty != "bool":
                self.fail(line, it, f"`{op}` on {aty!r}, {bty!r}")
            fn = "and" if op == "&&" else "or"
            if sub.lifts:
                # short circuit: the right operand is a computation, run only when needed
                b = b.replace("\n", "\n    ")
                return self.lift(f"bool_{fn}_lazy {a} (do\n    pure {b})", ctx), "bool"
            return f"(bool_{fn} {a} {b})", "bool"
        a, aty = self.expr(l, env, ctx)
        b, bty = self.expr(r, env, ctx, aty)
        if aty is None and bty is not None:
            a, aty = self.expr(l, env, ctx, bty)
        if op in CMP:
            if aty != bty and not (aty is None or bty is None):
                self.fail(line, it, f"`{op}` on {aty!r} and {bty!r}")
            if op in ("==", "!="):
                return f"({CMP[op]} {a} {b})", "bool"
            ty = aty or bty
            if ty not in ("i32", "usize"):
                self.fail(line, it, f"`{op}` on {ty!r}")
            return f"({ty}_{CMP[op][3:]} {a} {b})", "bool"
        if op in BIN:
            if aty != bty or aty not in INT_TYPES:
                self.fail(line, it, f"`{op}` on {aty!r} and {bty!r}")
            fn = f"{aty}_{BIN[op]}"
            if (aty, BIN[op]) in CHECKED:
                return self.lift(f"{fn} {a} {b}", ctx), aty
            return f"({fn} {a} {b})", aty
        self.fail(line, it, f"operator `{op}` not supported")

    def path(self, e, env, ctx, want=None):
        it = ctx.it
        segs = e[2]
        line = e[1]
        if len(segs) == 1:
            n = segs[0]
            if n == "self":
                return "self", it.selfty
            if n in env:
                return lv(n), env[n]
            if n in self.consts:
                return n, self.consts[n].ty
            if n in ("true", "false"):
                return n, "bool"
            if n == "None":
                return "none", ("Option", want[1] if isinstance(want, tuple) and want[0] == "Option" else None)
            self.fail(line, it, f"name `{n}` not known")
        if len(segs) == 2:
            ty, n = segs
            if ty == "Self" and it.impl in RGB_TYPES + GRAY_TYPES + ("BinaryColor",):
                ty = it.impl
            if ty in RGB_TYPES and n.isupper():
                return f"(ColorSrc.impl_rgb_color_{n} (type_named \"{ty}\"))", "Color"
            if ty == "BinaryColor" and n in ("Off", "On"):
                return f"BinaryColor_{n}", "Color"
        self.fail(line, it, f"path `{'::'.join(segs)}` not known")

    def callexpr(self, e, env, ctx, want):
        it = ctx.it
        _, line, fn, args = e
        if fn[0] != "path":
            self.fail(line, it, "call of something that is not a path")
        segs = fn[2]
        if segs == ["Some"] and len(args) == 1:
            tx, ty = self.expr(args[0], env, ctx, want[1] if isinstance(want, tuple) and want[0] == "Option" else None)
            return f"(some {tx})", ("Option", ty)
        if segs == ["Ok"]:
            self.fail(line, it, "`Ok(..)` outside the tail of a `&mut` function")
        if len(segs) >= 2 and (segs[-2], segs[-1]) == ("char", "from_digit"):
            a, _ = self.expr(args[0], env, ctx, "u32")
            b, _ = self.expr(args[1], env, ctx, "u32")
            return f"(char_from_digit {a} {b})", ("Option", "char")
        if len(segs) == 2:
            ty, n = segs
            if (ty, n) in STATIC_CALLS:
                ln, rty = STATIC_CALLS[(ty, n)]
                if ln.startswith("iter_repeat"):
                    ctx.needs_fuel = True
                    tx, aty = self.expr(args[0], env, ctx, want[1] if isinstance(want, tuple) and want[0] == "iter" else None)
                    return f"({ln} {tx})", ("iter", aty)
                parts = [self.expr(a, env, ctx)[0] for a in args]
                return "(" + " ".join([ln] + parts) + ")" if parts else ln, rty
            if ty in ("Self", "MockDisplay") and it.impl == "MockDisplay":
                cands = self.by_name.get(("MockDisplay", n), [])
                if len(cands) == 1:
                    cal = cands[0]
                    if cal.self_kind is not None:
                        self.fail(line, it, "UFCS call of a method not supported")
                    return self.lift(f"{cal.lname()}{self.type_args(cal, ctx)}{self.args(cal, args, env, ctx, line)}", ctx), cal.ret if cal.ret != "Self" else "MD"
            if ty == "Self" and it.selfty == "Color" and n == "new" and it.impl in GRAY_TYPES and len(args) == 1:
                a, aty = self.expr(args[0], env, ctx)
                if aty != "u8":
                    self.fail(line, it, f"`Self::new` on {aty!r}")
                return f"(ColorSrc.gray_color_new (type_named \"{it.impl}\") {a})", "Color"
            if ty in it.gen and it.color_m and n in ("char_to_color", "color_to_char") and len(args) == 1:
                a, aty = self.expr(args[0], env, ctx)
                return self.lift(f"ColorMapping_{n} {ty} {a}", ctx), ("Color" if n == "char_to_color" else "char")
        self.fail(line, it, f"call of `{'::'.join(segs)}` not known")

    def mcall(self, e, env, ctx, want):
        it = ctx.it
        _, line, recv, name, _, args = e
        r, rty = self.expr(recv, env, ctx)
        key = (rty if isinstance(rty, str) else rty[0] if rty else None, name)
        # user methods of MockDisplay
        if rty == "MD":
            if name == "bounding_box" and not args:
                sz = self.find("MockDisplay", "size", line, it, trait="OriginDimensions")
                return f"(OriginDimensions_bounding_box {self.lift(f'{sz.lname()} {r}', ctx)})", "Rectangle"
            cal = self.find("MockDisplay", name, line, it)
            if cal.self_kind == "refmut":
                self.fail(line, it, f"`&mut self` method `{name}` used as a value")
            return self.lift(f"{cal.lname()}{self.type_args(cal, ctx)} {r}{self.args(cal, args, env, ctx, line)}", ctx), cal.ret
        if (rty, name) in PURE_METHODS:
            ln, res = PURE_METHODS[(rty, name)]
            parts = [self.expr(a, env, ctx, "u32" if rty == "char" else None)[0] for a in args]
            return "(" + " ".join([ln, r] + parts) + ")", res
        if rty == "Color" and name == "luma" and not args and it.impl in GRAY_TYPES:
            return f"(ColorSrc.gray_color_luma (type_named \"{it.impl}\") {r})", "u8"
        kind = key[0]
        el = rty[1] if isinstance(rty, tuple) and len(rty) > 1 else None
        if kind == "Option":
            if name == "is_some" and not args:
                return f"(option_is_some {r})", "bool"
            if name == "map" and len(args) == 1:
                f, fty, fal = self.closure(args[0], [el], env, ctx)
                if fal:
                    return self.lift(f"option_map_p {r} {f}", ctx), ("Option", fty)
                return f"(option_map {r} {f})", ("Option", fty)
            if name == "or" and len(args) == 1:
                a, _ = self.expr(args[0], env, ctx, rty)
                return f"(option_or {r} {a})", rty
            if name == "map_or" and len(args) == 2:
                d, dty = self.expr(args[0], env, ctx)
                f, fty, fal = self.closure(args[1], [el], env, ctx)
                if fal:
                    return self.lift(f"option_map_or_p {r} {d} {f}", ctx), fty or dty
                return f"(option_map_or {r} {d} {f})", fty or dty
            if name == "unwrap" and not args:
                return self.lift(f"option_unwrap {r}", ctx), el
            if name == "unwrap_or_default" and not args and el == "Rectangle":
                return f"(option_unwrap_or {r} Rectangle_default)", el
        if kind == "array":
            if name == "iter" and not args:
                return f"(array_iter {r})", ("iter", el)
            if name in ("chunks", "rchunks") and len(args) == 1:
                n, nty = self.expr(args[0], env, ctx, "usize")
                return f"(array_{name} {r} {n})", ("iter", ("slice", el))
        if kind == "slice":
            if name == "iter" and not args:
                return f"(slice_iter {r})", ("iter", el)
            if name == "first" and not args:
                return f"(slice_first {r})", ("Option", el)
            if name == "len" and not args:
                return f"(slice_len {r})", "usize"
        if kind == "iter" and has_lazy(el) and name not in ("chain", "take", "enumerate"):
            self.fail(line, it, f"`{name}` on an iterator whose elements are computations (a `map` with a closure that can panic)")
        if kind == "iter":
            if name == "into_iter" and not args:
                return f"(iter_into_iter {r})", rty
            if name == "zip" and len(args) == 1:
                o, oty = self.expr(args[0], env, ctx)
                if not (isinstance(oty, tuple) and oty[0] == "iter"):
                    self.fail(line, it, "`zip` with something that is not an iterator")
                return f"(iter_zip {r} {o})", ("iter", ("tuple", (el, oty[1])))
            if name == "enumerate" and not args:
                return f"(iter_enumerate {r})", ("iter", ("tuple", ("usize", el)))
            if name in ("filter_map", "map", "flat_map", "take_while", "all") and len(args) == 1:
                f, fty, fal = self.closure(args[0], [el], env, ctx)
                res = {"filter_map": lambda: ("iter", fty[1] if isinstance(fty, tuple) else None), "map": lambda: ("iter", fty),
                       "flat_map": lambda: fty, "take_while": lambda: rty, "all": lambda: "bool"}[name]()
                if fal:
                    # the closure can panic: the elements of the new iterator are computations, run when (and if) pulled
                    if name != "map":
                        self.fail(line, it, f"fallible closure in `{name}`")
                    return f"(iter_map_lazy {r} {f})", ("iter", ("lazy", fty))
                return f"(iter_{name} {r} {f})", res
            if name == "fold" and len(args) == 2:
                clo = args[1]
                accty = clo[2][0][1] if clo[0] == "closure" and clo[2] and clo[2][0][1] is not None else None
                init, ity = self.expr(args[0], env, ctx, accty)
                f, fty, fal = self.closure(clo, [accty or ity, el], env, ctx)
                if fal:
                    self.fail(line, it, "fallible closure in `fold`")
                return f"(iter_fold {r} {init} {f})", accty or ity
            if name == "chain" and len(args) == 1:
                want_o = ("iter", el[1]) if is_lazy(el) else rty
                o, oty = self.expr(args[0], env, ctx, want_o)
                if not (isinstance(oty, tuple) and oty[0] == "iter"):
                    self.fail(line, it, "`chain` with something that is not an iterator")
                if is_lazy(el) and not is_lazy(oty[1]):
                    return f"(iter_chain {r} (iter_lift {o}))", rty
                if is_lazy(oty[1]) and not is_lazy(el):
                    return f"(iter_chain (iter_lift {r}) {o})", oty
                return f"(iter_chain {r} {o})", rty
            if name == "take" and len(args) == 1:
                n, nty = self.expr(args[0], env, ctx, "usize")
                return f"(iter_take {r} {n})", rty
            if name == "count" and not args:
                return f"(iter_count {r})", "usize"
            if name == "eq" and len(args) == 1:
                o, oty = self.expr(args[0], env, ctx)
                return f"(iter_eq {r} {o})", "bool"
        self.fail(line, it, f"method `{name}` on a value of type {rty!r} not known")

    # -- items
    def emit_const(self, it):
        toks, s, e = it.body
        with scoped():
            p = MockBodyParser(toks, s, e, it.name)
            ex = p.parse_expr()
            if not p.c.eof():
                p.fail("tokens after the const expression")
        ctx = Ctx(it)
        tx, ty = self.expr(ex, {}, ctx, it.ty)
        if "(←" in tx:
            self.fail(it.line, it, "fallible const expression")
        return f"/-- `const {it.name}` ({it.rel}:{it.line}) -/\ndef {it.name} : {lean_type(it.ty)} := {tx}\n"

    def emit_fn(self, it):
        toks, s, e = it.body
        with scoped():
            p = MockBodyParser(toks, s, e, it.lname())
            stmts, tail = p.parse_block_body()
        ctx = Ctx(it)
        env = {n: t for n, t, _ in it.params}
        mut = ctx.mut_self or bool(ctx.mut_params)
        if len(ctx.mut_params) > 1 or (ctx.mut_self and ctx.mut_params):
            self.fail(it.line, it, "more than one `&mut` parameter")
        if mut and it.ret not in ("unit", "ResultUnit"):
            self.fail(it.line, it, "a `&mut` function must return `()` or `Result<(), _>`")
        lines = []
        if ctx.mut_self:
            lines.append("  let mut self := self")
        for n in ctx.mut_params:
            lines.append(f"  let mut {lv(n)} := {lv(n)}")
        lines.extend(self.block(stmts, tail, env, ctx, 1, "fnend" if mut else "value"))
        it.needs_fuel = ctx.needs_fuel
        sig = ""
        if it.color_m and it.impl == "MockDisplay":
            sig += " (C : CT)"
        if it.needs_fuel:
            sig += " (fuel : Nat)"
        if it.self_kind is not None:
            sig += f" (self : {lean_type(it.selfty)})"
        for n, t, _ in it.params:
            sig += f" ({lv(n)} : {lean_type(t)})"
        if ctx.mut_self:
            ret = "MutRes MockDisplay MockDisplay"
        elif ctx.mut_params:
            ret = f"Panics {lean_type(env[ctx.mut_params[0]])}"
        else:
            rt = it.ret if it.ret != "Self" else it.selfty
            ret = f"Panics {lean_type(rt)}"
        doc = f"/-- `{(it.trait + ' for ' if it.trait else '') + (it.impl or '')}::{it.name}` ({it.rel}:{it.line}) -/"
        return f"{doc}\ndef {it.lname()}{sig} : {ret} := do\n" + "\n".join(lines) + "\n"


def ctor_of(rust_name):
    return "." + rust_name[0].lower() + rust_name[1:].replace("Color", "") if rust_name != "BinaryColor" else ".binary"


def translate(repo):
    items, structs = [], {}
    srcs = {}
    for rel in (MOD, CM):
        path = os.path.join(repo, rel)
        if not os.path.exists(path):
            raise TrError(f"{rel}: file not found")
        toks = tokenize(strip_comments(open(path).read(), rel), rel)
        toks, _counts = tr_rawsrc.expand_macros(toks, rel)
        srcs[rel] = toks
        scan(toks, rel, items, structs)
    if structs.get("MockDisplay") is None:
        raise TrError("struct MockDisplay not found")
    want_fields = [("pixels", ("array", ("Option", "Color"))), ("allow_overdraw", "bool"), ("allow_out_of_bounds_drawing", "bool")]
    if structs["MockDisplay"] != want_fields:
        raise TrError(f"struct MockDisplay has fields {structs['MockDisplay']!r}; the prelude knows {want_fields!r}")
    em = Emitter(items, structs)
    out = []
    translated, untranslated = [], []
    # order: consts, colour mappings, then MockDisplay functions in dependency order (callees first)
    consts = [it for it in items if it.kind == "const"]
    for it in consts:
        out.append(em.emit_const(it))
        translated.append((it.name, f"{it.rel}:{it.line}"))
    cms = [it for it in items if it.trait == "ColorMapping"]
    types = []
    for it in cms:
        if it.impl not in types:
            types.append(it.impl)
        out.append(em.emit_fn(it))
        translated.append((it.lname(), f"{it.rel}:{it.line}"))
    for fn, argty, rty in (("char_to_color", "Char", "Color"), ("color_to_char", "Color", "Char")):
        missing = [t for t in types if not any(i.impl == t and i.name == fn for i in cms)]
        if missing:
            raise TrError(f"ColorMapping::{fn} missing for {missing}")
        arms = "\n".join(f"  | {ctor_of(t)} => {t}_{fn} x" for t in types)
        out.append(f"/-- `C::{fn}` for a generic `C: ColorMapping`: dispatch over the implementing types (source order). -/\n"
                   f"def ColorMapping_{fn} (C : CT) (x : {argty}) : Panics {rty} :=\n  match C with\n{arms}\n")
    mds = [it for it in items if it.impl == "MockDisplay"]
    pending = [it for it in mds if it.name not in NOT_TRANSLATED]
    untranslated = [f"{(it.trait + '::') if it.trait else ''}{it.name}" for it in mds if it.name in NOT_TRANSLATED]
    done = set()
    progress = True
    texts = {}
    while pending and progress:
        progress = False
        for it in list(pending):
            deps = calls_of(it, mds)
            if all(d in done or d == it.lname() for d in deps):
                texts[it.lname()] = em.emit_fn(it)
                out.append(texts[it.lname()])
                translated.append((it.lname(), f"{it.rel}:{it.line}"))
                done.add(it.lname())
                pending.remove(it)
                progress = True
    if pending:
        raise TrError("recursive functions: " + ", ".join(i.lname() for i in pending))
    header = ("/-\n  EG.Generated.MockSrc — GENERATED by tools/tr_mocksrc.py from /repo's current sources. Do not edit.\n"
              f"  Sources: {MOD}, {CM}. One definition per Rust function, arm for arm; the meaning of every\n"
              "  primitive is in EG/Model/MockSrcPrelude.lean. Equal to the hand model by EG/Props/C20/Generated*.lean.\n-/\n"
              "import EG.Model.MockSrcPrelude\nimport EG.Generated.RectSrc\nimport EG.Generated.ColorSrc\n\n"
              "namespace EG.Generated.MockSrc\nopen EG EG.Mock EG.RectSrcPrelude EG.MockSrcPrelude EG.Generated\n"
              "open EG.ColorSrcPrelude (type_named BinaryColor_Off BinaryColor_On)\n\n")
    tail = ("/-- every function of every `impl` of `MockDisplay` that is NOT translated -/\n"
            "def untranslated : List String := [" + ", ".join(f'"{u}"' for u in untranslated) + "]\n\n"
            "/-- the colour types that implement `ColorMapping`, source order -/\n"
            "def mappingTypes : List String := [" + ", ".join(f'"{t}"' for t in types) + "]\n\n"
            "def translated : List (String × String) := [\n" + ",\n".join(f'  ("{a}", "{b}")' for a, b in translated) + "\n]\n\n"
            "end EG.Generated.MockSrc\n")
    return header + "\n".join(out) + "\n" + tail, {"functions": len(translated), "untranslated": untranslated, "types": len(types)}


def calls_of(it, mds):
    """names (lname) of MockDisplay functions whose NAME occurs in the body as `.name(` / `::name(` (over-approximation)."""
    toks, s, e = it.body
    names = set()
    for k in range(s, e - 1):
        if toks[k].kind == "id" and toks[k + 1].text == "(" and k > s and toks[k - 1].text in (".", "::"):
            names.add(toks[k].text)
        if toks[k].kind == "id" and toks[k].text == "bounding_box":
            names.add("size")
    out = set()
    for other in mds:
        if other.name in names and other.name not in NOT_TRANSLATED:
            out.add(other.lname())
    return out


def failed_file(reason):
    r = reason.replace("\\", "\\\\").replace('"', '\\"').replace("\n", " ")
    return ("/-\n  EG.Generated.MockSrc — GENERATED by tools/tr_mocksrc.py. THE TRANSLATION FAILED: the Rust source of MockDisplay\n"
            "  contains a construct the translator does not know. No function is defined here, so the `_src_eq_model`\n"
            "  theorems of EG/Props/C20/Generated*.lean do not build.\n-/\n"
            "namespace EG.Generated.MockSrc\n\n"
            f"def translationFailed : String := \"{r}\"\n\nend EG.Generated.MockSrc\n")


def generate(repo):
    try:
        text, info = translate(repo)
        return {"MockSrc.lean": text}, info
    except TrError as ex:
        reason = str(ex)
    except RecursionError:
        reason = "recursion limit reached while parsing"
    except Exception as ex:
        reason = f"internal error {type(ex).__name__}: {ex}"
    return {"MockSrc.lean": failed_file(reason)}, {"failed": reason}


if __name__ == "__main__":
    import json
    repo = os.environ.get("EG_REPO", "/repo")
    if len(sys.argv) > 1 and sys.argv[1] == "--strict":
        t, i = translate(repo)
        print(t)
    else:
        files, info = generate(repo)
        print(files["MockSrc.lean"])
        print(json.dumps(info), file=sys.stderr)
