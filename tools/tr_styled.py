#!/usr/bin/env python3
"""tr_styled.py — SOURCE-TO-LEAN translator for `PrimitiveStyle` and the STYLED RECTANGLE (C06; C01 and C02 rest on it).

It reads, from /repo's current working tree,
  src/primitives/primitive_style.rs      `PrimitiveStyle::{new, with_stroke, with_fill, outside_stroke_width, inside_stroke_width,
                                         is_transparent, effective_stroke_color, stroke_area, fill_area, const_default}`, `Default`,
                                         `PrimitiveStyleBuilder` (all setters, `build`, `From<&PrimitiveStyle>`), `StrokeAlignment`,
                                         `StrokeStyle`
  src/primitives/rectangle/styled.rs     `StyledPixelsIterator::{new, next}`, `StyledPixels::pixels`, `StyledDrawable::draw_styled`
                                         (SOLID stroke; the `StrokeStyle::Dotted` block is not looked into, see below),
                                         `StyledDimensions::styled_bounding_box`
(and, through tr_rect's program, the `Rectangle` / `Point` / `Size` functions these bodies call: they are NOT translated again, a
call becomes `RectSrc.<name>`, the definition of lean/EG/Generated/RectSrc.lean) and writes EG/Generated/StyledSrc.lean: one
Lean `def` per Rust function, mirroring the Rust text arm for arm. Everything semantic lives in the preludes
EG/Model/RectSrcPrelude.lean and EG/Model/StyledSrcPrelude.lean.

REUSES tools/tr_rect.py (imported, not edited): tokenizer, `Cursor`, `parse_type`, `parse_items` / `parse_fn` for the bodies of
impls, the statement / expression parser (through tr_adapt's subclass, which adds `?` and pattern closure parameters) and the
whole `Translator` (subclassed here as `StyledTranslator`). What this part adds:
  * its own item scanner: generic structs / impls (`impl<C> PrimitiveStyle<C> where C: PixelColor`). The colour parameter must be
    exactly `C` bounded by `PixelColor`; it becomes the opaque type `C` of the prelude (`EG.Color`). `PrimitiveStyle<C>` etc. are
    written without their argument.
  * generic functions, by INSTANTIATION, only the two shapes that occur: `<P: OffsetOutline>` is instantiated with `P := Rectangle`
    (method calls on a `P` resolve to the `OffsetOutline` impl, not to inherent methods), `<D> .. where D: DrawTarget<Color = C>`
    makes the function a TARGET-CALL function (next point).
  * functions returning `Result<_, D::Error>` with a `target: &mut D` parameter are translated into THE LIST OF TARGET CALLS they make when
    every call returns `Ok` (values of the hand model's `EG.Call`): a statement `target.fill_solid(&a, c)?;` is `target_fill_solid a c :: rest`,
    `return Ok(())` and the tail `Ok(())` are `[]`; statement-position `if` / `if let` / `let .. else` copy the continuation into
    the arms. SHAPE CHECK: a target call must be exactly a statement `target.m(..)?;` (its error is propagated unchanged, nothing
    else is done with its `Result`); anything else that mentions `target` is refused.
  * `let PAT = E else { diverges };`, `Option::{is_none, filter(|_| ..)}`, `==` / `!=` between values of an enum that derives
    `PartialEq`, `mut self` parameters (local rebinding), `Self::Assoc::f(..)`, `x.saturating_as()` without turbofish (the target
    type is then CHECKED by unification at the use site: the prelude only has `u32 -> i32`).
  * `for x in &mut self.field { .. }` in a `&mut self` function whose field type has a translated `Iterator::next` (`Points`): the
    prelude's `for_mut_loop` on explicit fuel.
  * THE DOTTED BRANCH. In `draw_styled` the block of `if style.stroke_style == StrokeStyle::Dotted { .. }` is replaced, before parsing,
    by the opaque value `dotted` (an extra parameter of the generated function: "whatever the function does from here on"); the free
    functions of rectangle/styled.rs it calls are not parsed. Both facts are written into the generated table `untranslated`, pinned
    by a theorem. Every theorem about `draw_styled` is for `stroke_style = Solid`, where `dotted` is not used.

Any construct that is not known raises (never skipped); `generate` then writes a StyledSrc.lean that only contains
`def translationFailed`, so exactly the theorems importing it stop building.
"""
import contextlib
import os
import re

import tr_rect
import tr_adapt
from tr_rect import RectTrError as TrError, Cursor, tokenize, strip_comments, parse_type, type_str

FILES = {
    "style": "src/primitives/primitive_style.rs",
    "srect": "src/primitives/rectangle/styled.rs",
}
MY_RELS = set(FILES.values())
COLOR_PARAM = "C"
GENERIC_STRUCTS = ["PrimitiveStyle", "PrimitiveStyleBuilder", "StyledPixelsIterator"]   # `X<C>` is written `X`
DOTTED_MARK = "dotted"

ROOTS = [
    ("PrimitiveStyle", None, "new"), ("PrimitiveStyle", None, "with_stroke"), ("PrimitiveStyle", None, "with_fill"),
    ("PrimitiveStyle", None, "outside_stroke_width"), ("PrimitiveStyle", None, "inside_stroke_width"),
    ("PrimitiveStyle", None, "is_transparent"), ("PrimitiveStyle", None, "effective_stroke_color"),
    ("PrimitiveStyle", None, "stroke_area"), ("PrimitiveStyle", None, "fill_area"), ("PrimitiveStyle", None, "const_default"),
    ("PrimitiveStyle", "Default", "default"),
    ("PrimitiveStyleBuilder", None, "new"), ("PrimitiveStyleBuilder", None, "fill_color"),
    ("PrimitiveStyleBuilder", None, "reset_fill_color"), ("PrimitiveStyleBuilder", None, "stroke_color"),
    ("PrimitiveStyleBuilder", None, "reset_stroke_color"), ("PrimitiveStyleBuilder", None, "stroke_width"),
    ("PrimitiveStyleBuilder", None, "stroke_alignment"), ("PrimitiveStyleBuilder", None, "stroke_style"),
    ("PrimitiveStyleBuilder", None, "build"), ("PrimitiveStyleBuilder", "From", "from"),
    ("StrokeAlignment", "Default", "default"), ("StrokeStyle", None, "const_default"),
    ("StyledPixelsIterator", None, "new"), ("StyledPixelsIterator", "Iterator", "next"),
    ("Rectangle", "StyledPixels", "pixels"), ("Rectangle", "StyledDrawable", "draw_styled"),
    ("Rectangle", "StyledDimensions", "styled_bounding_box"),
]
INVENTORY_TYPES = ["PrimitiveStyle", "PrimitiveStyleBuilder", "StrokeAlignment", "StrokeStyle", "StyledPixelsIterator", "Rectangle"]
TARGET_METHODS = {"fill_solid": (["Rectangle", COLOR_PARAM], "target_fill_solid")}


# ---------------------------------------------------------------------------------------------------------------
# parser extension: let-else, `for`, closure parameter `_`, `?` (from tr_adapt)
# ---------------------------------------------------------------------------------------------------------------

class StyledBodyParser(tr_adapt.AdaptBodyParser):
    def parse_block_body(self):
        """copy of tr_rect.BodyParser.parse_block_body with `let PAT = E else { .. };` (node `letelse`) and
        `for PAT in E { .. }` (node `for`, a statement) added"""
        c = self.c
        stmts, tail = [], None
        while not c.eof():
            if tail is not None:
                self.fail("expression in the middle of a block without `;`")
            if c.at(";"):
                c.next()
                continue
            if c.at("let"):
                t = c.next()
                mut = False
                if c.at("mut"):
                    c.next()
                    mut = True
                pat = self.parse_pattern()
                ty = None
                if c.at(":"):
                    c.next()
                    ty = parse_type(c)
                c.expect("=")
                e = self.parse_expr(nostruct=False)
                if c.at("else"):
                    c.next()
                    if ty is not None or mut:
                        self.fail("let-else with `mut` / a type annotation not supported")
                    els = self.parse_braced_block()
                    c.expect(";")
                    stmts.append(("letelse", t.line, pat, e, els))
                    continue
                c.expect(";")
                stmts.append(("let", t.line, pat, ty, e, mut))
                continue
            if c.at("for"):
                t = c.next()
                pat = self.parse_pattern()
                c.expect("in")
                if c.at("&") and c.at("mut", 1):
                    a = c.next()
                    c.next()
                    it = ("refmut", a.line, self.parse_expr(nostruct=True))
                else:
                    it = self.parse_expr(nostruct=True)
                body = self.parse_braced_block()
                stmts.append(("expr", t.line, ("for", t.line, pat, it, body)))
                continue
            if c.peek().kind == "id" and c.peek().text in ("fn", "struct", "enum", "impl", "use", "const", "static", "loop", "unsafe"):
                self.fail(f"`{c.peek().text}` inside a body is not supported")
            e = self.parse_expr(stmt=True)
            if c.at("=") or (c.peek() and c.peek().kind == "p" and c.peek().text in ("+=", "-=", "*=", "/=", "%=")):
                op = c.next()
                rhs = self.parse_expr()
                c.expect(";")
                stmts.append(("assign", op.line, op.text, e, rhs))
            elif c.at(";"):
                c.next()
                stmts.append(("expr", e[1], e))
            elif c.eof():
                tail = e
            elif e[0] in ("if", "match", "block", "while"):
                stmts.append(("expr", e[1], e))
            else:
                self.fail(f"expected `;` or end of block after expression, found `{c.peek().text}`")
        return stmts, tail


@contextlib.contextmanager
def styled_parser():
    """tr_rect's parser creates its sub-parsers through the module-level name `BodyParser`: bind it to the subclass
    while this part parses, restore afterwards (tr_rect.py itself is not edited)."""
    old = tr_rect.BodyParser
    tr_rect.BodyParser = StyledBodyParser
    try:
        yield
    finally:
        tr_rect.BodyParser = old


# ---------------------------------------------------------------------------------------------------------------
# item scanner (generic structs / impls; bodies of impls go through tr_rect.parse_items)
# ---------------------------------------------------------------------------------------------------------------

def parse_generics(c, rel):
    """cursor at `<`: returns [(name, bound text or None)]"""
    c.expect("<")
    out = []
    while not c.at(">"):
        n = c.ident()
        b = None
        if c.at(":"):
            c.next()
            parts, depth = [], 0
            while not ((c.at(",") or c.at(">")) and depth == 0):
                t = c.next()
                depth += t.text == "<"
                depth -= t.text == ">"
                parts.append(t.text)
            b = "".join(parts)
        out.append((n, b))
        if c.at(","):
            c.next()
    c.expect(">")
    return out


def parse_where(c):
    """cursor at `where`: the clause's text up to `{` / `;`"""
    c.expect("where")
    parts = []
    while not (c.eof() or c.at("{") or c.at(";")):
        parts.append(c.next().text)
    return "".join(parts)


def check_color_generics(gens, where_txt, what):
    """the only generic parameter of a struct / impl we know is the colour `C: PixelColor`"""
    if not gens:
        if where_txt:
            raise TrError(f"{what}: where clause `{where_txt}` without generics")
        return
    if [n for n, _ in gens] != [COLOR_PARAM]:
        raise TrError(f"{what}: generic parameters {gens} (only `<{COLOR_PARAM}>` with bound PixelColor is known)")
    b = gens[0][1]
    w = (where_txt or "").rstrip(",")
    if not ((b == "PixelColor" and w == "") or (b is None and w == f"{COLOR_PARAM}:PixelColor") or (b is None and w == "" and "struct" in what)):
        raise TrError(f"{what}: bound of `{COLOR_PARAM}` is `{b}` / where `{where_txt}` (expected PixelColor)")


def strip_color_arg(texts, what):
    """`['PrimitiveStyle','<','C','>']` -> 'PrimitiveStyle'; `StyledPixels<PrimitiveStyle<C>>` -> 'StyledPixels';
    `From<&PrimitiveStyle<C>>` -> 'From'"""
    s = "".join(texts)
    m = re.fullmatch(r"(?:\w+::)*(\w+)(<.*>)?", s)
    if not m:
        raise TrError(f"{what}: cannot read `{s}`")
    return m.group(1), (m.group(2) or "")


class Scan:
    def __init__(self):
        self.derives = {}        # type name -> derive text
        self.free_fns = []       # (rel, name) of free functions that are not parsed
        self.trait_args = {}     # (impl type, trait) -> generic argument text of the trait


def scan_file(toks, prog, rel, scan):
    c = Cursor(toks)
    while not c.eof():
        derive = ""
        while c.at("#"):
            c.next()
            if c.at("!"):
                c.next()
            s, e = c.skip_balanced("[", "]")
            txt = "".join(t.text for t in c.t[s:e])
            if txt.startswith("derive("):
                derive += txt
        if c.at("pub"):
            c.next()
            if c.at("("):
                c.skip_balanced("(", ")")
        if c.eof():
            break
        t = c.peek()
        kw = t.text
        if kw == "use":
            while not c.at(";"):
                if c.at("{"):
                    c.skip_balanced("{", "}")
                else:
                    c.next()
            c.next()
        elif kw == "mod":
            c.next()
            name = c.ident()
            if c.at(";"):
                c.next()
            else:
                c.skip_balanced("{", "}")
                if name != "tests":
                    raise TrError(f"{rel}:{t.line}: inline module `{name}` not known")
        elif kw in ("const", "fn"):
            if kw == "const":
                c.next()
                if not c.at("fn"):
                    raise TrError(f"{rel}:{t.line}: top-level `const` item not known")
            c.next()
            name = c.ident()
            while not c.at("{"):
                c.next()
            c.skip_balanced("{", "}")
            scan.free_fns.append((rel, name))
        elif kw == "struct":
            c.next()
            name = c.ident()
            gens = parse_generics(c, rel) if c.at("<") else []
            w = parse_where(c) if c.at("where") else None
            check_color_generics(gens, w, f"{rel}: struct {name}")
            if bool(gens) != (name in GENERIC_STRUCTS):
                raise TrError(f"{rel}: struct {name}: generic parameters {gens} differ from what the translator expects")
            if not c.at("{"):
                raise TrError(f"{rel}: struct {name} is not a braced struct")
            s, e = c.skip_balanced("{", "}")
            fc = Cursor(c.t, s, e)
            fields = []
            while not fc.eof():
                tr_rect.skip_attrs_and_vis(fc)
                if fc.eof():
                    break
                fname = fc.ident()
                fc.expect(":")
                fields.append((fname, parse_type(fc)))
                if fc.at(","):
                    fc.next()
            if name in prog.structs:
                raise TrError(f"{rel}: struct {name} declared twice")
            prog.structs[name] = fields
            scan.derives[name] = derive
        elif kw == "enum":
            c.next()
            name = c.ident()
            if not c.at("{"):
                raise TrError(f"{rel}:{t.line}: generic enum {name} not supported")
            s, e = c.skip_balanced("{", "}")
            ec = Cursor(c.t, s, e)
            variants = []
            while not ec.eof():
                tr_rect.skip_attrs_and_vis(ec)
                if ec.eof():
                    break
                v = ec.ident()
                if not (ec.eof() or ec.at(",")):
                    raise TrError(f"{rel}: enum {name}: variant {v} carries data or a discriminant (not supported)")
                variants.append(v)
                if ec.at(","):
                    ec.next()
            if name in prog.enums:
                raise TrError(f"{rel}: enum {name} declared twice")
            prog.enums[name] = variants
            scan.derives[name] = derive
        elif kw == "impl":
            c.next()
            gens = parse_generics(c, rel) if c.at("<") else []
            start = c.i
            while not (c.at("{") or c.at("where")):
                c.next()
            texts = [x.text for x in c.t[start:c.i]]
            w = parse_where(c) if c.at("where") else None
            what = f"{rel}:{t.line}: impl {''.join(texts)}"
            check_color_generics(gens, w, what)
            if "for" in texts:
                k = texts.index("for")
                trn, targs = strip_color_arg(texts[:k], what)
                ty, tyargs = strip_color_arg(texts[k + 1:], what)
            else:
                trn, targs = None, ""
                ty, tyargs = strip_color_arg(texts, what)
            if tyargs not in ("", f"<{COLOR_PARAM}>") or (tyargs != "") != (ty in GENERIC_STRUCTS):
                raise TrError(f"{what}: type arguments `{tyargs}` not known")
            if trn is not None:
                scan.trait_args[(ty, trn)] = targs
            s, e = c.skip_balanced("{", "}")
            tr_rect.parse_items(Cursor(c.t, s, e), prog, rel, impl_type=ty, trait=trn)
        else:
            raise TrError(f"{rel}:{t.line}: item starting with `{kw}` is not known to the translator")


def fn_signature(f):
    """(generics [(name, bound)], where text, has `mut self`) read again from the tokens before the body"""
    toks, s, _ = f.body
    i = s - 2
    while i >= 0 and not (toks[i].text == "fn" and toks[i + 1].text == f.name):
        i -= 1
    if i < 0:
        raise TrError(f"{f.rel}: fn {f.name}: cannot find the signature")
    c = Cursor(toks, i + 2, s - 1)
    gens = parse_generics(c, f.rel) if c.at("<") else []
    ps, pe = c.skip_balanced("(", ")")
    ptxt = [t.text for t in toks[ps:pe]]
    mut_self = len(ptxt) >= 2 and ptxt[0] == "mut" and ptxt[1] == "self"
    w = None
    while not c.eof():
        if c.at("where"):
            w = parse_where(c)
        else:
            c.next()
    return gens, w, mut_self


def subst_type(t, m):
    if isinstance(t, str):
        return m.get(t, t)
    if t[0] == "refmut":
        return ("refmut", subst_type(t[1], m))
    return (t[0], tuple(subst_type(x, m) for x in t[1]))


def drop_color_arg(t):
    if isinstance(t, str):
        return t
    if t[0] == "refmut":
        return ("refmut", drop_color_arg(t[1]))
    if t[0] in GENERIC_STRUCTS:
        if t[1] != (COLOR_PARAM,):
            raise TrError(f"type {type_str(t)}: only `<{COLOR_PARAM}>` is known as its argument")
        return t[0]
    return (t[0], tuple(drop_color_arg(x) for x in t[1]))


def replace_dotted_block(toks, rel):
    """`if style.stroke_style == StrokeStyle::Dotted { BLOCK }` -> `.. { dotted }` (token level). Returns (tokens, number of
    blocks replaced)."""
    pat = ["if", "style", ".", "stroke_style", "==", "StrokeStyle", "::", "Dotted", "{"]
    out, i, n = [], 0, 0
    while i < len(toks):
        if [t.text for t in toks[i:i + len(pat)]] == pat:
            out.extend(toks[i:i + len(pat)])
            c = Cursor(toks, i + len(pat) - 1)
            s, e = c.skip_balanced("{", "}")
            out.append(tr_rect.Tok("id", DOTTED_MARK, toks[s].line if s < len(toks) else 0, rel))
            out.append(toks[e])
            i = e + 1
            n += 1
        else:
            out.append(toks[i])
            i += 1
    return out, n


def load(repo):
    prog = tr_rect.load_program(repo)
    for name, fields in tr_rect.EXPECTED_STRUCTS.items():
        if prog.structs.get(name) != fields:
            raise TrError(f"struct {name}: fields {prog.structs.get(name)} differ from the prelude's {fields}")
    scan = Scan()
    scan.dotted_blocks = 0
    for key, rel in FILES.items():
        p = os.path.join(repo, rel)
        if not os.path.exists(p):
            raise TrError(f"{rel}: file not found")
        toks = tokenize(strip_comments(open(p).read(), rel), rel)
        if key == "srect":
            toks, n = replace_dotted_block(toks, rel)
            scan.dotted_blocks = n
        scan_file(toks, prog, rel, scan)
    finish_fns(prog)
    return prog, scan


def finish_fns(prog):
    """generic instantiation, target-call kind, types without the colour argument (functions of this part's files)"""
    for f in prog.fns.values():
        if f.rel not in MY_RELS or hasattr(f, "kind2"):
            continue
        f.kind2 = "plain"
        f.type_map = {}
        f.dispatch = {}
        if f.body is None:
            continue
        gens, w, mut_self = fn_signature(f)
        uns = getattr(f, "unsupported", None)
        if uns in ("generic function", "where clause", "`mut self` parameter"):
            uns = None
        if gens == [("P", "OffsetOutline")] and w is None:
            f.type_map = {"P": "Rectangle"}
            f.dispatch = {"Rectangle": "OffsetOutline"}
        elif gens == [("D", None)] and (w or "").rstrip(",") == f"D:DrawTarget<Color={COLOR_PARAM}>":
            f.kind2 = "calls"
        elif gens or w:
            uns = f"generic parameters {gens} where `{w}`: not one of the known shapes"
        f.unsupported = uns
        if uns:
            continue
        try:
            f.ret = tr_rect.subst_assoc(f.ret, f, prog) if not (isinstance(f.ret, tuple) and f.ret[0] == "Result") else f.ret
            f.params = [(n, drop_color_arg(subst_type(tr_rect.subst_assoc(t, f, prog), f.type_map))) for (n, t) in f.params]
            if not (isinstance(f.ret, tuple) and f.ret[0] == "Result"):
                f.ret = drop_color_arg(subst_type(f.ret, f.type_map))
        except TrError as ex:
            f.unsupported = str(ex)
    for name in list(prog.structs):
        if name in GENERIC_STRUCTS or name in ("StrokeAlignment", "StrokeStyle"):
            prog.structs[name] = [(n, drop_color_arg(t)) for (n, t) in prog.structs[name]]
    for k in list(prog.assoc):
        prog.assoc[k] = drop_color_arg(prog.assoc[k]) if k[0] in INVENTORY_TYPES and not isinstance(prog.assoc[k], str) else prog.assoc[k]


# ---------------------------------------------------------------------------------------------------------------
# translation
# ---------------------------------------------------------------------------------------------------------------

MY_STRUCTS = ["PrimitiveStyle", "PrimitiveStyleBuilder", "StyledPixelsIterator"]
MY_ENUMS = ["StrokeAlignment", "StrokeStyle"]
STYLED_PRELUDE_NAMES = {"option_is_none", "option_filter", "enum_eq", "enum_ne", "target_fill_solid", "for_mut_loop", "Pixel",
                        "Pixel_mk", "C", "Call", "dotted", "Points"}


class StyledTranslator(tr_rect.Translator):
    def __init__(self, prog, scan, rect_done, rect_loopy):
        super().__init__(prog)
        self.scan = scan
        self.rect_done = rect_done
        self.rect_loopy = rect_loopy
        self.cur = None
        self.shapes = []       # (lean name, number of target calls, all are `target.m(..)?;` statements)

    # ---- names / types
    def lean_fn_name(self, f):
        if f.rel not in MY_RELS:
            return super().lean_fn_name(f)
        tr = f.trait
        if tr is not None and not re.fullmatch(r"\w+", tr):
            raise TrError(f"trait name `{tr}` not understood")
        return f"{f.impl_type}_{tr + '_' if tr else ''}{f.name}"

    def lvar(self, name):
        if name in STYLED_PRELUDE_NAMES or name in MY_STRUCTS or name in MY_ENUMS:
            return name + "_"
        return super().lvar(name)

    def lean_type(self, t, self_type=None):
        if t == "Self":
            t = self_type
        if t == COLOR_PARAM:
            return "C"
        if t in MY_STRUCTS or t in MY_ENUMS or t == "Points":
            return t
        if t == "Pixel":
            return "Pixel"
        if isinstance(t, tuple) and t[0] == "Option" and len(t[1]) == 1:
            return f"(Option {self.lean_type(t[1][0], self_type)})"
        return super().lean_type(t, self_type)

    def norm_type(self, t, self_type):
        t = super().norm_type(t, self_type)
        if self.cur is not None:
            t = subst_type(t, self.cur.type_map)
        if t == ("Pixel", (COLOR_PARAM,)):
            return "Pixel"
        return drop_color_arg(t)

    # ---- functions
    def need(self, f):
        if f.rel not in MY_RELS:
            k = f.key()
            if k not in self.rect_done:
                raise TrError(f"function {k} of {f.rel} is called but is not among the functions tr_rect translates")
            return self.rect_done[k]
        return super().need(f)

    def find_method(self, ty, name, where):
        d = self.cur.dispatch if self.cur is not None else {}
        if ty in d:
            return self.find_fn(ty, d[ty], name, where)
        return super().find_method(ty, name, where)

    def translate_fn(self, f):
        saved = self.cur
        self.cur = f
        try:
            if f.kind2 == "calls":
                return self.translate_calls_fn(f)
            if f.self_kind == "refmut" and tr_rect.contains_kind(tr_rect.BodyParser(*f.body, "probe").parse_block_body(), "for"):
                return self.translate_for_fn(f)
            txt = super().translate_fn(f)
            if f.type_map:
                txt = txt.replace(" -/\n", " (generic function, instantiated with " + ", ".join(f"{a} := {b}" for a, b in f.type_map.items())
                                  + "; methods of `P` resolve to the `OffsetOutline` impl) -/\n", 1)
            return txt
        finally:
            self.cur = saved

    def call_user(self, g, self_arg, args, env, ctx, line, ind):
        where, cur = self.where, self.cur
        name = self.need(g)
        self.where, self.cur = where, cur
        mine = g.rel in MY_RELS
        if g.self_kind == "refmut":
            raise TrError(f"{self.where}: line {line}: `&mut self` method {g.name} may only be called in a `for` loop / as a statement")
        if (g.key() in self.loopy_fns) or (not mine and g.key() in self.rect_loopy) or getattr(g, "kind2", "") == "calls":
            raise TrError(f"{self.where}: line {line}: call of `{g.name}` (a loop / a target-call function): not supported here")
        saved = self.cur
        a = self.tr_args(args, g, env, ctx, line, ind)
        self.cur = saved
        if self_arg is not None:
            a = [self.atom(self_arg)] + a
        self.cur = g if mine else None
        try:
            ret = self.norm_type(g.ret, g.impl_type)
        finally:
            self.cur = saved
        q = "StyledSrc" if mine else "RectSrc"
        return (f"({q}.{name}{''.join(' ' + x for x in a)})" if a else f"{q}.{name}"), ret

    def tr_args(self, args, g, env, ctx, line, ind):
        # parameter types of `g` are normalised in g's own generic instantiation
        if len(args) != len(g.params):
            raise TrError(f"{self.where}: line {line}: {g.name} takes {len(g.params)} argument(s), {len(args)} given")
        out = []
        for a, (pn, pt) in zip(args, g.params):
            saved = self.cur
            self.cur = g if g.rel in MY_RELS else None
            try:
                pt = self.norm_type(pt, g.impl_type)
            finally:
                self.cur = saved
            txt, t = self.tr_expr(a, self.nt(env), ctx, pt, ind + 2)
            self.unify(t, pt, f"{self.where}: line {line}: argument `{pn}` of {g.name}")
            out.append(self.atom(txt))
        return out

    # ---- target-call functions
    def translate_calls_fn(self, f):
        where = f"{f.rel} fn {f.impl_type}::{f.name}"
        self.where = where
        st = f.impl_type
        if f.self_kind != "ref":
            raise TrError(f"{where}: a target-call function must take `&self`")
        env = {"%tail": True, "%frozen": frozenset(), "self": st}
        params = [("self", st)]
        target = None
        for (n, t) in f.params:
            if t == ("refmut", "D"):
                if target is not None:
                    raise TrError(f"{where}: two target parameters")
                target = n
                continue
            t = self.norm_type(t, st)
            env[n] = t
            params.append((n, t))
        if target is None or f.ret[0] != "Result" or len(f.ret[1]) != 2 or f.ret[1][1] != "Error":
            raise TrError(f"{where}: expected `target: &mut D` and a result type `Result<_, D::Error>`")
        okt = tr_rect.subst_assoc(f.ret[1][0], f, self.prog)
        if okt != "unit":
            raise TrError(f"{where}: Ok type {type_str(okt)} (only `()` is known)")
        toks, s, e = f.body
        stmts, tail = tr_rect.BodyParser(toks, s, e, where).parse_block_body()
        if tail is not None:
            stmts = stmts + [("expr", tail[1], ("return", tail[1], tail))]
        uses_dotted = tr_rect.contains_kind((stmts,), "path") and DOTTED_MARK in repr(stmts)
        ctx = {"ret": "calls", "self_type": st, "mut_self": False, "kind": "calls", "loopy": False, "in_loop": False,
               "target": target, "callsites": set()}

        def final(env2, ind2=2):
            raise TrError(f"{where}: the end of the body is reached without `Ok(())`")
        body, _ = self.tr_stmts(stmts, 0, None, env, ctx, None, final, 2)
        name = self.lean_fn_name(f)
        self.shapes.append((name, len(ctx["callsites"])))
        ps = " ".join(f"({self.lvar(n)} : {self.lean_type(t)})" for (n, t) in params)
        if uses_dotted:
            ps += f" ({DOTTED_MARK} : List Call)"
        head = (f"/-- `{f.rel}` line {f.line}: `impl {f.trait} for {st} :: {f.name}` (TARGET-CALL function: the list of the calls it makes on "
                f"`{target}` when each returns `Ok`; every call is a statement `{target}.m(..)?;`"
                + (f"; `{DOTTED_MARK}` = what the untranslated `StrokeStyle::Dotted` block does" if uses_dotted else "") + ") -/\n")
        return f"{head}def {name} {ps} : List Call :=\n  {body}\n"

    def mentions(self, node, name):
        if isinstance(node, tuple):
            if len(node) == 3 and node[0] == "path" and node[2] == [name]:
                return True
            return any(self.mentions(x, name) for x in node)
        if isinstance(node, list):
            return any(self.mentions(x, name) for x in node)
        return False

    def tr_return(self, e, env, ctx, ind):
        if ctx["kind"] == "calls":
            v = e[2]
            ok = (v is not None and v[0] == "callexpr" and v[2][0] == "path" and v[2][2] == ["Ok"] and len(v[3]) == 1
                  and v[3][0][0] == "unit")
            if not ok or not env.get("%tail"):
                raise TrError(f"{self.where}: line {e[1]}: a target-call function may only return `Ok(())`, in statement position")
            return "([] : List Call)", "never"
        return super().tr_return(e, env, ctx, ind)

    def tr_stmts(self, stmts, i, tail, env, ctx, expected, final, ind):
        pad = " " * ind
        if i < len(stmts):
            s = stmts[i]
            rest = lambda env2, ind2=ind: self.tr_stmts(stmts, i + 1, tail, env2, ctx, expected, final, ind2)
            if s[0] == "letelse":
                _, line, pat, e, els = s
                stxt, stype = self.tr_expr(e, self.nt(env), ctx, None, ind + 2)
                binds = {}
                ptxt = self.tr_pat(pat, stype, binds, line)
                env2 = dict(env)
                env2.update(binds)
                env2["%frozen"] = env["%frozen"] - set(binds)

                def nofall(env3, ind3=0, line=line):
                    raise TrError(f"{self.where}: line {line}: the `else` block of a let-else must diverge (`return`)")
                etxt, _ = self.tr_stmts(els[2], 0, els[3], env, ctx, expected, nofall, ind + 4)
                if final is None:
                    # value-position block: the rest of the block is the value
                    r, rt = self.tr_stmts(stmts, i + 1, tail, env2, ctx, expected, None, ind + 4)
                else:
                    r, rt = rest(env2, ind + 4)
                return f"(match {stxt} with\n{pad}  | {ptxt} =>\n{pad}    {r}\n{pad}  | _ =>\n{pad}    {etxt})", rt
            if s[0] == "expr" and ctx["kind"] == "calls":
                e = s[2]
                line = e[1]
                tgt = ctx["target"]
                if e[0] == "try":
                    inner = e[2]
                    if (inner[0] == "mcall" and inner[2][0] == "path" and inner[2][2] == [tgt] and inner[4] is None
                            and inner[3] in TARGET_METHODS):
                        ptypes, fn = TARGET_METHODS[inner[3]]
                        if len(inner[5]) != len(ptypes):
                            raise TrError(f"{self.where}: line {line}: `{inner[3]}` takes {len(ptypes)} arguments")
                        out = []
                        for a, pt in zip(inner[5], ptypes):
                            if self.mentions(a, tgt):
                                raise TrError(f"{self.where}: line {line}: `{tgt}` inside an argument")
                            txt, t = self.tr_expr(a, self.nt(env), ctx, pt, ind + 2)
                            self.unify(t, pt, f"{self.where}: line {line}: argument of `{inner[3]}`")
                            out.append(self.atom(txt))
                        ctx["callsites"].add(id(e))
                        r, rt = rest(env, ind + 2)
                        return f"(({fn} {' '.join(out)}) ::\n{pad}  {r})", rt
                    raise TrError(f"{self.where}: line {line}: `?` on something that is not a known call of `{tgt}`")
                if e[0] == "path" and e[2] == [DOTTED_MARK]:
                    # the untranslated block: whatever the function does from here on
                    return DOTTED_MARK, "never"
                if e[0] in ("if", "match", "block", "return"):
                    if e[0] == "if" and self.mentions(e[2], tgt):
                        raise TrError(f"{self.where}: line {line}: `{tgt}` in a condition")
                    return super().tr_stmts(stmts, i, tail, env, ctx, expected, final, ind)
                raise TrError(f"{self.where}: line {line}: statement of kind `{e[0]}` in a target-call function (a call of "
                              f"`{tgt}` must be a statement `{tgt}.m(..)?;`)")
            if s[0] in ("let", "assign") and ctx["kind"] == "calls" and self.mentions(s, ctx["target"]):
                raise TrError(f"{self.where}: line {s[1]}: `{ctx['target']}` used in a `let` / assignment (a call of it must be a "
                              f"statement `{ctx['target']}.m(..)?;`)")
        return super().tr_stmts(stmts, i, tail, env, ctx, expected, final, ind)

    # ---- `&mut self` function whose body is `for x in &mut self.f { .. } tail`
    def translate_for_fn(self, f):
        where = f"{f.rel} fn {f.impl_type}::{f.name}"
        self.where = where
        st = f.impl_type
        if f.params:
            raise TrError(f"{where}: parameters besides `&mut self` not supported with a `for` loop")
        ret = self.norm_type(f.ret, st)
        toks, s, e = f.body
        stmts, tail = tr_rect.BodyParser(toks, s, e, where).parse_block_body()
        if len(stmts) != 1 or stmts[0][0] != "expr" or stmts[0][2][0] != "for" or tail is None:
            raise TrError(f"{where}: only `for .. in &mut self.field {{ .. }} value` is known as the body of a `&mut self` function with a loop")
        _, line, pat, it, body = stmts[0][2]
        if it[0] != "refmut":
            raise TrError(f"{where}: line {line}: the loop must run over `&mut self.field`")
        inner = it[2]
        if not (inner[0] == "field" and inner[2][0] == "path" and inner[2][2] == ["self"]):
            raise TrError(f"{where}: line {line}: the loop must run over `&mut self.field`")
        fld = inner[3]
        ft = self.field_type(st, fld, line)
        g = self.find_fn(ft, "Iterator", "next", where)
        gname = self.need(g)
        self.where, self.cur = where, f
        item = self.norm_type(g.ret, g.impl_type)
        if isinstance(item, str) or item[0] != "Option":
            raise TrError(f"{where}: `next` of {ft} does not return an Option")
        item = item[1][0]
        if pat[0] != "pbind":
            raise TrError(f"{where}: line {line}: loop pattern must be a name")
        env = {"%tail": True, "%frozen": frozenset(), "self": st, pat[2]: item}
        ctx = {"ret": ret, "self_type": st, "mut_self": True, "kind": "mut_val", "loopy": True, "in_loop": True}
        btxt, _ = self.tr_stmts(body[2], 0, body[3], env, ctx, None,
                                lambda env2, ind2=0: ("(LoopStep.continue_ self)", "never"), 8)
        ctx2 = dict(ctx, in_loop=False)
        env2 = {"%tail": False, "%frozen": frozenset(), "self": st}
        ttxt, tt = self.tr_expr(tail, env2, ctx2, ret, 6)
        self.unify(tt, ret, where + ": result")
        rl = f"({self.lean_type(ret)} × {st})"
        q = "StyledSrc" if g.rel in MY_RELS else "RectSrc"
        fuel_arg = "fuel " if (g.key() in self.rect_loopy or g.key() in self.loopy_fns) else ""
        nxt = (f"(match {q}.{gname} {fuel_arg}({st}_{fld} self) with\n"
               f"        | Option.none => Option.none\n"
               f"        | Option.some tmp' => Option.some (tmp'.1, {st}_set_{fld} self tmp'.2))") if fuel_arg else \
              (f"(let tmp' := {q}.{gname} ({st}_{fld} self);\n        Option.some (tmp'.1, {st}_set_{fld} self tmp'.2))")
        self.loopy_fns.add(f.key())
        name = self.lean_fn_name(f)
        head = (f"/-- `{f.rel}` line {f.line}: `impl {f.trait} for {st} :: {f.name}` (`&mut self`: returns (value, updated `self`)) "
                f"(a `for` loop over `&mut self.{fld}`: runs on `fuel`, `none` = not enough fuel) -/\n")
        return (f"{head}def {name} (fuel : Nat) (self : {st}) : (Option {rl}) :=\n"
                f"  (match for_mut_loop (σ := {st}) (ι := {self.lean_type(item)}) (ρ := {rl}) fuel\n"
                f"      (fun self =>\n        {nxt})\n"
                f"      (fun {self.lvar(pat[2])} self =>\n        {btxt}) self with\n"
                f"    | Option.none => Option.none\n"
                f"    | Option.some (LoopStep.return_ r') => Option.some r'\n"
                f"    | Option.some (LoopStep.continue_ self) =>\n      (Option.some ({ttxt}, self)))\n")

    # ---- expressions
    def tr_expr(self, e, env, ctx, expected, ind):
        k = e[0]
        if k == "refmut":
            raise TrError(f"{self.where}: line {e[1]}: `&mut` expression outside a `for` loop header")
        if k == "try":
            raise TrError(f"{self.where}: line {e[1]}: `?` is only known on a statement `target.m(..)?;`")
        if k == "path" and ctx.get("kind") == "calls" and e[2] == [ctx["target"]]:
            raise TrError(f"{self.where}: line {e[1]}: `{ctx['target']}` used as a value (only `{ctx['target']}.m(..)?;` statements are known)")
        if k == "callexpr" and e[2][0] == "path" and e[2][2] == ["Pixel"]:
            if len(e[3]) != 2:
                raise TrError(f"{self.where}: line {e[1]}: Pixel(point, color) expected")
            a, at = self.tr_expr(e[3][0], self.nt(env), ctx, "Point", ind)
            b, bt = self.tr_expr(e[3][1], self.nt(env), ctx, COLOR_PARAM, ind)
            self.unify(at, "Point", self.where)
            self.unify(bt, COLOR_PARAM, self.where)
            return f"(Pixel_mk {self.atom(a)} {self.atom(b)})", "Pixel"
        if k == "callexpr" and e[2][0] == "path" and len(e[2][2]) == 3 and e[2][2][0] == "Self":
            # `Self::Assoc::f(..)`: the impl's `type Assoc = T;`
            f = self.cur
            key = (f.impl_type, f.trait, e[2][2][1])
            if key not in self.prog.assoc:
                raise TrError(f"{self.where}: line {e[1]}: associated type Self::{e[2][2][1]} not declared in the impl")
            ty = drop_color_arg(self.prog.assoc[key])
            if not isinstance(ty, str):
                raise TrError(f"{self.where}: line {e[1]}: associated type {type_str(ty)} not supported")
            e2 = ("callexpr", e[1], ("path", e[2][1], [ty, e[2][2][2]]), e[3])
            return super().tr_expr(e2, env, ctx, expected, ind)
        return super().tr_expr(e, env, ctx, expected, ind)

    def tr_bin(self, e, env, ctx, expected, ind):
        _, line, op, l, r = e
        if op in ("==", "!="):
            a, at = self.tr_expr(l, env, ctx, None, ind)
            if isinstance(at, str) and at in self.prog.enums and at in MY_ENUMS:
                if "PartialEq" not in self.scan.derives.get(at, ""):
                    raise TrError(f"{self.where}: line {line}: `{op}` on enum {at}, which does not derive PartialEq")
                b, bt = self.tr_expr(r, env, ctx, at, ind)
                self.unify(bt, at, f"{self.where}: line {line}")
                return f"({'enum_eq' if op == '==' else 'enum_ne'} {self.atom(a)} {self.atom(b)})", "bool"
        return super().tr_bin(e, env, ctx, expected, ind)

    def tr_mcall(self, e, env, ctx, expected, ind):
        _, line, recv, name, turbofish, args = e
        W = f"{self.where}: line {line}"
        if name in ("is_none", "filter", "saturating_as"):
            rtxt, rt = self.tr_expr(recv, env, ctx, None, ind)
            if name == "saturating_as" and rt == "u32" and not args and turbofish is None and expected is None:
                # the target type is inferred by rustc from the use; the only conversion of the prelude is u32 -> i32, and
                # every use site unifies the type (a different inferred type is refused there)
                return f"(u32_saturating_as_i32 {self.atom(rtxt)})", "i32"
            if not isinstance(rt, str) and rt[0] == "Option" and turbofish is None:
                if name == "is_none" and not args:
                    return f"(option_is_none {self.atom(rtxt)})", "bool"
                if name == "filter":
                    if len(args) != 1 or args[0][0] != "closure" or len(args[0][2]) != 1:
                        raise TrError(f"{W}: filter(|x| ..) expected")
                    p = args[0][2][0]
                    env2 = dict(env)
                    if p[0] == "pbind":
                        env2[p[2]] = rt[1][0]
                        pn = self.lvar(p[2])
                    elif p[0] == "pwild":
                        pn = "_"
                    else:
                        raise TrError(f"{W}: closure parameter pattern not supported")
                    btxt, bt = self.tr_expr(args[0][3], env2, ctx, "bool", ind + 2)
                    self.unify(bt, "bool", W)
                    return f"(option_filter {self.atom(rtxt)} (fun {pn} => {btxt}))", rt
        return super().tr_mcall(e, env, ctx, expected, ind)


HEADER = """/-
  EG.Generated.StyledSrc — GENERATED by tools/tr_styled.py from /repo's current sources. Do not edit.

  One `def` per Rust function of src/primitives/primitive_style.rs and src/primitives/rectangle/styled.rs, mirroring the
  Rust text arm for arm. Every Rust primitive is a call of a function of the hand-written preludes
  EG/Model/RectSrcPrelude.lean / EG/Model/StyledSrcPrelude.lean; a call of a `Rectangle` / `Point` / `Size` function is a call of
  its regenerated definition in EG/Generated/RectSrc.lean. The theorems `<name>_src_eq_model` of
  EG/Props/C06/Generated.lean, C01/Generated.lean and C02/Generated.lean prove these definitions equal to the hand-written
  models EG/Model/Style.lean and EG/Model/StyledRect.lean.
-/
import EG.Generated.RectSrc
import EG.Model.StyledSrcPrelude
set_option linter.unusedVariables false
namespace EG.Generated.StyledSrc
open EG EG.RectSrcPrelude EG.StyledSrcPrelude
open EG.Generated.RectSrc (Points)

"""


def translate(repo):
    prog, scan = load(repo)
    # which functions of tr_rect's files exist in RectSrc.lean, under which names (parsed with tr_rect's own parser)
    rt = tr_rect.Translator(prog)
    for (it, trn, n) in tr_rect.ROOTS:
        rt.need(rt.find_fn(it, trn, n, "roots"))
    with styled_parser():
        tr = StyledTranslator(prog, scan, dict(rt.done), set(rt.loopy_fns))
        text = [HEADER]
        for en in MY_ENUMS:
            if en not in prog.enums:
                raise TrError(f"enum {en} not found")
            text.append(f"/-- `enum {en}` of src/primitives/primitive_style.rs -/\ninductive {en} where\n"
                        + "".join(f"  | {v}\n" for v in prog.enums[en]) + "  deriving DecidableEq, Repr\n\n")
        for sn in MY_STRUCTS:
            if sn not in prog.structs:
                raise TrError(f"struct {sn} not found")
            text.append(tr_rect.struct_decl(tr, sn))
        for (it, trn, n) in ROOTS:
            tr.need(tr.find_fn(it, trn, n, "roots"))
        text.append("\n".join(tr.out))
    if scan.dotted_blocks != 1:
        raise TrError(f"rectangle/styled.rs: {scan.dotted_blocks} blocks `if style.stroke_style == StrokeStyle::Dotted {{..}}` found, 1 expected")
    untranslated = {}
    for (it, trn, n), f in sorted(prog.fns.items(), key=lambda kv: (kv[0][0] or "", kv[0][1] or "", kv[0][2])):
        if f.rel in MY_RELS and (it, trn, n) not in tr.done:
            untranslated.setdefault(f"impl {trn + ' for ' if trn else ''}{it}", []).append(n)
    for rel, n in scan.free_fns:
        untranslated.setdefault(f"free functions of {rel}", []).append(n)
    untranslated["blocks replaced by the parameter `dotted`"] = ["draw_styled: if style.stroke_style == StrokeStyle::Dotted"]
    text.append("\n/-- functions of the two files that are NOT translated (and the one block that is not looked into) -/\n"
                "def untranslated : List (String × List String) := [\n"
                + ",\n".join(f'  ("{k}", [' + ", ".join(f'"{n}"' for n in v) + "])" for k, v in untranslated.items()) + "]\n")
    text.append("\n/-- target-call functions: (Lean name, number of `target.m(..)?;` statements in the text). Every call of the target is "
                "such a statement (anything else is refused by the translator). -/\ndef targetCallShapes : List (String × Nat) := [\n"
                + ",\n".join(f'  ("{a}", {b})' for a, b in tr.shapes) + "]\n")
    text.append("\n/-- what was translated (Lean name, Rust origin) -/\ndef translated : List (String × String) := [\n"
                + ",\n".join(f'  ("{a}", "{b}")' for a, b in tr.listing) + "]\n")
    text.append("\nend EG.Generated.StyledSrc\n")
    info = {"functions": len(tr.listing), "untranslated": untranslated, "names": [a for a, _ in tr.listing]}
    return "".join(text), info


def failed_file(reason):
    r = reason.replace("\\", "\\\\").replace('"', '\\"').replace("\n", " ")
    return ("/-\n  EG.Generated.StyledSrc — GENERATED by tools/tr_styled.py. THE TRANSLATION FAILED: the Rust source of `PrimitiveStyle` /\n"
            "  the styled rectangle contains a construct the translator does not know. No function is defined here, so the\n"
            "  `_src_eq_model` theorems of EG/Props/C06/Generated.lean (and C01 / C02 Generated.lean) do not build.\n-/\n"
            "namespace EG.Generated.StyledSrc\n\n"
            f"def translationFailed : String := \"{r}\"\n\nend EG.Generated.StyledSrc\n")


# ---------------------------------------------------------------------------------------------------------------
# self test
# ---------------------------------------------------------------------------------------------------------------

SELFTEST_HEAD = """
pub struct PrimitiveStyle<C> where C: PixelColor { pub fill_color: Option<C>, pub stroke_width: u32, }
"""
# (name, extra source, expected: substring of the generated text, or "!" + substring of the error)
SELFTEST_CASES = [
    ("is_none", "impl<C> PrimitiveStyle<C> where C: PixelColor { fn f(&self) -> bool { self.fill_color.is_none() } }",
     "(option_is_none (PrimitiveStyle_fill_color self))"),
    ("filter", "impl<C> PrimitiveStyle<C> where C: PixelColor { fn f(&self) -> Option<C> { self.fill_color.filter(|_| self.stroke_width > 0) } }",
     "(option_filter (PrimitiveStyle_fill_color self) (fun _ => (u32_gt (PrimitiveStyle_stroke_width self) (0 : Nat))))"),
    ("wrapping", "impl<C> PrimitiveStyle<C> where C: PixelColor { fn f(&self) -> u32 { self.stroke_width.wrapping_add(1) } }",
     "!method `wrapping_add` on u32 is not known"),
    ("other generic", "impl<T> PrimitiveStyle<T> where T: PixelColor { fn f(&self) -> u32 { 1 } }", "!generic parameters"),
    ("target call", "impl<C: PixelColor> PrimitiveStyle<C> { fn f<D>(&self, target: &mut D) -> Result<(), D::Error> where D: DrawTarget<Color = C> "
     "{ if let Some(c) = self.fill_color { target.fill_solid(&Rectangle::zero(), c)?; } Ok(()) } }",
     "((target_fill_solid RectSrc.zero c) ::"),
    ("target call without ?", "impl<C: PixelColor> PrimitiveStyle<C> { fn f<D>(&self, c: C, target: &mut D) -> Result<(), D::Error> where D: DrawTarget<Color = C> "
     "{ target.fill_solid(&Rectangle::zero(), c) } }", "!may only return `Ok(())`"),
    ("target call result dropped", "impl<C: PixelColor> PrimitiveStyle<C> { fn f<D>(&self, c: C, target: &mut D) -> Result<(), D::Error> where D: DrawTarget<Color = C> "
     "{ let _r = target.fill_solid(&Rectangle::zero(), c); Ok(()) } }", "!used in a `let`"),
    ("let else", "impl<C: PixelColor> PrimitiveStyle<C> { fn f(&self) -> u32 { let Some(_c) = self.fill_color else { return 0; }; self.stroke_width } }",
     "| Option.some _c =>"),
]


def selftest_one(extra, root):
    import tempfile
    with styled_parser():
        prog = tr_rect.Program()
        prog.structs.update(tr_rect.EXPECTED_STRUCTS)
        zero = tr_rect.Fn()
        scan = Scan()
        src = SELFTEST_HEAD + extra
        rel = FILES["style"]
        toks = tokenize(strip_comments(src, rel), rel)
        scan_file(toks, prog, rel, scan)
        # a stand-in for Rectangle::zero (tr_rect's file)
        ztoks = tokenize("impl Rectangle { fn zero() -> Self { Rectangle { top_left: Point { x: 0, y: 0 }, size: Size { width: 0, height: 0 } } } }", "core/src/primitives/rectangle/mod.rs")
        tr_rect.parse_items(Cursor(ztoks), prog, "core/src/primitives/rectangle/mod.rs")
        finish_fns(prog)
        rd = {("Rectangle", None, "zero"): "zero"}
        tr = StyledTranslator(prog, scan, rd, set())
        tr.need(tr.find_fn("PrimitiveStyle", None, root, "selftest"))
        return "\n".join(tr.out)


def selftest():
    problems = []
    for name, extra, want in SELFTEST_CASES:
        try:
            out = selftest_one(extra, "f")
            if want.startswith("!"):
                problems.append(f"{name}: accepted, expected an error with `{want[1:]}`")
            elif want not in out:
                problems.append(f"{name}: `{want}` not in the translation: {out!r}")
        except TrError as ex:
            if not want.startswith("!") or want[1:] not in str(ex):
                problems.append(f"{name}: error `{ex}`, expected {want!r}")
    return problems


def generate(repo):
    try:
        problems = selftest()
        if problems:
            raise TrError("translator self test failed: " + "; ".join(problems[:3]))
        text, info = translate(repo)
        info["selftest_cases"] = len(SELFTEST_CASES)
        return {"StyledSrc.lean": text}, info
    except TrError as ex:
        reason = str(ex)
    except RecursionError:
        reason = "recursion limit reached while parsing"
    except Exception as ex:
        reason = f"internal error {type(ex).__name__}: {ex}"
    return {"StyledSrc.lean": failed_file(reason)}, {"failed": reason}


if __name__ == "__main__":
    import json
    import sys
    repo = os.environ.get("EG_REPO", "/repo")
    if len(sys.argv) > 1 and sys.argv[1] == "--selftest":
        ps = selftest()
        print("\n".join(ps) if ps else f"selftest: {len(SELFTEST_CASES)} cases fine")
        sys.exit(1 if ps else 0)
    elif len(sys.argv) > 1 and sys.argv[1] == "--strict":
        t, i = translate(repo)
        print(t)
    else:
        files, info = generate(repo)
        print(files["StyledSrc.lean"])
        print(json.dumps(info), file=sys.stderr)
