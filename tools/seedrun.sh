#!/bin/sh
# seedrun.sh <patch.diff> <Cxx> [<Cxx> ...] — run checks against a seeded change WITHOUT touching /repo:
# uses a private copy of /verif (/tmp/vseed) whose harness depends on a private worktree of /repo
# (/tmp/vseed-repo) with the patch applied. For early feedback while /repo is in use by others;
# the recorded confirmation runs use /repo itself (git -C /repo apply ..; ./check ..; git checkout).
set -e
patch="$1"; shift
if [ ! -d /tmp/vseed-repo ]; then git -C /repo worktree add -q --detach /tmp/vseed-repo HEAD; fi
git -C /tmp/vseed-repo checkout -q --detach "$(git -C /repo rev-parse HEAD)"
git -C /tmp/vseed-repo checkout -q -- . && git -C /tmp/vseed-repo clean -fdq
mkdir -p /tmp/vseed
rsync -a --delete --exclude .git --exclude replays --exclude .work --exclude .locks /verif/ /tmp/vseed/
sed -i 's#path = "/repo#path = "/tmp/vseed-repo#g' /tmp/vseed/harness/Cargo.toml
if [ -n "$patch" ] && [ "$patch" != "-" ]; then git -C /tmp/vseed-repo apply "$patch"; fi
cd /tmp/vseed
rc=0
for p in "$@"; do
  EG_REPO=/tmp/vseed-repo ./check "$p" --tier quick || rc=1
done
git -C /tmp/vseed-repo checkout -q -- .
exit $rc
