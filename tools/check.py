#!/usr/bin/env python3
"""check.py — decide one property of /verif/properties.jsonl for /repo's current working tree.

  ./check Cxx [--tier quick|thorough] [--replay FILE]

Pipeline (DESIGN.md section 3):
  1 translate.py            regenerate lean/EG/Generated/*.lean from /repo's sources
  2 lake build              EG.Props.Cxx (proof obligations) + egdriver (model executable)
  3 axiom audit             `#print axioms` on every theorem of EG/Props/Cxx.lean
  4 cargo build + egv       real library, in-process, hooks on: ops.txt impl.txt oracle.txt dist.json
  5 egdriver < ops.txt      model.txt ; line diff against impl.txt
  6 classify                oracle failures vs known_findings.jsonl
  7 evidence/Cxx.json, KNOWN-FINDING / VIOLATION lines, exit code
"""
import fcntl
import json
import os
import re
import subprocess
import sys
import time

VERIF = os.path.dirname(os.path.dirname(os.path.abspath(__file__)))
LEAN = os.path.join(VERIF, "lean")
HARNESS = os.path.join(VERIF, "harness")
WORK = os.path.join(VERIF, ".work")
ALLOWED_AXIOMS = {"propext", "Classical.choice", "Quot.sound"}
FORBIDDEN = re.compile(r"\b(sorry|admit|native_decide|bv_decide|implemented_by|unsafe)\b|^axiom |maxHeartbeats 0")

# properties whose check needs tables regenerated from the Rust sources
TRANSLATED = {"C02", "C04", "C08", "C12", "C13", "C14", "C15", "C18", "C20"}
# properties additionally exercised with the `fixed_point` feature in the thorough tier
FIXED_POINT = {"C08", "C18", "C05"}
FIXED_POINT_EVERY_TIER = {"C18"}

# Guard bits: the model driver appends ` g=<chars>` to the result line of these streams, one character per decidable
# guard of the join theorems (1 holds, 0 fails, - the theorem's other hypotheses exclude the op, ? not evaluated), in
# this order (lean/EG/Driver/Thick.lean `polyGuardBits` / `triGuardBits`; the Bool functions are proved equivalent to
# the guards in lean/EG/Props/C01/GuardBits.lean and lean/EG/Props/C02/GuardBits.lean). The harness prints ` g=*`; the
# token is stripped from both sides before the lines are compared and the driver's bits are tallied into the evidence
# (coverage.guard_bits). A guard that fails is NOT a failure of the check: the guarded theorem does not apply to that
# op, which is then covered by correspondence + oracle only.
GUARD_BITS = {
    "thick.polyline": ["PolyRectsInRange (Props/C01/Polyline.lean)",
                       "PolyBBoxGuard (Props/C02/JoinsBBox.lean; n/a for width < 2)",
                       "chainOK conjunct of PolyBBoxGuard (n/a for width < 2)"],
    "thick.triangle": ["TriRectsInRange (Props/C01/Triangle.lean)",
                       "TriTopGuard (Props/C02/JoinsBBox.lean)",
                       "TriStrokeGuard (Props/C02/JoinsBBox.lean; n/a unless width >= 2 and alignment != Inside)",
                       "adjOK x3 conjuncts of TriStrokeGuard (n/a unless width >= 2 and alignment != Inside)",
                       "TriOutlineGuard (Props/C02/JoinsBBox.lean; n/a unless width >= 2, alignment = Inside and not collapsed)",
                       "TriStrokeColumnsGuard (Props/C02/JoinsBBoxAlign.lean: vertex x coordinates inside the columns of the stroke box; n/a unless width >= 2 and alignment != Inside)"],
}
GUARD_TOKEN = re.compile(r" g=(\S+)")


def source_classes(pid):
    """string literals `"Cxx:..."` of the harness sources whose prefix is this property, as (literal, regex):
    `{}` of a format template matches anything"""
    out = {}
    src = os.path.join(HARNESS, "src")
    for fn in sorted(os.listdir(src)):
        if not fn.endswith(".rs"):
            continue
        for m in re.finditer(r'"(' + pid + r':[^"\\]*)"', open(os.path.join(src, fn)).read()):
            lit = m.group(1)
            if " " in lit:
                continue
            out.setdefault(lit, (fn, re.compile("^" + ".*".join(re.escape(x) for x in re.split(r"\{[^}]*\}", lit)) + "$")))
    return out


class Lock:
    def __init__(self, name):
        os.makedirs(os.path.join(VERIF, ".locks"), exist_ok=True)
        self.path = os.path.join(VERIF, ".locks", name)

    def __enter__(self):
        self.f = open(self.path, "w")
        fcntl.flock(self.f, fcntl.LOCK_EX)

    def __exit__(self, *a):
        fcntl.flock(self.f, fcntl.LOCK_UN)
        self.f.close()


def run(cmd, cwd=None, env=None, timeout=None, stdin=None, stdout=None):
    e = dict(os.environ)
    e.update({"CARGO_NET_OFFLINE": "true"})
    if env:
        e.update(env)
    p = subprocess.run(cmd, cwd=cwd, env=e, stdin=stdin, stdout=stdout if stdout else subprocess.PIPE,
                       stderr=subprocess.STDOUT if not stdout else subprocess.PIPE, text=True, timeout=timeout)
    return p.returncode, (p.stdout if not stdout else p.stderr) or ""


def strip_comments(src, blank_strings=False):
    """remove Lean block and line comments (for the forbidden-token scan and theorem listing). String literals are
    recognised, so a `/-` or `--` inside a (generated) string does not start a comment; with `blank_strings` their
    contents are dropped too (the forbidden-token scan must not trip over a Rust path or function name that the
    translator copied into a string: audit 5, L5)."""
    out = []
    i, depth, n = 0, 0, len(src)
    while i < n:
        if depth == 0 and src[i] == '"':
            j = i + 1
            while j < n and src[j] != '"':
                j += 2 if src[j] == "\\" else 1
            j = min(j + 1, n)
            lit = src[i:j]
            out.append('""' + "\n" * lit.count("\n") if blank_strings else lit)
            i = j
        elif src.startswith("/-", i):
            depth += 1
            i += 2
        elif depth and src.startswith("-/", i):
            depth -= 1
            i += 2
        elif depth:
            if src[i] == "\n":
                out.append("\n")
            i += 1
        elif src.startswith("--", i):
            while i < n and src[i] != "\n":
                i += 1
        else:
            out.append(src[i])
            i += 1
    return "".join(out)


def list_theorems(path):
    """(fully qualified name, line) of every `theorem` in a Lean file, tracking namespaces."""
    res = []
    ns = []
    src = strip_comments(open(path).read())
    for ln, line in enumerate(src.split("\n"), 1):
        m = re.match(r"\s*namespace\s+(\S+)", line)
        if m:
            ns.append(m.group(1))
            continue
        m = re.match(r"\s*end\s+(\S+)", line)
        if m and ns and ns[-1] == m.group(1):
            ns.pop()
            continue
        m = re.match(r"\s*(?:@\[[^\]]*\]\s*)?(?:private\s+|protected\s+)?theorem\s+(\S+)", line)
        if m:
            res.append((".".join(ns + [m.group(1)]), ln))
    return res


def lean_imports_closure(module):
    """files of the EG library reachable from `module` (for the forbidden-token scan)"""
    seen, todo = set(), [module]
    while todo:
        m = todo.pop()
        if m in seen:
            continue
        p = os.path.join(LEAN, m.replace(".", "/") + ".lean")
        if not os.path.exists(p):
            continue
        seen.add(m)
        for line in open(p):
            mm = re.match(r"\s*(?:public\s+)?import\s+(EG\.\S+)", line)
            if mm:
                todo.append(mm.group(1))
    return sorted(seen)


def unproved_subclaims(path):
    out = []
    for line in open(path):
        m = re.match(r"\s*--\s*\[V\]\s*(.*)", line)
        if m:
            out.append(m.group(1).strip())
    return out


def main():
    t0 = time.time()
    args = sys.argv[1:]
    if not args:
        print(__doc__)
        return 2
    pid = args[0]
    tier = os.environ.get("VERIF_TIER", "quick")
    replay = None
    i = 1
    while i < len(args):
        if args[i] == "--tier":
            tier = args[i + 1]
            i += 2
        elif args[i] == "--replay":
            replay = args[i + 1]
            i += 2
        elif args[i] == "--seed":
            os.environ["VERIF_SEED"] = args[i + 1]
            i += 2
        else:
            i += 1
    if tier not in ("quick", "thorough"):
        tier = "quick"
    try:
        seed = int(os.environ.get("VERIF_SEED", "1"))
    except ValueError:
        seed = 1
    work = os.path.join(WORK, pid + ("-replay" if replay else ""))
    os.makedirs(work, exist_ok=True)
    os.makedirs(os.path.join(VERIF, "evidence"), exist_ok=True)
    os.makedirs(os.path.join(VERIF, "replays"), exist_ok=True)
    log = open(os.path.join(work, "check.log"), "w")

    def say(*a):
        print(*a, flush=True)
        print(*a, file=log, flush=True)

    broken_theorems = []      # names of theorems (or build steps) that no longer check
    tie_notes = []
    props_mod = f"EG.Props.{pid}"
    props_path = os.path.join(LEAN, "EG", "Props", f"{pid}.lean")

    # ---- 1 translate -------------------------------------------------------------------------
    translate_info = {}
    translate_failed = {}     # part -> (reason, generated files of its last good run or None)
    if True:
        tp = os.path.join(VERIF, "tools", "translate.py")
        if os.path.exists(tp):
            with Lock("lake.lock"):
                rc, out = run([sys.executable, tp], cwd=VERIF)
            log.write(out)
            if rc != 0:
                broken_theorems.append("translator: " + out.strip().splitlines()[-1] if out.strip() else "translator failed")
                say("translate.py failed (broken tie):", out.strip()[-400:])
            else:
                try:
                    translate_info = json.loads(out.strip().splitlines()[-1])
                except Exception:
                    translate_info = {}
                for part, why in (translate_info.get("failed") or {}).items():
                    translate_failed[part] = (why, (translate_info.get("failed_files") or {}).get(part))

    # ---- 2 lake build ------------------------------------------------------------------------
    props_files = [props_path] if os.path.exists(props_path) else []
    sub = os.path.join(LEAN, "EG", "Props", pid)
    if os.path.isdir(sub):
        props_files += sorted(os.path.join(sub, f) for f in os.listdir(sub) if f.endswith(".lean"))
    theorems = [t for pf in props_files for t in list_theorems(pf)]
    theorems_of = {os.path.relpath(pf, LEAN)[:-5].replace(os.sep, "."): list_theorems(pf) for pf in props_files}
    props_mods = [os.path.relpath(pf, LEAN)[:-5].replace(os.sep, ".") for pf in props_files] or [props_mod]
    # A translator part that could not parse the sources is a broken tie for THIS property only if the property's
    # theorems import one of the tables that part regenerates (they would be re-checked against the last good table,
    # not against the source as it is now).
    # Otherwise it is recorded in the evidence and nothing more: the correspondence streams of this property run
    # against the real code and show a stale table by themselves.
    if translate_failed:
        closure = {x for pm in props_mods for x in lean_imports_closure(pm)}
        gen_used = {m.split(".")[-1] + ".lean" for m in closure if m.startswith("EG.Generated.")}
        for part, (why, files) in sorted(translate_failed.items()):
            uses = files is None or bool(gen_used & set(files))
            if uses:
                broken_theorems.append(f"translator part {part}: {why}")
                say(f"translator part {part} failed (broken tie for {pid}):", why[-300:])
            else:
                tie_notes.append(f"translator part {part} could not parse the sources ({why[:200]}); no theorem of {pid} imports its tables, so this is not a broken obligation of {pid}")
                say(f"translator part {part} failed; not used by {pid}'s theorems (noted in the evidence)")
    lean_ok = True
    with Lock("lake.lock"):
        if tier == "thorough" and not replay:
            # rebuild this property's modules from clean
            for m in sorted({x for pm in props_mods for x in lean_imports_closure(pm)}):
                for ext in ("olean", "ilean", "olean.hash", "trace", "ilean.hash"):
                    p = os.path.join(LEAN, ".lake", "build", "lib", "lean", m.replace(".", "/") + "." + ext)
                    if os.path.exists(p):
                        os.remove(p)
        rc_d, out_d = run(["lake", "build", "egdriver"], cwd=LEAN)
        log.write(out_d)
        rc, out = run(["lake", "build"] + props_mods, cwd=LEAN)
        log.write(out)
    if rc_d != 0:
        say("egdriver does not build:", out_d[-800:])
        broken_theorems.append("egdriver build")
    if rc != 0:
        lean_ok = False
        # map error locations to the enclosing theorem
        failing = set()
        for m in re.finditer(r"error: (\S+?\.lean):(\d+):\d+", out):
            f, ln = m.group(1), int(m.group(2))
            fp = os.path.join(LEAN, f)
            if os.path.exists(fp):
                ths = list_theorems(fp)
                name = None
                for (n, l) in ths:
                    if l <= ln:
                        name = n
                failing.add(name or f"{f}:{ln}")
        if not failing:
            failing.add(f"lake build {props_mod}")
        broken_theorems.extend(sorted(failing))
        say(f"lake build {props_mod} FAILED; broken obligations: {sorted(failing)}")
        # which of the property's theorem files still build? Their theorems are audited as usual; the theorems of a
        # file that does not build (or imports one that does not) are broken obligations, the others are not.
        ok_mods = []
        with Lock("lake.lock"):
            for pm in props_mods:
                rc1, _o = run(["lake", "build", pm], cwd=LEAN)
                if rc1 == 0:
                    ok_mods.append(pm)
        unbuilt = [pm for pm in props_mods if pm not in ok_mods]
        for pm in unbuilt:
            names = [n for (n, _) in theorems_of.get(pm, [])]
            broken_theorems.append(f"{pm} does not build: {len(names)} theorem(s) not checked ({', '.join(x.split('.')[-1] for x in names[:6])}{', ...' if len(names) > 6 else ''})")

    # ---- 3 axiom audit + forbidden tokens ----------------------------------------------------
    axioms = {}
    discharged = 0
    forbidden_hits = []
    audit_mods = props_mods if lean_ok else ok_mods
    audit_theorems = theorems if lean_ok else [t for pm in ok_mods for t in theorems_of.get(pm, [])]
    if audit_mods and audit_theorems:
        os.makedirs(os.path.join(LEAN, "EG", "Audit"), exist_ok=True)
        audit = os.path.join(work, f"Audit{pid}.lean")
        with open(audit, "w") as f:
            for pm in audit_mods:
                f.write(f"import {pm}\n")
            for (n, _) in audit_theorems:
                f.write(f"#print axioms {n}\n")
        with Lock("lake.lock"):
            rc, out = run(["lake", "env", "lean", audit], cwd=LEAN)
        log.write(out)
        cur = None
        text = out.replace("\n  ", " ")
        for m in re.finditer(r"'([^']+)' (depends on axioms: \[([^\]]*)\]|does not depend on any axioms)", text):
            name = m.group(1)
            axs = [a.strip() for a in (m.group(3) or "").replace("\n", " ").split(",") if a.strip()]
            axioms[name] = axs
        for (n, _) in audit_theorems:
            if n not in axioms:
                broken_theorems.append(f"{n} (no axiom report)")
            elif set(axioms[n]) - ALLOWED_AXIOMS:
                broken_theorems.append(f"{n} (axioms {sorted(set(axioms[n]) - ALLOWED_AXIOMS)})")
            else:
                discharged += 1
        for m in sorted({x for pm in audit_mods for x in lean_imports_closure(pm)}):
            p = os.path.join(LEAN, m.replace(".", "/") + ".lean")
            for ln, line in enumerate(strip_comments(open(p).read(), blank_strings=True).split("\n"), 1):
                if FORBIDDEN.search(line):
                    forbidden_hits.append(f"{m}:{ln}: {line.strip()[:80]}")
        if forbidden_hits:
            broken_theorems.append("forbidden tokens: " + "; ".join(forbidden_hits[:5]))
        if tier == "thorough" and not replay:
            with Lock("lake.lock"):
                rc, out = run(["lake", "env", "leanchecker"] + audit_mods, cwd=LEAN)
            log.write(out)
            if rc != 0:
                broken_theorems.append(f"leanchecker {props_mod}: {out.strip()[-200:]}")
            else:
                tie_notes.append(f"leanchecker {props_mod}: ok")

    # ---- 4 harness + 5 driver/diff ---------------------------------------------------------------
    def harness_run(run_tier, outdir, features=None, ops_file=None, compare=True, timeout=7200):
        """build egv (optionally with cargo features, in its own target dir), run it, run the model
        driver on the same ops and diff. Returns a dict."""
        res = {"dist": {}, "failures": [], "disagreements": [], "n_ops": 0, "n_compared": 0, "errors": [], "outdir": outdir, "guard_bits": {}}
        os.makedirs(outdir, exist_ok=True)
        for fn in ("ops.txt", "impl.txt", "oracle.txt", "dist.json", "model.txt"):
            pth = os.path.join(outdir, fn)
            if os.path.exists(pth):
                os.remove(pth)
        tdir = os.path.join(HARNESS, "target" if not features else "target-" + features.replace(",", "-"))
        bcmd = ["cargo", "build", "--offline", "--target-dir", tdir]
        if features:
            bcmd += ["--features", features]
        with Lock("cargo.lock"):
            rc, out = run(bcmd, cwd=HARNESS)
        log.write(out)
        if rc != 0:
            say(f"harness{' [' + features + ']' if features else ''} does not build against the repository's working tree:\n" + out[-1500:])
            res["errors"].append("correspondence harness build" + (f" [{features}]" if features else "") + " (API used by the harness changed)")
            return res
        cmd = [os.path.join(tdir, "debug", "egv"), pid, run_tier, str(seed), outdir]
        if ops_file:
            cmd += ["--ops", ops_file]
        try:
            rc, out = run(cmd, cwd=HARNESS, timeout=timeout)
        except subprocess.TimeoutExpired:
            res["errors"].append(f"egv {run_tier} timed out after {timeout}s")
            return res
        log.write(out)
        if rc != 0:
            say("egv failed:", out[-800:])
            res["errors"].append(f"egv run rc={rc}")
            return res
        res["dist"] = json.load(open(os.path.join(outdir, "dist.json")))
        for line in open(os.path.join(outdir, "oracle.txt")):
            parts = line.rstrip("\n").split("\t")
            if len(parts) >= 3:
                res["failures"].append({"op_index": int(parts[0]), "class": parts[1], "detail": parts[2], "outdir": outdir, "features": features})
        ops = open(os.path.join(outdir, "ops.txt")).read().split("\n")
        res["n_ops"] = len([o for o in ops if o])
        drv = os.path.join(LEAN, ".lake", "build", "bin", "egdriver")
        if compare and os.path.exists(drv) and rc_d == 0:
            with open(os.path.join(outdir, "ops.txt")) as fi, open(os.path.join(outdir, "model.txt"), "w") as fo:
                pr = subprocess.run([drv], stdin=fi, stdout=fo, stderr=subprocess.PIPE, text=True)
            if pr.returncode != 0:
                res["errors"].append(f"egdriver run rc={pr.returncode}: {pr.stderr[-200:]}")
            impl = open(os.path.join(outdir, "impl.txt")).read().split("\n")
            model = open(os.path.join(outdir, "model.txt")).read().split("\n")
            for k in range(res["n_ops"]):
                mline = model[k] if k < len(model) else "<missing>"
                if mline == "skip":
                    continue
                res["n_compared"] += 1
                gm = GUARD_TOKEN.search(mline)
                if gm:
                    stream = ops[k].split(" ", 1)[0]
                    names = GUARD_BITS.get(stream, [])
                    gb = res["guard_bits"].setdefault(stream, {"ops": 0, "guards": {}})
                    gb["ops"] += 1
                    for i, ch in enumerate(gm.group(1)):
                        name = names[i] if i < len(names) else f"bit {i}"
                        g = gb["guards"].setdefault(name, {"holds": 0, "fails": 0, "not_applicable": 0, "not_evaluated": 0, "fails_samples": []})
                        key = {"1": "holds", "0": "fails", "-": "not_applicable"}.get(ch, "not_evaluated")
                        g[key] += 1
                        if ch == "0" and len(g["fails_samples"]) < 3:
                            g["fails_samples"].append(ops[k][:300])
                    mline = GUARD_TOKEN.sub("", mline)
                    impl[k] = GUARD_TOKEN.sub("", impl[k])
                if mline != impl[k]:
                    if len([d for d in res["disagreements"] if d]) < 50:
                        res["disagreements"].append({"op_index": k, "op": ops[k][:2000], "impl": impl[k][:2000], "model": mline[:2000], "outdir": outdir, "features": features})
                    else:
                        res["disagreements"].append(None)
        return res

    outdir = os.path.join(work, "run")
    ops_file = None
    replay_features = None
    replay_kind = None
    if replay:
        rj = json.load(open(replay))
        replay_kind = rj.get("kind")
        os.makedirs(outdir, exist_ok=True)
        ops_file = os.path.join(outdir, "replay.ops")
        with open(ops_file, "w") as f:
            for o in rj.get("ops", []):
                f.write(o + "\n")
        replay_features = rj.get("features")
    main_run = harness_run(tier, outdir, features=replay_features, ops_file=ops_file)
    broken_theorems.extend(main_run["errors"])
    dist = main_run["dist"]
    failures = list(main_run["failures"])
    disagreements = list(main_run["disagreements"])
    n_ops = main_run["n_ops"]
    n_compared = main_run["n_compared"]
    extra_runs = []
    extra_dists = []
    # thorough: the same check against the `fixed_point` feature build where the property mentions it
    # (C18 names the fixed_point build in its statement: there it runs in every tier, at the tier's own scope)
    if not replay and pid in FIXED_POINT and (tier == "thorough" or pid in FIXED_POINT_EVERY_TIER):
        fp_tier = tier if pid in FIXED_POINT_EVERY_TIER else "quick"
        fp = harness_run(fp_tier, os.path.join(work, "run-fixed_point"), features="fixed_point")
        extra_dists.append(fp.get("dist") or {})
        broken_theorems.extend(fp["errors"])
        failures.extend(fp["failures"])
        disagreements.extend(fp["disagreements"])
        extra_runs.append({"features": "fixed_point", "tier": fp_tier, "ops": fp["n_ops"], "compared": fp["n_compared"],
                           "oracle_failures": len(fp["failures"]), "disagreements": len(fp["disagreements"]),
                           "input_distribution": (fp.get("dist") or {}).get("counters", {})})
    # a broken proof obligation or correspondence with no failing input yet: widen the search for one
    if tier == "quick" and not replay and (broken_theorems or disagreements) and not failures:
        say("tie broken, no failing input in the quick scope: searching the thorough scope (10 min limit)")
        wide = harness_run("thorough", os.path.join(work, "run-search"), compare=False, timeout=600)
        failures.extend(wide["failures"])
        extra_runs.append({"search": "thorough scope", "ops": wide["n_ops"], "oracle_failures": len(wide["failures"]), "errors": wide["errors"]})
        if wide["errors"]:
            tie_notes.append("search for a failing input in the thorough scope did not run to its end: " + "; ".join(str(e)[:160] for e in wide["errors"][:3]))
        # the same search in the `fixed_point` build for the properties that reach code behind that feature (round-5 seed
        # C08-r5-1: a change that only exists in the fixed_point build was reported without a failing input)
        if pid in FIXED_POINT and not failures:
            say("no failing input in the default build: searching the fixed_point build (10 min limit)")
            wfp = harness_run("thorough" if pid not in FIXED_POINT_EVERY_TIER else "quick", os.path.join(work, "run-search-fixed_point"), features="fixed_point", compare=False, timeout=600)
            failures.extend(wfp["failures"])
            extra_runs.append({"search": "thorough scope, fixed_point build", "ops": wfp["n_ops"], "oracle_failures": len(wfp["failures"]), "errors": wfp["errors"]})

    # Oracle classes marked `tie-hypothesis` validate an ASSUMPTION of a theorem on the real code (e.g. the accuracy
    # of the f32 trigonometry that `sector_angular_partial` takes as a hypothesis), not a clause of the property text:
    # their failure breaks the tie (the property is no longer shown to hold) but is not a failing input of the property.
    ops_cache = {}

    def op_text(f):
        """op line of a failure / disagreement record (each run has its own ops.txt)"""
        d = f.get("outdir", outdir)
        if d not in ops_cache:
            try:
                ops_cache[d] = open(os.path.join(d, "ops.txt")).read().split("\n")
            except OSError:
                ops_cache[d] = []
        idx = f["op_index"]
        return ops_cache[d][idx] if idx < len(ops_cache[d]) else "?"

    hyp = [f for f in failures if "tie-hypothesis" in f["class"]]
    hyp_ops = []            # the ops on which a theorem hypothesis failed (smallest per class): part of the broken-tie replay
    hyp_features = None
    if hyp:
        failures = [f for f in failures if "tie-hypothesis" not in f["class"]]
        seen_h = {}
        for f in hyp:
            seen_h.setdefault(f["class"], []).append(f)
        for cls, fs in seen_h.items():
            fs.sort(key=lambda f: (len(op_text(f)), f["op_index"]))
            broken_theorems.append(f"{cls}: theorem hypothesis not validated on {len(fs)} op(s), e.g. `{op_text(fs[0])[:200]}`: {fs[0].get('detail', '')[:200]}")
            hyp_ops.append(op_text(fs[0]))
            hyp_features = hyp_features or fs[0].get("features")

    # ---- 6 classify --------------------------------------------------------------------------
    known = []
    kf = os.path.join(VERIF, "known_findings.jsonl")
    if os.path.exists(kf):
        for line in open(kf):
            line = line.strip()
            if line and not line.startswith("#") and not line.startswith("fixed:"):
                try:
                    k = json.loads(line)
                    if k.get("property") == pid:
                        known.append(k)
                except Exception:
                    pass
    known_seen = {}
    new_failures = []
    for f in failures:
        k = next((k for k in known if k["class"] == f["class"]), None)
        if k:
            known_seen.setdefault(k["class"], {"finding": k, "count": 0, "first": f})
            known_seen[k["class"]]["count"] += 1
        else:
            new_failures.append(f)
    # a disagreement on an op whose only oracle failures are known findings is the same finding
    # seen from the model's side (the model describes the property-conforming behaviour there)
    # Only for findings that say so ("model_conforms": true): by default the model follows the code, defect
    # included, so a disagreement on such an op is a real disagreement and is reported.
    known_ops = {(f.get("outdir"), f["op_index"]) for f in failures
                 if any(k["class"] == f["class"] and k.get("model_conforms") for k in known)}
    real_disagreements = [d for d in disagreements if d is None or (d.get("outdir"), d["op_index"]) not in known_ops]

    # ---- 7 verdict ---------------------------------------------------------------------------
    violations = 0
    lines = []
    for cls, ks in known_seen.items():
        lines.append(f"KNOWN-FINDING: property={pid} {ks['finding'].get('what', cls)} [{cls}; {ks['count']} case(s) this run, e.g. `{op_text(ks['first'])[:120]}`]")

    def write_replay(name, body):
        path = os.path.join(VERIF, "replays", name)
        with open(path, "w") as f:
            json.dump(body, f, indent=1)
        return path

    stamp = f"{pid}-{tier}-{seed}"
    if new_failures:
        # smallest op (shortest text, then earliest) per class
        by_class = {}
        for f in new_failures:
            by_class.setdefault(f["class"], []).append(f)
        for cls, fs in by_class.items():
            fs.sort(key=lambda f: (len(op_text(f)), f["op_index"]))
            f0 = fs[0]
            path = write_replay(f"{stamp}-{re.sub('[^A-Za-z0-9_.-]', '_', cls)[:60]}.json", {
                "property": pid, "kind": "oracle-failure", "class": cls, "ops": [op_text(f0)], "features": f0.get("features"),
                "detail": f0["detail"], "count": len(fs),
                "replay_cmd": f"./check {pid} --replay <this file>",
            })
            lines.append(f"VIOLATION property={pid} replay={path}")
            violations += 1
    if not new_failures and (broken_theorems or real_disagreements) and not replay:
        # the ops that show the break: correspondence disagreements and ops on which a theorem hypothesis
        # (`tie-hypothesis` class) was not validated; `--replay` of this file re-runs them
        tie_ops = [d["op"] for d in real_disagreements if d][:3] + hyp_ops[:5]
        body = {"property": pid, "kind": "broken-tie", "broken_obligations": broken_theorems,
                "correspondence_disagreements": [d for d in real_disagreements if d][:10],
                "ops": tie_ops,
                "features": hyp_features or next((d.get("features") for d in real_disagreements if d and d.get("features")), None),
                "note": "no input on which the property itself fails was found by the oracle over this run's scope; "
                        "the listed theorems / correspondence stream no longer check, so the property is no longer shown to hold",
                "replay_cmd": f"./check {pid} --replay <this file>"}
        path = write_replay(f"{stamp}-broken-tie.json", body)
        lines.append(f"VIOLATION property={pid} replay={path} no-failing-input-found")
        violations += 1
    elif not new_failures and (broken_theorems or real_disagreements) and replay and replay_kind == "broken-tie":
        # replay of a broken-tie file: the same ops, the same obligations; still broken = still a violation
        lines.append(f"VIOLATION property={pid} replay={replay} broken-tie-reproduced: "
                     + "; ".join(broken_theorems[:3]) + (f"; {len(real_disagreements)} correspondence disagreement(s)" if real_disagreements else ""))
        violations += 1
    elif new_failures and (broken_theorems or real_disagreements):
        tie_notes.append("also broken: " + "; ".join(broken_theorems[:5]) + f"; {len(real_disagreements)} correspondence disagreement(s)")

    # oracle classes: how often each class prefixed with this property (or unprefixed) was evaluated, and the
    # `Cxx:` class literals of the harness sources that no op of this run evaluated (a class whose stream is not generated
    # for its own property is dead; classes that exist only as the mechanism-suffixed name of a failure show up here too)
    classes_evaluated = {c: n for c, n in (dist.get("classes_evaluated") or {}).items()
                         if not re.match(r"C\d\d:", c) or c.startswith(pid + ":")}
    classes_dead = []
    if dist.get("classes_evaluated") is not None and not replay:
        ev_names = set(dist["classes_evaluated"].keys())
        for d in extra_dists:       # classes evaluated only by the `fixed_point` build count as evaluated
            ev_names |= set((d.get("classes_evaluated") or {}).keys())
        for lit, (fn, rx) in sorted(source_classes(pid).items()):
            if not any(rx.match(c) for c in ev_names):
                classes_dead.append(f"{lit} ({fn})")
    wall = time.time() - t0
    samples = dist.get("samples", [])[:6]
    for (n, _) in theorems[:6]:
        samples.append({"theorem": n, "axioms": axioms.get(n)})
    trusted = [
        "Lean 4.33.0 kernel" + (" (re-checked by leanchecker this run)" if tier == "thorough" else ""),
        "axioms used by this property's theorems: " + (", ".join(sorted({a for v in axioms.values() for a in v})) or "none"),
        "hand-written Lean model of the anchored code, tied to /repo by differential correspondence (egv vs egdriver) on this run's ops",
        "tools/translate.py for regenerated tables" if translate_info else "no regenerated tables used",
        "harness oracle = property text as Rust predicate (search engine for failing inputs, not a proof)",
    ]
    ev = {
        "property_id": pid,
        "tier": tier,
        "seed": seed,
        "level": "proof",
        "coverage": {
            "obligations": max(len(theorems), 1),
            "discharged": discharged if not broken_theorems else min(discharged, max(len(theorems) - 1, 0)),
            "checker_cmd": f"cd /verif/lean && lake build {props_mod} && lake env lean <generated #print axioms file>" + (f" && lake env leanchecker {props_mod}" if tier == "thorough" else ""),
            "trusted_base": trusted,
            "theorems": [{"name": n, "axioms": axioms.get(n)} for (n, _) in theorems],
            "unproved_subclaims": [u for pf in props_files for u in unproved_subclaims(pf)],
            "broken_obligations": broken_theorems,
            "evaluations": dist.get("evaluations", 0),
            "oracle_checks": dist.get("oracle_checks", 0),
            "distinct_nontrivial": dist.get("distinct_nontrivial", 0),
            "rule": dist.get("rule", ""),
            "samples": samples,
            "exhaustive": False,
            "ops_compared_with_model": n_compared,
            "ops_without_model": n_ops - n_compared,
            "correspondence_disagreements": len(real_disagreements),
            "oracle_failures_new": len(new_failures),
            "known_findings_seen": {c: k["count"] for c, k in known_seen.items()},
            "input_distribution": dist.get("counters", {}),
            "guard_bits": main_run.get("guard_bits", {}),
            "oracle_classes_evaluated": classes_evaluated,
            "oracle_classes_not_evaluated": classes_dead,
            "translator": translate_info,
            "notes": tie_notes,
            "extra_runs": extra_runs,
        },
        "assumptions": [
            "Rust generics are parametric in the draw target (a drawable cannot observe which target it draws to)",
            "std Iterator adaptors, integer semantics outside the stated ranges, micromath/fixed arithmetic, allocator, unwinding are modelled, not verified",
            "the correspondence sees only what this run's generated ops distinguish (see input_distribution)",
        ],
        "wall_s": round(wall, 2),
        "violations": violations,
    }
    if not replay:
        with open(os.path.join(VERIF, "evidence", f"{pid}.json"), "w") as f:
            json.dump(ev, f, indent=1)
    say(f"[{pid}/{tier}] theorems={len(theorems)} discharged={discharged} ops={n_ops} compared={n_compared} "
        f"disagreements={len(real_disagreements)} oracle_failures={len(failures)} (new {len(new_failures)}) wall={wall:.1f}s")
    if replay:
        for k in range(min(n_ops, 20)):
            say("  op   :", open(os.path.join(outdir, 'ops.txt')).read().split('\n')[k][:500])
            say("  impl :", open(os.path.join(outdir, 'impl.txt')).read().split('\n')[k][:500])
            mp = os.path.join(outdir, 'model.txt')
            if os.path.exists(mp):
                say("  model:", open(mp).read().split('\n')[k][:500])
        for f in failures[:20]:
            say("  oracle:", f["class"], f["detail"][:300])
    for l in lines:
        say(l)
    return 1 if violations else 0


if __name__ == "__main__":
    sys.exit(main())
