#!/usr/bin/env python3
"""tr_curve.py — SOURCE-TO-LEAN translator for the CIRCLE / ELLIPSE code that C05 (points() = contains()), C18 (curved
primitives) and C06 (stroke / fill areas are offsets of the shape) rest on.

It reads, from /repo's current working tree,
  src/primitives/circle/mod.rs       `Circle::{new, with_center, center, center_2x, threshold}`, `OffsetOutline::offset`,
                                     `ContainsPoint::contains`, `Dimensions::bounding_box`, `Transform::translate`,
                                     `PointsIter::points`, `diameter_to_threshold`
  src/primitives/circle/points.rs    `Points::new`, `Iterator::next`, `Scanlines::new`, `Iterator::next`
  src/primitives/ellipse/mod.rs      `Ellipse::{new, with_center, center, center_2x}`, `offset`, `contains`,
                                     `bounding_box`, `translate`, `points`, the free `center_2x`,
                                     `EllipseContains::{new, contains}` (the widened `u64` arithmetic)
  src/primitives/ellipse/points.rs   `Points::new`, `Iterator::next`, `Scanlines::new`
  src/primitives/common/scanline.rs  `Scanline::{new, new_empty, is_empty}`, `Iterator::next`
  src/geometry/mod.rs                `PointExt::length_squared`
  src/primitives/common/styled_scanline.rs   `StyledScanline::{new, stroke_left, stroke_right, fill}`
  src/primitives/{circle,ellipse}/styled.rs  `StyledScanlines::{new, next}` (the stroke / fill split of every row),
                                     `StyledDrawable::draw_styled`, `StyledDimensions::styled_bounding_box`
                                     (`StyledPixelsIterator` is NOT translated: pinned in `untranslated`)
  src/primitives/common/{scanline,styled_scanline}.rs  also `Scanline::draw`, `StyledScanline::draw_stroke(_and_fill)`
  src/primitives/primitive_style.rs  `PrimitiveStyle::{outside_stroke_width, inside_stroke_width, effective_stroke_color}`,
                                     `stroke_area` / `fill_area` instantiated at `Circle` and `Ellipse`
and writes EG/Generated/CurveSrc.lean: one Lean `def` per Rust function, mirroring the Rust text arm for arm, plus
one `structure` per Rust `struct` declared in these files (`Circle`, `Ellipse`, `EllipseContains`, `Scanline`,
`CircleScanlines`, `CirclePoints`, ...: the field lists are regenerated too).

REUSES tools/tr_rect.py (imported, never edited): tokenizer, `Cursor`, item scanner `parse_items`, the statement /
expression parser `BodyParser` (subclassed: `?`, struct patterns in `let`), the typed syntax-directed `Translator`
(subclassed) and its struct emitter. The `Rectangle` / `Point` / `Size` functions the bodies call (`with_center`,
`center`, `rows`, `columns`, `Point * i32`, `Point + Size`, `Size::saturating_sub` ...) are NOT translated again:
the generated text calls `RectSrc.<name>` of EG/Generated/RectSrc.lean (tr_rect's output; this part checks that
tr_rect does translate that function). `tr_rect.BodyParser` creates its sub-parsers through the module-level name,
so the subclass is bound to that name only while this part parses (`scoped_parser`, restored in `finally`).

Three files of the library each declare a `Points` and two a `Scanlines`: identifiers are made module-qualified while
a file is loaded (`Points` of circle/points.rs is `CirclePoints`, ...: table `RENAMES`), and the module prefix of
`circle::diameter_to_threshold` is dropped (table `MODULE_PREFIXES`).

What the translator does beyond re-spelling (each is the DEFINITION of the Rust construct, not knowledge about the code):
  * `let p = e?;`            is  `match e { Some(p) => <rest>, None => return None }`
  * `place = e?;`            is  `match e { Some(v) => { place = v; <rest> }, None => return None }`
  * `return r.or_else(|| b)` is  `match r { Some(v) => return Some(v), None => { b } }` with `b`'s value returned (a `?`
                             inside the closure ends the closure with `None`, which `or_else` returns)
  * `return m(..).f(..)` where `m` mutates its receiver (`self.x.next().map(..)`): the receiver call is evaluated
                             first and bound (`let recv = self.x.next(); return recv.map(..)`)
  * `let S { a, b } = v;`    is  `let a = v.a; let b = v.b;`
  * `let Self { a, b } = self;` in a `&mut self` function binds reborrows of the fields: `a` IS `self.a` in the rest of the
                             body (the names are replaced; a shadowing closure parameter / pattern is refused)
  * closures are only accepted as arguments of `Range::find` (on a `.clone()`), `Option::map`, `Option::or_else`;
    `Range::find_map` (on a place, which it advances); they may read but not assign captured variables.
GENERIC ITEMS. Items generic over the colour `C: PixelColor` are read with `C` := the opaque concrete type `Color`
(`degenericize`: the parameter list after `impl`, `<C>` after the generic type names, `where` clauses are dropped).
A function generic over the TARGET (`target: &mut D`, returning `Result<(), D::Error>`) is translated to THE LIST OF TARGET
CALLS IT MAKES on a target that never fails (`List EG.Call`, the hand models' vocabulary; error propagation is C04's
topic): `target.fill_solid(&r, c)` is the one call, `x.m(target, ..)` the callee's calls, `e?; rest` is `e ++ rest`,
`Ok(())` is `[]`, `for x in it { body }` concatenates `body` over the items collected from the regenerated
`Iterator::next` on explicit `fuel` (`for_calls`). A function generic over a shape `P: OffsetOutline` (`stroke_area`,
`fill_area`) is instantiated per call at the argument's type (`PrimitiveStyle_stroke_area_Circle`).
`w.saturating_as()` without a target type is read as `u32 -> i32` (the only cast known); a use at another type fails the
translator's own type check.
All semantics live in the hand-written prelude EG/Model/CurveSrcPrelude.lean (`pow`, `Range::find`, `Option::map`, the
`u64` arithmetic and casts) and in tr_rect's prelude. Anything unknown raises; `generate` then writes a
CurveSrc.lean that only contains `def translationFailed`, so exactly the theorems of Props/C05/Generated*.lean,
Props/C06/Generated*.lean and Props/C18/Generated*.lean stop building.
"""
import contextlib
import os
import re

import tr_rect
from tr_rect import RectTrError as TrError, Cursor, tokenize, strip_comments, parse_items, Program, type_str

RECT_RELS = set(tr_rect.FILES.values())

FILES = {
    "geom_ext": "src/geometry/mod.rs",
    "scanline": "src/primitives/common/scanline.rs",
    "circle": "src/primitives/circle/mod.rs",
    "circle_points": "src/primitives/circle/points.rs",
    "ellipse": "src/primitives/ellipse/mod.rs",
    "ellipse_points": "src/primitives/ellipse/points.rs",
    "styled_scanline": "src/primitives/common/styled_scanline.rs",
    "circle_styled": "src/primitives/circle/styled.rs",
    "ellipse_styled": "src/primitives/ellipse/styled.rs",
    "prim_style": "src/primitives/primitive_style.rs",
}
# files with items generic over the colour `C` (and functions generic over the target `D` / `T` or the shape `P`)
# the types of these files that are generic over the colour: `Name<C>` is written `Name`
COLOUR_GENERIC_TYPES = {"PrimitiveStyle", "PrimitiveStyleBuilder", "StyledPixelsIterator"}
DEGENERIC = {"prim_style", "circle_styled", "ellipse_styled", "scanline", "styled_scanline"}
# module-qualified names: identifier -> name used in the generated file, per source file
RENAMES = {
    "circle": {"Points": "CirclePoints"},
    "circle_points": {"Points": "CirclePoints", "Scanlines": "CircleScanlines"},
    "ellipse": {"Points": "EllipsePoints"},
    "ellipse_points": {"Points": "EllipsePoints", "Scanlines": "EllipseScanlines"},
    "circle_styled": {"Scanlines": "CircleScanlines", "StyledScanlines": "CircleStyledScanlines",
                      "StyledPixelsIterator": "CircleStyledPixelsIterator"},
    "ellipse_styled": {"Scanlines": "EllipseScanlines", "StyledScanlines": "EllipseStyledScanlines",
                       "StyledPixelsIterator": "EllipseStyledPixelsIterator"},
}
# `module::item` paths whose module prefix is dropped (the item is unique among the parsed files)
MODULE_PREFIXES = {"circle"}

GENERATED_STRUCTS = ["Scanline", "Circle", "CircleScanlines", "CirclePoints", "EllipseContains", "Ellipse",
                     "EllipseScanlines", "EllipsePoints", "StyledScanline", "CircleStyledScanlines", "EllipseStyledScanlines",
                     "PrimitiveStyle"]
GENERATED_ENUMS = ["StrokeAlignment", "StrokeStyle"]
INVENTORY_TYPES = ["Circle", "CirclePoints", "CircleScanlines", "CircleStyledScanlines", "Ellipse", "EllipseContains",
                   "EllipsePoints", "EllipseScanlines", "EllipseStyledScanlines", "Scanline", "StyledScanline", "PrimitiveStyle",
                   "CircleStyledPixelsIterator", "EllipseStyledPixelsIterator"]

ROOTS_CIRCLE = [
    (None, None, "diameter_to_threshold"),
    ("Point", "PointExt", "length_squared"),
    ("Scanline", None, "new"), ("Scanline", None, "new_empty"), ("Scanline", None, "is_empty"),
    ("Scanline", "Iterator", "next"),
    ("Circle", None, "new"), ("Circle", None, "with_center"), ("Circle", None, "center"), ("Circle", None, "center_2x"),
    ("Circle", None, "threshold"), ("Circle", "OffsetOutline", "offset"), ("Circle", "ContainsPoint", "contains"),
    ("Circle", "Dimensions", "bounding_box"), ("Circle", "Transform", "translate"),
    ("CircleScanlines", None, "new"), ("CircleScanlines", "Iterator", "next"),
    ("CirclePoints", None, "new"), ("CirclePoints", "Iterator", "next"), ("Circle", "PointsIter", "points"),
]
ROOTS_ELLIPSE = [
    (None, None, "center_2x"),
    ("EllipseContains", None, "new"), ("EllipseContains", None, "contains"),
    ("Ellipse", None, "new"), ("Ellipse", None, "with_center"), ("Ellipse", None, "center"), ("Ellipse", None, "center_2x"),
    ("Ellipse", "OffsetOutline", "offset"), ("Ellipse", "ContainsPoint", "contains"),
    ("Ellipse", "Dimensions", "bounding_box"), ("Ellipse", "Transform", "translate"),
    ("EllipseScanlines", None, "new"), ("EllipseScanlines", "Iterator", "next"),
    ("EllipsePoints", None, "new"), ("EllipsePoints", "Iterator", "next"), ("Ellipse", "PointsIter", "points"),
]
ROOTS_STYLED = [
    ("StyledScanline", None, "new"), ("StyledScanline", None, "stroke_left"), ("StyledScanline", None, "stroke_right"),
    ("StyledScanline", None, "fill"),
    ("CircleStyledScanlines", None, "new"), ("CircleStyledScanlines", "Iterator", "next"),
    ("EllipseStyledScanlines", None, "new"), ("EllipseStyledScanlines", "Iterator", "next"),
]
ROOTS_DRAW = [
    ("PrimitiveStyle", None, "outside_stroke_width"), ("PrimitiveStyle", None, "inside_stroke_width"),
    ("PrimitiveStyle", None, "effective_stroke_color"),
    ("Scanline", None, "draw"), ("StyledScanline", None, "draw_stroke"), ("StyledScanline", None, "draw_stroke_and_fill"),
    ("Circle", "StyledDrawable<PrimitiveStyle>", "draw_styled"), ("Ellipse", "StyledDrawable<PrimitiveStyle>", "draw_styled"),
    ("Circle", "StyledDimensions<PrimitiveStyle>", "styled_bounding_box"),
    ("Ellipse", "StyledDimensions<PrimitiveStyle>", "styled_bounding_box"),
]
ROOTS = ROOTS_CIRCLE + ROOTS_ELLIPSE + ROOTS_STYLED + ROOTS_DRAW

RANGE_I32 = ("Range", ("i32",))
LEAN_INT_TYPES = {"i32": "Int", "u32": "Nat", "u64": "Nat"}

# prelude names of this part (a local of the same name gets a trailing `_`)
CURVE_PRELUDE_NAMES = {"i32_pow", "u32_pow", "range_i32_clone", "range_i32_find", "range_i32_find_map", "option_map", "option_unwrap_or_else", "option_filter", "enum_eq", "iter_collect", "for_calls", "Target_fill_solid", "u32_as_u64", "i32_as_u64",
                       "u64_add", "u64_sub", "u64_mul", "u64_div", "u64_eq", "u64_ne", "u64_lt", "u64_le", "u64_gt", "u64_ge",
                       "CurveSrc"}


# ---------------------------------------------------------------------------------------------------------------
# parser extension
# ---------------------------------------------------------------------------------------------------------------

class CurveBodyParser(tr_rect.BodyParser):
    """adds `e?` (node `try`) and shorthand struct patterns `S { a, b }` (node `pstruct`)."""

    def parse_postfix_from(self, e, nostruct):
        """copy of tr_rect.BodyParser.parse_postfix_from with `?` accepted (node `try`)"""
        c = self.c
        while True:
            if c.at("?"):
                q = c.next()
                e = ("try", q.line, e)
                continue
            if c.at("["):
                self.fail("indexing not supported")
            if c.at("("):
                t = c.peek()
                e = ("callexpr", t.line, e, self.parse_args())
                continue
            if c.at("."):
                if c.peek(1) is not None and c.peek(1).kind == "int":
                    self.fail("tuple field access not supported")
                if c.at("await", 1):
                    self.fail("await")
                d = c.next()
                name = c.ident()
                turbofish = None
                if c.at("::"):
                    c.next()
                    c.expect("<")
                    turbofish = tr_rect.parse_type(c)
                    c.expect(">")
                if c.at("("):
                    e = ("mcall", d.line, e, name, turbofish, self.parse_args())
                else:
                    if turbofish is not None:
                        self.fail("turbofish without a call")
                    e = ("field", d.line, e, name)
                continue
            return e

    def parse_block_body(self):
        """copy of tr_rect.BodyParser.parse_block_body (it is one loop) with `for PAT in EXPR { .. }` added (node `for`)"""
        c = self.c
        stmts, tail = [], None
        while not c.eof():
            if tail is not None:
                self.fail("expression in the middle of a block without `;`")
            if c.at(";"):
                c.next()
                continue
            if c.at("let"):
                t = c.next()
                mut = False
                if c.at("mut"):
                    c.next()
                    mut = True
                pat = self.parse_pattern()
                ty = None
                if c.at(":"):
                    c.next()
                    ty = tr_rect.parse_type(c)
                c.expect("=")
                e = self.parse_expr()
                if c.at("else"):
                    self.fail("let-else not supported")
                c.expect(";")
                stmts.append(("let", t.line, pat, ty, e, mut))
                continue
            if c.at("for"):
                t = c.next()
                pat = self.parse_pattern()
                c.expect("in")
                it = self.parse_expr(nostruct=True)
                body = self.parse_braced_block()
                stmts.append(("expr", t.line, ("for", t.line, pat, it, body)))
                continue
            if c.peek().kind == "id" and c.peek().text in ("fn", "struct", "enum", "impl", "use", "const", "static", "loop", "unsafe"):
                self.fail(f"`{c.peek().text}` inside a body is not supported")
            e = self.parse_expr(stmt=True)
            if c.at("=") or (c.peek() and c.peek().kind == "p" and c.peek().text in ("+=", "-=", "*=", "/=", "%=")):
                op = c.next()
                rhs = self.parse_expr()
                c.expect(";")
                stmts.append(("assign", op.line, op.text, e, rhs))
            elif c.at(";"):
                c.next()
                stmts.append(("expr", e[1], e))
            elif c.eof():
                tail = e
            elif e[0] in ("if", "match", "block", "while"):
                stmts.append(("expr", e[1], e))     # block-like expression statement needs no `;`
            else:
                self.fail(f"expected `;` or end of block after expression, found `{c.peek().text}`")
        return stmts, tail

    def parse_closure(self):
        """tr_rect's parse_closure, with `_` accepted as a parameter"""
        c = self.c
        t = c.next()
        if t.text == "move":
            t = c.next()
        params = []
        if t.text == "|":
            while not c.at("|"):
                p = self.parse_pattern1()
                if p[0] == "pwild":
                    p = ("pbind", p[1], "_")
                if p[0] != "pbind":
                    self.fail("closure parameter must be a plain name")
                if c.at(":"):
                    self.fail("closure parameter type annotations not supported")
                params.append(p[2])
                if c.at(","):
                    c.next()
            c.next()
        body = self.parse_expr()
        return ("closure", t.line, params, body)

    def parse_pattern1(self):
        c = self.c
        t = c.peek()
        if t is not None and t.kind == "id" and t.text[0].isupper() and c.at("{", 1):
            name = c.ident()
            s, e = c.skip_balanced("{", "}")
            fc = Cursor(c.t, s, e)
            names = []
            while not fc.eof():
                n = fc.ident()
                if not (fc.eof() or fc.at(",")):
                    self.fail("only shorthand struct patterns `S { a, b }` are supported", t)
                names.append(n)
                if fc.at(","):
                    fc.next()
            return ("pstruct", t.line, name, names)
        return super().parse_pattern1()


@contextlib.contextmanager
def scoped_parser():
    saved = tr_rect.BodyParser
    tr_rect.BodyParser = CurveBodyParser
    try:
        yield
    finally:
        tr_rect.BodyParser = saved


# ---------------------------------------------------------------------------------------------------------------
# translator extension
# ---------------------------------------------------------------------------------------------------------------

class CurveTranslator(tr_rect.Translator):
    def __init__(self, prog, rect_names, rect_loopy):
        super().__init__(prog)
        self.rect_names = rect_names
        self.rect_loopy = rect_loopy
        self.extern_used = set()
        self.fresh = 0
        self.calls_loopy = set()
        self.mono_used = set()

    def translate_fn(self, f):
        saved, self.fresh = self.fresh, 0       # fresh names are numbered per function
        try:
            if getattr(f, "target_param", None):
                return self.translate_calls_fn(f)
            return super().translate_fn(f)
        finally:
            self.fresh = saved

    # ---- functions that draw on a generic target: translated to THE LIST OF TARGET CALLS THEY MAKE on a target that
    #      never fails (the hand models' `List EG.Call`; error propagation is C04's topic). In such a body every
    #      expression of type `Result<(), D::Error>` denotes a list of calls: `target.fill_solid(&r, c)` is the one call,
    #      `x.m(target, ..)` the calls of the callee, `e?; rest` is `e ++ rest`, `Ok(())` is `[]`,
    #      `for x in it { body }` is the concatenation of `body` over the items `it` yields (collected on explicit `fuel`).
    def translate_calls_fn(self, f):
        where = f"{f.rel} fn {(f.impl_type + '::') if f.impl_type else ''}{f.name}"
        self.where = where
        st = f.impl_type
        env = {"%tail": True, "%frozen": frozenset()}
        params = []
        if f.self_kind is not None:
            if f.self_kind == "refmut":
                raise TrError(f"{where}: `&mut self` in a function that draws on a target: not supported")
            env["self"] = st
            params.append(("self", st))
        for (n, t) in f.params:
            if n == f.target_param:
                continue
            t = self.norm_type(t, st)
            if not isinstance(t, str) and t[0] == "refmut":
                raise TrError(f"{where}: a second `&mut` parameter ({n}) is not supported")
            env[n] = t
            params.append((n, t))
        ret = self.norm_type(f.ret, st)
        if ret != ("Result", ("unit", "Error")):
            raise TrError(f"{where}: a function that draws on a target must return Result<(), _::Error>, not {type_str(ret)}")
        toks, s, e = f.body
        stmts, tail = tr_rect.BodyParser(toks, s, e, where).parse_block_body()
        loopy = tr_rect.contains_kind((stmts, tail), "for")
        ctx = {"ret": ret, "self_type": st, "mut_self": False, "kind": "calls", "loopy": loopy, "in_loop": False,
               "target": f.target_param}
        if loopy:
            self.calls_loopy.add(f.key())
        body = self.calls_block(stmts, 0, tail, env, ctx, None, 2)
        name = self.lean_fn_name(f)
        ps = " ".join(f"({self.lvar(n)} : {self.lean_type(t)})" for (n, t) in params)
        if loopy:
            ps = "(fuel : Nat)" + (" " if ps else "") + ps
        head = (f"/-- `{f.rel}` line {f.line}: `{'impl ' + f.trait + ' for ' + st + ' :: ' if f.trait else (st + '::' if st else '')}{f.name}`"
                f" (draws on `{f.target_param}`: the list of target calls it makes on a target that never fails"
                + ("; `for` loops collect their iterator on `fuel`" if loopy else "") + ") -/\n")
        return f"{head}def {name}{' ' if ps else ''}{ps} : List EG.Call :=\n  {body}\n"

    def calls_block(self, stmts, i, tail, env, ctx, final, ind):
        """Lean text (a `List EG.Call`) of the statements from `i` on; `final`: what follows the block (None: nothing)"""
        pad = " " * ind
        if i == len(stmts):
            if tail is None or tail[0] == "unit":
                return final(env, ind) if final is not None else "[]"
            if final is not None or tail[0] in ("for", "match", "if"):
                return self.calls_block([("expr", tail[1], tail)], 0, None, env, ctx, final, ind)
            return self.calls_expr(tail, env, ctx, ind)
        s = stmts[i]
        line = s[1]
        W = f"{self.where}: line {line}"
        rest = lambda env2, ind2=ind: self.calls_block(stmts, i + 1, tail, env2, ctx, final, ind2)
        has_rest = i + 1 < len(stmts) or tail is not None or final is not None
        cont = rest if has_rest else None       # what follows a block-like statement (None: it is the block's value)
        after = (lambda env2, ind2=ind: rest(env2, ind2)) if has_rest else (lambda env2, ind2=ind: "[]")
        if s[0] == "let":
            _, _, pat, ty, e, mut = s
            if pat[0] != "pbind" or mut:
                raise TrError(f"{W}: only `let name = ..` is supported in a function that draws")
            want = self.norm_type(ty, ctx["self_type"]) if ty is not None else None
            txt, t = self.tr_expr(e, self.nt(env), ctx, want, ind + 2)
            if t == "int?":
                raise TrError(f"{W}: cannot tell the type of the integer literal bound to `{pat[2]}`")
            t = self.unify(t, want, W)
            env2 = dict(env)
            env2[pat[2]] = t
            return f"let {self.lvar(pat[2])} := {txt};\n{pad}{rest(env2)}"
        if s[0] != "expr":
            raise TrError(f"{W}: statement kind `{s[0]}` is not supported in a function that draws")
        e = s[2]
        if e[0] == "return":
            if has_rest and (i + 1 < len(stmts) or tail is not None):
                raise TrError(f"{W}: code after `return`")
            if e[2] is None:
                raise TrError(f"{W}: bare `return` in a function returning a Result")
            return self.calls_expr(e[2], env, ctx, ind)
        if e[0] == "try":
            a = self.calls_expr(e[2], env, ctx, ind + 2)
            return f"({a}) ++\n{pad}({rest(env, ind + 2)})" if has_rest else a
        if e[0] == "if":
            _, _, cond, then, els = e
            cnd, ctyp = self.tr_expr(cond, self.nt(env), ctx, "bool", ind + 2)
            self.unify(ctyp, "bool", W)
            a = self.calls_block(then[2], 0, then[3], env, ctx, cont, ind + 2)
            b = after(env, ind + 2) if els is None else self.calls_block(els[2], 0, els[3], env, ctx, cont, ind + 2)
            return f"if {cnd} then\n{pad}  {a}\n{pad}else\n{pad}  {b}"
        if e[0] == "match":
            _, _, scrut, arms = e
            stxt, stype = self.tr_expr(scrut, self.nt(env), ctx, None, ind + 2)
            out = [f"(match {stxt} with"]
            for (pat, body) in arms:
                if pat[0] == "por":
                    raise TrError(f"{W}: or-patterns are not supported in a function that draws")
                binds = {}
                ptxt = self.tr_pat(pat, stype, binds, line)
                env2 = dict(env)
                env2.update(binds)
                if body[0] == "block":
                    btxt = self.calls_block(body[2], 0, body[3], env2, ctx, cont, ind + 4)
                elif body[0] == "unit":
                    btxt = after(env2, ind + 4)
                elif cont is None:
                    btxt = self.calls_expr(body, env2, ctx, ind + 4)
                else:
                    btxt = self.calls_block([("expr", body[1], body)], 0, None, env2, ctx, cont, ind + 4)
                out.append(f"{pad}  | {ptxt} =>\n{pad}    {btxt}")
            return "\n".join(out) + ")"
        if e[0] == "for":
            _, _, pat, it, body = e
            if pat[0] != "pbind":
                raise TrError(f"{W}: `for` over a pattern is not supported")
            if tr_rect.contains_kind(body, "return"):
                raise TrError(f"{W}: `return` inside a `for` body is not supported")
            itxt, itype = self.tr_expr(it, self.nt(env), ctx, None, ind + 2)
            if not (isinstance(itype, str) and itype in self.prog.structs):
                raise TrError(f"{W}: `for` over {type_str(itype)}: only iterators declared in the parsed files are known")
            g = self.find_fn(itype, "Iterator", "next", W)
            where = self.where
            gname = self.need(g)
            self.where = where
            gret = self.norm_type(g.ret, g.impl_type)
            if g.self_kind != "refmut" or g.params or isinstance(gret, str) or gret[0] != "Option" or g.key() in self.loopy_fns:
                raise TrError(f"{W}: `Iterator::next` of {itype} has an unexpected signature")
            env2 = dict(env)
            env2[pat[2]] = gret[1][0]
            btxt = self.calls_block(body[2], 0, body[3], env2, ctx, None, ind + 4)
            loop = f"(for_calls CurveSrc.{gname} (fun {self.lvar(pat[2])} =>\n{pad}    {btxt}) fuel {self.atom(itxt)})"
            return f"{loop} ++\n{pad}({rest(env, ind + 2)})" if has_rest else loop
        raise TrError(f"{W}: expression statement of kind `{e[0]}` is not supported in a function that draws (a call on the "
                      f"target must be followed by `?` or be the value of the block)")

    def calls_expr(self, e, env, ctx, ind):
        """an expression of type Result<(), _::Error> inside a function that draws: the calls it makes"""
        line = e[1]
        W = f"{self.where}: line {line}"
        while e[0] == "paren":
            e = e[2]
        if e[0] == "callexpr" and e[2][0] == "path" and e[2][2] == ["Ok"] and len(e[3]) == 1 and e[3][0][0] == "unit":
            return "[]"
        if e[0] == "mcall":
            _, _, recv, name, turbofish, args = e
            if turbofish is not None:
                raise TrError(f"{W}: turbofish on `{name}`")
            tgt = ctx["target"]
            is_tgt = lambda x: x[0] == "path" and x[2] == [tgt]
            if is_tgt(recv):
                if name != "fill_solid" or len(args) != 2:
                    raise TrError(f"{W}: `{tgt}.{name}(..)`: only `fill_solid(&area, color)` is known")
                a, at = self.tr_expr(args[0], self.nt(env), ctx, "Rectangle", ind)
                self.unify(at, "Rectangle", W)
                c, ct = self.tr_expr(args[1], self.nt(env), ctx, "Color", ind)
                self.unify(ct, "Color", W)
                return f"(Target_fill_solid {self.atom(a)} {self.atom(c)})"
            rtxt, rt = self.tr_expr(recv, self.nt(env), ctx, None, ind)
            if not (isinstance(rt, str) and rt in self.prog.structs):
                raise TrError(f"{W}: `{name}` on {type_str(rt)} in a position that must draw")
            g = self.find_method(rt, name, W)
            tp = getattr(g, "target_param", None)
            if tp is None:
                raise TrError(f"{W}: `{name}` does not draw on a target")
            where = self.where
            gname = self.need(g)
            self.where = where
            gparams = [(n, t) for (n, t) in g.params]
            if len(args) != len(gparams):
                raise TrError(f"{W}: {name} takes {len(gparams)} argument(s)")
            out = []
            for a, (pn, pt) in zip(args, gparams):
                if pn == tp:
                    if not is_tgt(a):
                        raise TrError(f"{W}: the target argument of `{name}` must be `{tgt}`")
                    continue
                pt = self.norm_type(pt, g.impl_type)
                txt, t = self.tr_expr(a, self.nt(env), ctx, pt, ind + 2)
                self.unify(t, pt, f"{W}: argument `{pn}` of {name}")
                out.append(self.atom(txt))
            fuel = " fuel" if g.key() in self.calls_loopy else ""
            if fuel and not ctx["loopy"]:
                raise TrError(f"{W}: call of `{name}`, which loops, from a function without a loop: not supported")
            return f"(CurveSrc.{gname}{fuel} {self.atom(rtxt)}{''.join(' ' + x for x in out)})"
        raise TrError(f"{W}: this expression must be a call that draws on the target (or `Ok(())`)")

    def monomorphize(self, g, arg_type, W):
        """`fn f<P: OffsetOutline>(&self, primitive: &P) -> P` instantiated at `P := arg_type`"""
        import copy
        if not (isinstance(arg_type, str) and arg_type in self.prog.structs):
            raise TrError(f"{W}: `{g.name}` instantiated at {type_str(arg_type)}")
        key = (g.impl_type, g.trait, f"{g.name}_{arg_type}")
        if key in self.prog.fns:
            return self.prog.fns[key]
        g2 = copy.copy(g)
        g2.name = f"{g.name}_{arg_type}"
        sub = lambda t: arg_type if t == "P" else t
        g2.params = [(n, sub(t)) for (n, t) in g.params]
        g2.ret = sub(g.ret)
        g2.unsupported = None
        g2.shape_generic = False
        self.prog.fns[key] = g2
        self.mono_used.add(g.key())
        return g2

    # ---- names
    def is_extern(self, f):
        return f.rel in RECT_RELS

    def lean_fn_name(self, f):
        if self.is_extern(f):
            return super().lean_fn_name(f)
        if f.impl_type is None:
            return f.name
        if f.trait is None:
            return f"{f.impl_type}_{f.name}"
        m = re.fullmatch(r"(\w+)(?:<(\w+)>)?", f.trait)
        if not m:
            raise TrError(f"trait name `{f.trait}` not understood")
        if m.group(1) in tr_rect.OP_TRAIT_NAMES:
            return super().lean_fn_name(f)
        return f"{f.impl_type}_{m.group(1)}_{f.name}"

    def lvar(self, name):
        if name in CURVE_PRELUDE_NAMES or name in GENERATED_STRUCTS:
            return name + "_"
        return super().lvar(name)

    def lean_type(self, t, self_type=None):
        if t == "Self":
            t = self_type
        if isinstance(t, str):
            if t in LEAN_INT_TYPES:
                return LEAN_INT_TYPES[t]
            if t == "Color":
                return "EG.Color"
            if t in GENERATED_STRUCTS and t in self.prog.structs:
                return t
            if t in self.prog.structs and t not in tr_rect.EXPECTED_STRUCTS:
                raise TrError(f"struct {t} is neither generated by this part nor one of the prelude's")
        return super().lean_type(t, self_type)

    def need(self, f):
        if self.is_extern(f):
            name = super().lean_fn_name(f)
            if name not in self.rect_names:
                raise TrError(f"{self.where}: `{name}` ({f.rel}) is not among the functions tools/tr_rect.py translates")
            if name in self.rect_loopy:
                raise TrError(f"{self.where}: `{name}` contains a loop: not supported here")
            self.extern_used.add(name)
            return name
        return super().need(f)

    def call_user(self, g, self_arg, args, env, ctx, line, ind):
        txt, t = super().call_user(g, self_arg, args, env, ctx, line, ind)
        if not self.is_extern(g):
            txt = self.requalify(txt)
        return txt, t

    @staticmethod
    def requalify(txt):
        if txt.startswith("(RectSrc."):
            return "(CurveSrc." + txt[len("(RectSrc."):]
        if txt.startswith("RectSrc."):
            return "CurveSrc." + txt[len("RectSrc."):]
        raise TrError(f"internal: call text `{txt[:40]}` has an unexpected shape")

    def mut_call(self, e, env, ctx, line, ind):
        if e[0] == "mcall" and e[3] == "find_map":
            return self.mut_find_map(e, env, ctx, line, ind)
        mc = super().mut_call(e, env, ctx, line, ind)
        if mc is None:
            return None
        root, fields, rtype, call, vt = mc
        if call.startswith("(RectSrc."):
            # a `&mut self` method of a user struct: ours unless its file is one of tr_rect's
            t = rtype
            for fl in fields:
                t = self.field_type(t, fl, line)
            g = self.find_method(t, e[3], f"{self.where}: line {line}")
            if not self.is_extern(g):
                call = self.requalify(call)
        return root, fields, rtype, call, vt

    def mut_find_map(self, e, env, ctx, line, ind):
        """`PLACE.find_map(|y| ..)` on a `Range<i32>` place: advances the range (value, updated range)"""
        W = f"{self.where}: line {line}"
        r = e[2]
        flds = []
        while r[0] == "field":
            flds.append(r[3])
            r = r[2]
        if r[0] != "path" or len(r[2]) != 1 or r[2][0] not in env or r[2][0].startswith("%"):
            raise TrError(f"{W}: `find_map` advances its receiver, which must be a place `var.field..`")
        root, fields = r[2][0], list(reversed(flds))
        rtype = env[root]
        t = rtype
        for fl in fields:
            t = self.field_type(t, fl, line)
        if t != RANGE_I32 or e[4] is not None or len(e[5]) != 1:
            raise TrError(f"{W}: `find_map(|y| ..)` is only known on Range<i32>")
        recv = self.place_read(root, fields, rtype)
        ftxt, ft = self.closure_body(e[5][0], ["i32"], env, ctx, None, ind, W)
        if isinstance(ft, str) or ft[0] != "Option":
            raise TrError(f"{W}: the closure of find_map must return an Option")
        return root, fields, rtype, f"(range_i32_find_map {recv} {ftxt})", ft

    # ---- statements: the desugarings listed in the module docstring, then tr_rect's translation
    def var(self, stem):
        self.fresh += 1
        return f"{stem}'{self.fresh}"

    @staticmethod
    def chain_head_path(e):
        """the mcall nodes along the receiver chain of `e`, outermost first"""
        out = []
        while True:
            if e[0] == "mcall":
                out.append(e)
                e = e[2]
            elif e[0] in ("field", "paren", "try"):
                e = e[2]
            else:
                return out

    @staticmethod
    def replace_node(e, old, new):
        if e is old:
            return new
        if e[0] == "mcall":
            return (e[0], e[1], CurveTranslator.replace_node(e[2], old, new)) + tuple(e[3:])
        if e[0] in ("field", "paren", "try"):
            return (e[0], e[1], CurveTranslator.replace_node(e[2], old, new)) + tuple(e[3:])
        return e

    def desugar(self, s, env, ctx, ind):
        """None, or the list of statements that statement `s` stands for"""
        kind, line = s[0], s[1]
        none_ret = ("return", line, ("path", line, ["None"]))

        def need_option():
            r = ctx["ret"]
            if isinstance(r, str) or r[0] != "Option":
                raise TrError(f"{self.where}: line {line}: `?` in a function that does not return an Option")
            if not env.get("%tail"):
                raise TrError(f"{self.where}: line {line}: `?` inside an expression whose value is used: not supported")

        if kind == "let":
            _, _, pat, ty, e, mut = s
            if e[0] == "try":
                need_option()
                if ty is not None:
                    raise TrError(f"{self.where}: line {line}: type annotation on `let .. = e?` not supported")
                return [("expr", line, ("match", line, e[2], [(("pctor", line, ["Some"], [pat]), ("unit", line)),
                                                              (("pctor", line, ["None"], []), none_ret)]))]
            if pat[0] == "pstruct":
                _, _, sname, names = pat
                if e[0] != "path" or len(e[2]) != 1 or e[2][0] not in env or e[2][0] == "self":
                    raise TrError(f"{self.where}: line {line}: `let {sname} {{ .. }} = <expr>`: only a local variable (by value) "
                                  f"may be destructured")
                vt = env[e[2][0]]
                st = ctx["self_type"] if sname == "Self" else sname
                if vt != st:
                    raise TrError(f"{self.where}: line {line}: pattern `{sname} {{..}}` against type {type_str(vt)}")
                decl = [n for n, _ in self.prog.structs[st]]
                if sorted(decl) != sorted(names):
                    raise TrError(f"{self.where}: line {line}: pattern `{sname} {{..}}` must name every field exactly once")
                return [("let", line, ("pbind", line, n), None, ("field", line, e, n), False) for n in names]
            return None
        if kind == "assign":
            _, _, op, lhs, rhs = s
            if rhs[0] == "try":
                need_option()
                if op != "=":
                    raise TrError(f"{self.where}: line {line}: `{op}` with `?` not supported")
                v = self.var("opt")
                body = ("block", line, [("assign", line, "=", lhs, ("path", line, [v]))], None)
                return [("expr", line, ("match", line, rhs[2], [(("pctor", line, ["Some"], [("pbind", line, v)]), body),
                                                                (("pctor", line, ["None"], []), none_ret)]))]
            return None
        if kind == "expr" and s[2][0] == "return" and s[2][2] is not None:
            e = s[2][2]
            while e[0] == "paren":
                e = e[2]
            if e[0] == "mcall" and e[3] == "or_else":
                _, l2, recv, _, turbofish, args = e
                if turbofish is not None or len(args) != 1 or args[0][0] != "closure" or args[0][2]:
                    raise TrError(f"{self.where}: line {l2}: or_else(|| ..) expected")
                need_option()
                v = self.var("some")
                cb = args[0][3]
                if cb[0] == "block":
                    if cb[3] is None:
                        raise TrError(f"{self.where}: line {l2}: the closure of or_else has no value")
                    none_body = ("block", cb[1], list(cb[2]) + [("expr", cb[3][1], ("return", cb[3][1], cb[3]))], None)
                else:
                    none_body = ("return", cb[1], cb)
                some_ret = ("return", l2, ("callexpr", l2, ("path", l2, ["Some"]), [("path", l2, [v])]))
                return [("expr", line, ("match", line, recv, [(("pctor", l2, ["Some"], [("pbind", l2, v)]), some_ret),
                                                              (("pctor", l2, ["None"], []), none_body)]))]
            chain = self.chain_head_path(e)
            for node in reversed(chain):       # innermost receiver first: it is evaluated first
                if self.mut_call(node, env, ctx, line, ind) is not None:
                    v = self.var("recv")
                    return [("let", line, ("pbind", line, v), None, node, False),
                            ("expr", line, ("return", line, self.replace_node(e, node, ("path", line, [v]))))]
            return None
        return None

    def subst_names(self, node, names, line):
        """`name` -> `self.name` for the names bound by `let Self { .. } = self;` (they are reborrows of the fields)"""
        if isinstance(node, list):
            return [self.subst_names(x, names, line) for x in node]
        if not isinstance(node, tuple):
            return node
        if len(node) == 3 and node[0] == "path" and isinstance(node[2], list) and len(node[2]) == 1 and node[2][0] in names:
            return ("field", node[1], ("path", node[1], ["self"]), node[2][0])
        if node and node[0] == "closure" and any(p in names for p in node[2]):
            raise TrError(f"{self.where}: line {line}: a closure parameter shadows a name bound by `let Self {{..}} = self`")
        if node and node[0] == "pbind" and node[2] in names:
            raise TrError(f"{self.where}: line {line}: a pattern shadows a name bound by `let Self {{..}} = self`")
        return tuple(self.subst_names(x, names, line) for x in node)

    def tr_stmts(self, stmts, i, tail, env, ctx, expected, final, ind):
        if i < len(stmts) and stmts[i][0] == "let" and stmts[i][2][0] == "pstruct" and stmts[i][4][0] == "path" \
                and stmts[i][4][2] == ["self"]:
            _, line, pat, ty, _, _ = stmts[i]
            st = ctx["self_type"]
            if pat[2] not in ("Self", st) or "self" not in env or ty is not None:
                raise TrError(f"{self.where}: line {line}: `let {pat[2]} {{..}} = self` not understood")
            decl = [n for n, _ in self.prog.structs[st]]
            if sorted(decl) != sorted(pat[3]):
                raise TrError(f"{self.where}: line {line}: pattern `{pat[2]} {{..}}` must name every field exactly once")
            if any(n in env for n in pat[3]):
                raise TrError(f"{self.where}: line {line}: a field name of `{st}` is also a local variable")
            names = set(pat[3])
            stmts = list(stmts[:i]) + self.subst_names(list(stmts[i + 1:]), names, line)
            tail = self.subst_names(tail, names, line) if tail is not None else None
            return self.tr_stmts(stmts, i, tail, env, ctx, expected, final, ind)
        if i < len(stmts):
            new = self.desugar(stmts[i], env, ctx, ind)
            if new is not None:
                if stmts[i][0] == "expr" and (i + 1 < len(stmts) or tail is not None):
                    raise TrError(f"{self.where}: line {stmts[i][1]}: code after `return`")
                stmts = list(stmts[:i]) + new + list(stmts[i + 1:])
        return super().tr_stmts(stmts, i, tail, env, ctx, expected, final, ind)

    # ---- expressions
    def closure_body(self, cl, ptypes, env, ctx, expected, ind, W):
        if cl[0] != "closure" or len(cl[2]) != len(ptypes):
            raise TrError(f"{W}: a closure with {len(ptypes)} parameter(s) expected")
        env2 = dict(self.nt(env))
        for p, t in zip(cl[2], ptypes):
            env2[p] = t
        env2 = self.freeze(env2)
        btxt, bt = self.tr_expr(cl[3], env2, ctx, expected, ind + 2)
        if bt == "int?":
            raise TrError(f"{W}: cannot tell the type of the closure's value")
        params = " ".join(self.lvar(p) for p in cl[2]) if cl[2] else "(_ : Unit)"
        return f"(fun {params} => {btxt})", bt

    def tr_expr(self, e, env, ctx, expected, ind):
        k, line = e[0], e[1]
        W = f"{self.where}: line {line}"
        if k == "try":
            raise TrError(f"{W}: `?` is only supported in `let p = e?;` and `place = e?;`")
        if k == "int" and (e[3] == "u64" or (e[3] is None and expected == "u64")):
            return f"({e[2]} : Nat)", "u64"
        if k == "cast" and e[3] == "u64":
            txt, t = self.tr_expr(e[2], self.nt(env), ctx, None, ind)
            if t in ("u32", "i32"):
                return f"({t}_as_u64 {self.atom(txt)})", "u64"
            if t == "u64":
                return txt, t
            raise TrError(f"{W}: cast from {type_str(t)} to u64 not supported")
        return super().tr_expr(e, env, ctx, expected, ind)

    def tr_bin(self, e, env, ctx, expected, ind):
        _, line, op, l, r = e
        W = f"{self.where}: line {line}"
        if op in ("==", "!="):
            a0, at0 = self.tr_expr(l, env, ctx, None, ind)
            if isinstance(at0, str) and at0 in self.prog.enums:
                b0, bt0 = self.tr_expr(r, env, ctx, at0, ind)
                self.unify(bt0, at0, W)
                txt = f"(enum_eq {self.atom(a0)} {self.atom(b0)})"
                return (txt if op == "==" else f"(bool_not {txt})"), "bool"
        if op in tr_rect.BIN_ARITH or op in tr_rect.BIN_CMP:
            a, at = self.tr_expr(l, env, ctx, "u64" if expected == "u64" else None, ind)
            if at == "u64":
                b, bt = self.tr_expr(r, env, ctx, "u64", ind)
                if bt != "u64":
                    raise TrError(f"{W}: `{op}` between u64 and {type_str(bt)} not supported")
                if op in tr_rect.BIN_CMP:
                    return f"(u64_{tr_rect.BIN_CMP[op]} {self.atom(a)} {self.atom(b)})", "bool"
                return f"(u64_{tr_rect.BIN_ARITH[op]} {self.atom(a)} {self.atom(b)})", "u64"
        return super().tr_bin(e, env, ctx, expected, ind)

    def tr_mcall(self, e, env, ctx, expected, ind):
        _, line, recv, name, turbofish, args = e
        W = f"{self.where}: line {line}"
        if name == "saturating_as" and turbofish is None and expected is None:
            # `let offset = w.saturating_as();`: the target type is inferred by rustc from the later use; only u32 -> i32
            # is known, so that is assumed, and any use at another type fails the translator's own type check
            return super().tr_mcall(e, env, ctx, "i32", ind)
        if name not in ("pow", "clone", "find", "map", "or_else", "unwrap_or_else", "filter") and turbofish is None and len(args) == 1:
            rtxt0, rt0 = self.tr_expr(recv, self.nt(env), ctx, None, ind)
            if isinstance(rt0, str) and rt0 in self.prog.structs:
                g = self.prog.fns.get((rt0, None, name))
                if g is not None and getattr(g, "shape_generic", False):
                    atxt, at = self.tr_expr(args[0], self.nt(env), ctx, None, ind)
                    g2 = self.monomorphize(g, at, W)
                    return self.call_user(g2, rtxt0, args, env, ctx, line, ind)
        if name in ("pow", "clone", "find", "map", "or_else", "unwrap_or_else", "filter") and turbofish is None:
            rtxt, rt = self.tr_expr(recv, self.nt(env), ctx, None, ind)
            if name == "pow" and rt in ("i32", "u32"):
                if len(args) != 1:
                    raise TrError(f"{W}: pow takes one argument")
                atxt, at = self.tr_expr(args[0], self.nt(env), ctx, "u32", ind)
                self.unify(at, "u32", f"{W}: exponent of pow")
                return f"({rt}_pow {self.atom(rtxt)} {self.atom(atxt)})", rt
            if name == "clone" and rt == RANGE_I32 and not args:
                return f"(range_i32_clone {self.atom(rtxt)})", rt
            if name == "find" and rt == RANGE_I32:
                r0 = recv
                while r0[0] == "paren":
                    r0 = r0[2]
                if not (r0[0] == "mcall" and r0[3] == "clone"):
                    raise TrError(f"{W}: `find` advances its receiver; only `<range>.clone().find(..)` (a temporary) is supported")
                if len(args) != 1:
                    raise TrError(f"{W}: find takes one closure")
                ftxt, ft = self.closure_body(args[0], ["i32"], env, ctx, "bool", ind, W)
                self.unify(ft, "bool", f"{W}: predicate of find")
                return f"(range_i32_find {self.atom(rtxt)} {ftxt})", ("Option", ("i32",))
            if name == "map" and not isinstance(rt, str) and rt[0] == "Option":
                if len(args) != 1:
                    raise TrError(f"{W}: map takes one closure")
                inner = expected[1][0] if (expected is not None and not isinstance(expected, str) and expected[0] == "Option") else None
                ftxt, ft = self.closure_body(args[0], [rt[1][0]], env, ctx, inner, ind, W)
                return f"(option_map {self.atom(rtxt)} {ftxt})", ("Option", (ft,))
            if name == "filter" and not isinstance(rt, str) and rt[0] == "Option":
                if len(args) != 1:
                    raise TrError(f"{W}: filter takes one closure")
                ftxt, ft = self.closure_body(args[0], [rt[1][0]], env, ctx, "bool", ind, W)
                self.unify(ft, "bool", f"{W}: predicate of filter")
                return f"(option_filter {self.atom(rtxt)} {ftxt})", rt
            if name == "unwrap_or_else" and not isinstance(rt, str) and rt[0] == "Option":
                if len(args) != 1:
                    raise TrError(f"{W}: unwrap_or_else takes one closure")
                ftxt, ft = self.closure_body(args[0], [], env, ctx, rt[1][0], ind, W)
                self.unify(ft, rt[1][0], f"{W}: value of the closure of unwrap_or_else")
                return f"(option_unwrap_or_else {self.atom(rtxt)} {ftxt})", rt[1][0]
            if name == "or_else":
                raise TrError(f"{W}: `or_else` is only supported as the value a function returns")
        return super().tr_mcall(e, env, ctx, expected, ind)


# ---------------------------------------------------------------------------------------------------------------
# driver
# ---------------------------------------------------------------------------------------------------------------

HEADER = """/-
  EG.Generated.CurveSrc — GENERATED by tools/tr_curve.py from /repo's current sources. Do not edit.

  One `def` per Rust function of src/primitives/{circle,ellipse}/{mod,points,styled}.rs,
  src/primitives/common/{scanline,styled_scanline}.rs, src/primitives/primitive_style.rs and `PointExt::length_squared`,
  mirroring the Rust text arm for arm, and one `structure` / `inductive` per Rust `struct` / `enum` of these files. A function
  that draws on a generic target is the list of target calls it makes on a target that never fails (`List EG.Call`). Rust primitives are functions of the hand-written preludes
  EG/Model/RectSrcPrelude.lean and EG/Model/CurveSrcPrelude.lean; `Rectangle` / `Point` / `Size` functions are the
  regenerated `RectSrc.*` of EG/Generated/RectSrc.lean. The theorems `<name>_src_eq_model` of
  EG/Props/C05/Generated*.lean, EG/Props/C06/Generated*.lean and EG/Props/C18/Generated*.lean prove these definitions equal
  to the hand-written models EG/Model/{Circle,Ellipse,EllipseContains,Scanline,StyledScanline,PrimStyle}.lean, for all inputs.
-/
import EG.Generated.RectSrc
import EG.Model.CurveSrcPrelude
set_option linter.unusedVariables false
namespace EG.Generated.CurveSrc
open EG EG.RectSrcPrelude EG.CurveSrcPrelude

"""


def degenericize(toks, rel):
    """items generic over the colour type `C: PixelColor`: `C` becomes the concrete opaque type `Color` (the model's
    `EG.Color`): the parameter list after `impl`, every `<C>` and every `where` clause are dropped, the identifier `C`
    is replaced. Function-level parameters (`<D>`, `<T: DrawTarget>`, `<P: OffsetOutline>`) stay and are dealt with by
    `classify_generic_fns`."""
    out = []
    i, n = 0, len(toks)
    while i < n:
        t = toks[i]
        if t.kind == "id" and t.text == "impl" and i + 1 < n and toks[i + 1].text == "<":
            depth, j = 0, i + 1
            while True:
                if toks[j].text == "<":
                    depth += 1
                elif toks[j].text == ">":
                    depth -= 1
                    if depth == 0:
                        break
                j += 1
            names = [x.text for x in toks[i + 2:j] if x.kind == "id"]
            if not names or names[0] != "C":
                raise TrError(f"{rel}:{t.line}: generic impl over `{' '.join(x.text for x in toks[i + 1:j + 1])}`: only `C[: PixelColor]` is known")
            out.append(t)
            i = j + 1
            continue
        if t.text == "<" and i + 2 < n and toks[i + 1].text == "C" and toks[i + 2].text == ">" and i > 0 \
                and toks[i - 1].text in COLOUR_GENERIC_TYPES:
            i += 3
            continue
        if t.kind == "id" and t.text == "where":
            while i < n and toks[i].text not in ("{", ";"):
                i += 1
            continue
        if t.kind == "id" and t.text == "C":
            t = tr_rect.Tok(t.kind, "Color", t.line, t.rel)
        out.append(t)
        i += 1
    return out


def classify_generic_fns(prog):
    """functions generic over the target (`target: &mut D`) become CALL-LIST functions (see `translate_calls_fn`);
    functions generic over a shape `P: OffsetOutline` are instantiated per call (`monomorphize`)."""
    for f in prog.fns.values():
        if f.rel in RECT_RELS or getattr(f, "unsupported", None) != "generic function":
            continue
        targets = [n for (n, t) in f.params if not isinstance(t, str) and t[0] == "refmut" and t[1] in ("D", "T")]
        if len(targets) == 1:
            f.target_param = targets[0]
            f.unsupported = None
        elif any(t == "P" for (_, t) in f.params):
            f.shape_generic = True


def load_file(prog, key, rel, repo):
    p = os.path.join(repo, rel)
    if not os.path.exists(p):
        raise TrError(f"{rel}: file not found")
    toks = tokenize(strip_comments(open(p).read(), rel), rel)
    ren = RENAMES.get(key, {})
    if key in DEGENERIC:
        toks = degenericize(toks, rel)
    out = []
    i = 0
    while i < len(toks):
        t = toks[i]
        if t.kind == "id" and t.text in MODULE_PREFIXES and i + 2 < len(toks) and toks[i + 1].text == "::" \
                and toks[i + 2].kind == "id" and toks[i + 2].text[0].islower() and (i == 0 or toks[i - 1].text != "::"):
            i += 2          # `circle::diameter_to_threshold` -> `diameter_to_threshold`
            continue
        if t.kind == "id" and t.text in ren:
            t = tr_rect.Tok(t.kind, ren[t.text], t.line, t.rel)
        out.append(t)
        i += 1
    parse_items(Cursor(out), prog, rel)


def load_program(repo):
    prog = Program()
    for key, rel in tr_rect.FILES.items():
        load_file(prog, key + "%rect", rel, repo)
    for key, rel in FILES.items():
        load_file(prog, key, rel, repo)
    classify_generic_fns(prog)
    for f in prog.fns.values():
        if getattr(f, "unsupported", None):
            continue
        try:
            f.ret = tr_rect.subst_assoc(f.ret, f, prog)
            f.params = [(n, tr_rect.subst_assoc(t, f, prog)) for (n, t) in f.params]
        except TrError as ex:
            f.unsupported = str(ex)
    return prog


def translate(repo, roots=None):
    _, rinfo = tr_rect.translate(repo)          # raises when tr_rect itself refuses its sources
    rect_names = set(rinfo["names"])
    with scoped_parser():
        prog = load_program(repo)
        for name, fields in tr_rect.EXPECTED_STRUCTS.items():
            if prog.structs.get(name) != fields:
                raise TrError(f"struct {name}: fields {prog.structs.get(name)} differ from the prelude's {fields}")
        tr = CurveTranslator(prog, rect_names, {"Iterator_next"})
        tr.where = "roots"
        text = [HEADER]
        for en in GENERATED_ENUMS:
            if en not in prog.enums:
                raise TrError(f"enum {en} not found")
            text.append(f"/-- `enum {en}` (declared from the Rust declaration) -/\ninductive {en} where\n"
                        + "".join(f"  | {v}\n" for v in prog.enums[en]) + "  deriving DecidableEq, Repr\n\n")
        for sn in GENERATED_STRUCTS:
            if sn not in prog.structs:
                raise TrError(f"struct {sn} not found")
            text.append(tr_rect.struct_decl(tr, sn))
        for (it, trn, n) in (roots or ROOTS):
            tr.need(tr.find_fn(it, trn, n, "roots"))
    text.append("\n".join(tr.out))
    untranslated = {}
    for (it, trn, n), f in sorted(prog.fns.items(), key=lambda kv: (kv[0][0] or "", kv[0][1] or "", kv[0][2])):
        if it in INVENTORY_TYPES and (it, trn, n) not in tr.done and (it, trn, n) not in tr.mono_used:
            untranslated.setdefault(f"impl {trn + ' for ' if trn else ''}{it}", []).append(n)
    text.append("\n/-- functions of the impls of " + " / ".join(INVENTORY_TYPES) + " (in the parsed files) that are NOT translated -/\n"
                "def untranslated : List (String × List String) := [\n"
                + ",\n".join(f'  ("{k}", [' + ", ".join(f'"{n}"' for n in v) + "])" for k, v in untranslated.items()) + "]\n")
    text.append("\n/-- what was translated (Lean name, Rust origin) -/\ndef translated : List (String × String) := [\n"
                + ",\n".join(f'  ("{a}", "{b}")' for a, b in tr.listing) + "]\n")
    text.append("\n/-- regenerated `Rectangle` / `Point` / `Size` functions (EG/Generated/RectSrc.lean) the text above calls -/\n"
                "def rectFunctionsUsed : List String := [" + ", ".join(f'"{n}"' for n in sorted(tr.extern_used)) + "]\n")
    text.append("\nend EG.Generated.CurveSrc\n")
    info = {"functions": len(tr.listing), "untranslated": untranslated, "names": [a for a, _ in tr.listing],
            "rect_functions_used": sorted(tr.extern_used)}
    return "".join(text), info


def failed_file(reason):
    r = reason.replace("\\", "\\\\").replace('"', '\\"').replace("\n", " ")
    return ("/-\n  EG.Generated.CurveSrc — GENERATED by tools/tr_curve.py. THE TRANSLATION FAILED: the Rust source of the circle /\n"
            "  ellipse primitives (or of what they call) contains a construct the translator does not know. No function is\n"
            "  defined here, so the `_src_eq_model` theorems of EG/Props/C05/Generated*.lean, EG/Props/C06/Generated*.lean and\n"
            "  EG/Props/C18/Generated*.lean do not build.\n-/\n"
            "namespace EG.Generated.CurveSrc\n\n"
            f"def translationFailed : String := \"{r}\"\n\nend EG.Generated.CurveSrc\n")


# ---------------------------------------------------------------------------------------------------------------
# self test: snippets that must be refused / must translate to a known text
# ---------------------------------------------------------------------------------------------------------------

SELFTEST_SRC = """
pub struct Point { pub x: i32, pub y: i32 }
pub struct Size { pub width: u32, pub height: u32 }
pub struct Rectangle { pub top_left: Point, pub size: Size }
pub struct It { r: Range<i32>, k: i32 }
impl It {
"""
# (name, signature tail, body, expected error fragment or None, expected Lean fragment or None)
SELFTEST_CASES = [
    ("ok_try_let", "(&mut self) -> Option<i32>", "let y = self.r.next()?; Some(y + self.k)", None,
     "| Option.none =>\n      (Option.none, self)"),
    ("ok_try_assign", "(&mut self) -> Option<i32>", "self.k = self.r.next()?; Some(self.k)", None, "let self := (It_set_k self opt'"),
    ("ok_or_else", "(&mut self) -> Option<i32>", "self.r.next().or_else(|| { self.k = self.r.next()?; Some(self.k) })", None,
     "| Option.some some'"),
    ("ok_hoist", "(&mut self) -> Option<i32>", "self.r.next().map(|x| x + self.k)", None, "(option_map recv'"),
    ("ok_find", "(&self, a: i32) -> Option<i32>", "self.r.clone().find(|x| *x > a)", None, "(range_i32_find (range_i32_clone (It_r self)) (fun x => (i32_gt x a)))"),
    ("ok_pow", "(&self, a: i32) -> i32", "a.pow(2)", None, "(i32_pow a (2 : Nat))"),
    ("ok_u64", "(&self, a: u32, b: i32) -> bool", "let t = a as u64 * b as u64; t < a as u64", None, "(u64_mul (u32_as_u64 a) (i32_as_u64 b))"),
    ("ok_find_map", "(&mut self) -> Option<i32>", "let Self { r, k } = self; r.find_map(|y| if y > *k { Some(y) } else { None })", None,
     "(range_i32_find_map (It_r self) (fun y => (if (i32_gt y (It_k self)) then"),
    ("bad_destructure_shadow", "(&mut self) -> Option<i32>", "let Self { r, k } = self; r.find_map(|k| Some(k))", "shadows a name", None),
    ("ok_unwrap_or_else", "(&self, o: Option<i32>) -> i32", "o.unwrap_or_else(|| self.k + 1)", None,
     "(option_unwrap_or_else o (fun (_ : Unit) => (i32_add (It_k self) (1 : Int))))"),
    ("ok_draw", "<T: DrawTarget>(&self, target: &mut T, color: T::Color) -> Result<(), T::Error>",
     "if self.k > 0 { return Ok(()); } let w = self.k as u32; target.fill_solid(&Rectangle { top_left: Point { x: self.k, y: 0 }, size: Size { width: w, height: 1 } }, color)",
     None, "if (i32_gt (It_k self) (0 : Int)) then\n    []\n  else\n    let w := (i32_as_u32 (It_k self));\n    (Target_fill_solid (Rectangle_mk"),
    ("ok_draw_seq", "<T: DrawTarget>(&self, target: &mut T, color: T::Color) -> Result<(), T::Error>",
     "self.ok_draw(target, color)?; self.ok_draw(target, color)", None,
     "((CurveSrc.It_ok_draw self color)) ++\n  ((CurveSrc.It_ok_draw self color))"),
    ("ok_draw_if_value", "<T: DrawTarget>(&self, target: &mut T, color: T::Color) -> Result<(), T::Error>",
     "if self.k > 0 { Ok(()) } else { self.ok_draw(target, color) }", None,
     "if (i32_gt (It_k self) (0 : Int)) then\n    []\n  else\n    (CurveSrc.It_ok_draw self color)"),
    ("bad_draw_dropped", "<T: DrawTarget>(&self, target: &mut T, color: T::Color) -> Result<(), T::Error>",
     "self.ok_draw(target, color); Ok(())", "must be followed by `?`", None),
    ("bad_draw_bound", "<T: DrawTarget>(&self, target: &mut T, color: T::Color) -> Result<(), T::Error>",
     "let r = self.ok_draw(target, color); r", "unknown name `target`", None),
    ("bad_draw_clear", "<T: DrawTarget>(&self, target: &mut T, color: T::Color) -> Result<(), T::Error>",
     "target.clear(color)", "only `fill_solid(&area, color)` is known", None),
    ("bad_draw_ret", "<T: DrawTarget>(&self, target: &mut T, color: T::Color) -> Result<u32, T::Error>",
     "Ok(1)", "must return Result<(), _::Error>", None),
    ("bad_find_place", "(&mut self, a: i32) -> Option<i32>", "self.r.find(|x| *x > a)", "only `<range>.clone().find(..)`", None),
    ("bad_try_value", "(&mut self) -> Option<i32>", "let y = self.r.next()? + 1; Some(y)", "`?` is only supported", None),
    ("bad_try_ret", "(&mut self) -> i32", "let y = self.r.next()?; y", "does not return an Option", None),
    ("bad_closure_assign", "(&mut self) -> Option<i32>", "let o = self.r.next(); o.map(|x| { self.k = x; x })", "modified inside a block used as a value", None),
    ("bad_or_else_value", "(&self, o: Option<i32>) -> Option<i32>", "let p = o.or_else(|| None); p", "`or_else` is only supported as the value", None),
    ("bad_filter", "(&self, a: i32) -> Option<i32>", "self.r.clone().filter(|x| *x > a).next()", "not known to the translator", None),
    ("bad_for", "(&self, a: i32) -> i32", "for i in 0..a { } a", "`for`", None),
    ("bad_u64_mixed", "(&self, a: u32, b: u32) -> bool", "a as u64 * b < 1", "between u64 and u32", None),
    ("bad_wrapping", "(&self, a: i32) -> i32", "a.wrapping_pow(2)", "not known to the translator", None),
]


def selftest():
    problems = []
    for (name, sig, body, err, frag) in SELFTEST_CASES:
        helper = ("" if name == "ok_draw" else
                  "    fn ok_draw<T: DrawTarget>(&self, target: &mut T, color: T::Color) -> Result<(), T::Error> { Ok(()) }\n")
        src = SELFTEST_SRC + helper + f"    fn {name}{sig} {{ {body} }}\n}}\n"
        try:
            with scoped_parser():
                prog = Program()
                parse_items(Cursor(tokenize(src, "selftest")), prog, "selftest")
                classify_generic_fns(prog)
                tr = CurveTranslator(prog, set(), set())
                tr.where = "selftest"
                # `It` is declared on the fly
                GENERATED_STRUCTS.append("It")
                try:
                    tr.need(tr.find_fn("It", None, name, "selftest"))
                finally:
                    GENERATED_STRUCTS.remove("It")
            text = "\n".join(tr.out)
            if err is not None:
                problems.append(f"{name}: should have been refused ({err}) but translated")
            elif frag not in text:
                problems.append(f"{name}: expected `{frag}` in `{text}`")
        except TrError as ex:
            if err is None:
                problems.append(f"{name}: refused: {ex}")
            elif err not in str(ex):
                problems.append(f"{name}: refused with `{ex}`, expected `{err}`")
    return problems


def generate(repo):
    try:
        problems = selftest()
        if problems:
            raise TrError("translator self test failed: " + "; ".join(problems[:3]))
        text, info = translate(repo)
        info["selftest_cases"] = len(SELFTEST_CASES)
        return {"CurveSrc.lean": text}, info
    except TrError as ex:
        reason = str(ex)
    except RecursionError:
        reason = "recursion limit reached while parsing"
    except Exception as ex:     # a bug of the translator must not take the other checks down
        reason = f"internal error {type(ex).__name__}: {ex}"
    return {"CurveSrc.lean": failed_file(reason)}, {"failed": reason}


if __name__ == "__main__":
    import json
    import sys
    repo = os.environ.get("EG_REPO", "/repo")
    if len(sys.argv) > 1 and sys.argv[1] == "--selftest":
        ps = selftest()
        print("\n".join(ps) if ps else f"selftest: {len(SELFTEST_CASES)} cases fine")
        sys.exit(1 if ps else 0)
    elif len(sys.argv) > 1 and sys.argv[1] == "--strict":
        t, i = translate(repo)
        print(t)
    else:
        files, info = generate(repo)
        print(files["CurveSrc.lean"])
        print(json.dumps(info), file=sys.stderr)
