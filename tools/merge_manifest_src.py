#!/usr/bin/env python3
"""merge_manifest_src.py <branch> — resolve a merge conflict in tools/manifest_src.json (long one-line texts that two
branches both extended) by a 3-way merge at clause granularity (texts split after '. ', '; ', ': ', ', ' and fed to
`git merge-file`). Prints the sub-conflicts that remain (both sides are then kept, ours first)."""
import json, subprocess, re, os, sys, tempfile
V = os.path.dirname(os.path.dirname(os.path.abspath(__file__)))
br = sys.argv[1]
def show(ref):
    return json.loads(subprocess.check_output(['git', 'show', ref + ':tools/manifest_src.json'], cwd=V, text=True))
mb = subprocess.check_output(['git', 'merge-base', 'HEAD', br], cwd=V, text=True).strip()
base, ours, theirs = show(mb), show('HEAD'), show(br)
def split(t):
    return re.sub(r'(\. |; |: |, )', lambda m: m.group(1) + '\n', t)
def merge3(b, o, t):
    if o == b: return t, False
    if t == b or t == o: return o, False
    d = tempfile.mkdtemp(); fs = {}
    for n, x in (('b', b), ('o', o), ('t', t)):
        fs[n] = os.path.join(d, n); open(fs[n], 'w').write(split(x) + '\n')
    r = subprocess.run(['git', 'merge-file', '-p', fs['o'], fs['b'], fs['t']], capture_output=True, text=True)
    out = r.stdout[:-1].replace('\n', '')
    conflict = r.returncode != 0
    if conflict:
        for mm in re.finditer(r'<<<<<<< [^ ]*(.*?)=======(.*?)>>>>>>> \S*', out, re.S):
            print('  kept both; OURS  :', mm.group(1).strip()[:300]); print('             THEIRS:', mm.group(2).strip()[:300])
        out = re.sub(r'<<<<<<< [^ ]*(.*?)=======(.*?)>>>>>>> \S*', lambda mm: mm.group(1).rstrip() + ' ' + mm.group(2).strip() + ' ', out, flags=re.S)
    return out, conflict
def walk(b, o, t, path=''):
    if isinstance(o, dict):
        res = {k: walk(b.get(k) if isinstance(b, dict) else None, o[k], t.get(k) if isinstance(t, dict) else None, path + '/' + k) for k in o}
        for k in (t or {}):
            if k not in o: res[k] = t[k]
        return res
    if isinstance(o, list):
        if t is None or t == b or t == o: return o
        if b == o: return t
        print('LIST CONFLICT', path); return o
    if isinstance(o, str) and isinstance(t, str) and isinstance(b, str):
        m, c = merge3(b, o, t)
        if c:
            print('SUB-CONFLICT at', path, '(both sides kept, ours first)')
        return m
    if t is None: return o
    return t if o == b else o
m = walk(base, ours, theirs)
json.dump(m, open(os.path.join(V, 'tools', 'manifest_src.json'), 'w'), indent=1, ensure_ascii=False)
