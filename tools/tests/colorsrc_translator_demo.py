#!/usr/bin/env python3
"""colorsrc_translator_demo.py — re-runs the demonstration of the SOURCE TRANSLATOR tie for the colour layer
(tools/tr_colorsrc.py; C12 and C13).

    python3 tools/tests/colorsrc_translator_demo.py            # all cases, exit 0 iff every case behaves as recorded
    python3 tools/tests/colorsrc_translator_demo.py --seeds    # instead: every seeded change under seeded/ whose patch
                                                               # touches a translated file, expected to break a theorem

For each case a small edit is applied to the Rust text of a SCRATCH COPY of /repo (a detached git worktree under
/tmp/vw/convgen-repo, removed at the end; /repo itself is never touched), the translator regenerates `ColorSrc.lean`
from it, and the equivalence theorems of lean/EG/Props/C12/Generated.lean and lean/EG/Props/C13/Generated.lean are
re-checked against the regenerated file ALONE (the tables of tr_color.py are left as they are: this shows what the
proof tie of the bodies catches by itself). Nothing inside the verif tree is written: the regenerated file and its
.olean live in a temp directory put in front of LEAN_PATH (requires an up-to-date build, which the script runs first).

  kind `mutation`  a semantic change: the listed theorem(s) must STOP building
  kind `harmless`  a rewrite that keeps the meaning: every theorem must still build
  kind `unknown`   a construct outside the translator's Rust subset: the translator must say so
                   (`translationFailed`), and the theorems must stop building (no silent skipping)
"""
import os
import re
import shutil
import subprocess
import sys
import tempfile

V = os.path.dirname(os.path.dirname(os.path.dirname(os.path.abspath(__file__))))
sys.path.insert(0, os.path.join(V, "tools"))
import tr_colorsrc  # noqa: E402

REPO = os.environ.get("EG_REPO", "/repo")
LEAN = os.path.join(V, "lean")
P12 = os.path.join(LEAN, "EG", "Props", "C12", "Generated.lean")
P13 = os.path.join(LEAN, "EG", "Props", "C13", "Generated.lean")
CONV = "core/src/pixelcolor/conversion.rs"
RGB = "core/src/pixelcolor/rgb_color.rs"
GRAY = "core/src/pixelcolor/gray_color.rs"
BIN = "core/src/pixelcolor/binary_color.rs"
TRANSLATED = [CONV, RGB, GRAY, BIN, "core/src/pixelcolor/mod.rs"]

# (name, kind, file, old text, new text, theorems expected to break (subset check))
CASES = [
    ("convert_channel: SHIFT 24 -> 16", "mutation", CONV,
     "const SHIFT: usize = 24;", "const SHIFT: usize = 16;", ["convert_channel_src_eq_model"]),
    ("convert_channel: CONST_0_5 = 1 << (SHIFT - 2) (rounds at a quarter)", "mutation", CONV,
     "const CONST_0_5: u32 = 1 << (SHIFT - 1);", "const CONST_0_5: u32 = 1 << (SHIFT - 2);", ["convert_channel_src_eq_model"]),
    ("convert_channel: `!=` -> `>` (narrowing returns the value unscaled)", "mutation", CONV,
     "if TO_MAX != FROM_MAX {", "if TO_MAX > FROM_MAX {", ["convert_channel_src_eq_model"]),
    ("convert_channel: reciprocal of the wrong maximum", "mutation", CONV,
     "(((TO_MAX as u32) << SHIFT) / FROM_MAX as u32)", "(((FROM_MAX as u32) << SHIFT) / TO_MAX as u32)", ["convert_channel_src_eq_model"]),
    ("convert_channel: the rounding constant is not added", "mutation", CONV,
     "((result + CONST_0_5) >> SHIFT) as u8", "(result >> SHIFT) as u8", ["convert_channel_src_eq_model"]),
    ("luma: red weight 77 -> 76", "mutation", CONV,
     "((r * 77 + g * 150 + b * 29 + 128) / 256) as u8", "((r * 76 + g * 150 + b * 29 + 128) / 256) as u8", ["luma_src_eq_model"]),
    ("luma: `/ 256` -> `>> 7`", "mutation", CONV,
     "((r * 77 + g * 150 + b * 29 + 128) / 256) as u8", "((r * 77 + g * 150 + b * 29 + 128) >> 7) as u8", ["luma_src_eq_model"]),
    ("impl_rgb_conversion!: green scaled to the target's MAX_R", "mutation", CONV,
     "convert_channel::<{$from_type::MAX_G}, {$to_type::MAX_G}>(other.g()),", "convert_channel::<{$from_type::MAX_G}, {$to_type::MAX_R}>(other.g()),",
     ["impl_rgb_conversion_src_eq_model"]),
    ("impl_rgb_conversion!: red and blue of the source swapped", "mutation", CONV,
     "convert_channel::<{$from_type::MAX_R}, {$to_type::MAX_R}>(other.r()),", "convert_channel::<{$from_type::MAX_R}, {$to_type::MAX_R}>(other.b()),",
     ["impl_rgb_conversion_src_eq_model"]),
    ("impl_gray_conversion!: the maxima swapped", "mutation", CONV,
     "convert_channel::<{$from_type::MAX_LUMA}, {$to_type::MAX_LUMA}>(other.luma())", "convert_channel::<{$to_type::MAX_LUMA}, {$from_type::MAX_LUMA}>(other.luma())",
     ["impl_gray_conversion_src_eq_model"]),
    ("impl_rgb_to_and_from_gray!: gray -> rgb scales blue to MAX_G", "mutation", CONV,
     "convert_channel::<{$gray_type::MAX_LUMA}, {$rgb_type::MAX_B}>(other.luma()),", "convert_channel::<{$gray_type::MAX_LUMA}, {$rgb_type::MAX_G}>(other.luma()),",
     ["impl_gray_to_rgb_src_eq_model"]),
    ("impl_rgb_to_and_from_gray!: rgb -> gray skips the `.into()` scaling (builds the target directly)", "mutation", CONV,
     "Gray8::new(intensity).into()", "Self::new(intensity)", ["impl_rgb_to_gray_src_eq_model"]),
    ("impl_from_binary!: BLACK and WHITE swapped", "mutation", CONV,
     "color.map_color(Self::BLACK, Self::WHITE)", "color.map_color(Self::WHITE, Self::BLACK)",
     ["impl_from_binary_rgb_src_eq_model", "impl_from_binary_gray_src_eq_model"]),
    ("impl_gray_to_binary!: `>=` -> `>`", "mutation", CONV,
     "(color.luma() >= $type::GRAY_50.luma()).into()", "(color.luma() > $type::GRAY_50.luma()).into()", ["impl_gray_to_binary_src_eq_model"]),
    ("impl_rgb_to_binary!: threshold 128 -> 127", "mutation", CONV,
     "(luma(Rgb888::from(color)) >= 128).into()", "(luma(Rgb888::from(color)) >= 127).into()", ["impl_rgb_to_binary_src_eq_model"]),
    ("impl_rgb_color!: `new` shifts green to the blue position", "mutation", RGB,
     "let g_shifted = (g & Self::MAX_G) as $storage_type << $g_pos;", "let g_shifted = (g & Self::MAX_G) as $storage_type << $b_pos;", ["new_src_eq_model"]),
    ("impl_rgb_color!: `new` does not mask red", "mutation", RGB,
     "let r_shifted = (r & Self::MAX_R) as $storage_type << $r_pos;", "let r_shifted = (r) as $storage_type << $r_pos;", ["new_src_eq_model"]),
    ("impl_rgb_color!: `r()` masks with MAX_G", "mutation", RGB,
     "(self.0 >> $r_pos) as u8 & Self::MAX_R", "(self.0 >> $r_pos) as u8 & Self::MAX_G", ["r_src_eq_model"]),
    ("impl_rgb_color!: RGB_MASK loses the green mask", "mutation", RGB,
     "Self::R_MASK | Self::B_MASK | Self::G_MASK;", "Self::R_MASK | Self::B_MASK;", ["mask_src_eq_model"]),
    ("impl_rgb_color!: MAX_R off by one", "mutation", RGB,
     "const MAX_R: u8 = ((1usize << $r_bits) - 1) as u8;", "const MAX_R: u8 = (1usize << $r_bits) as u8;", ["max_src_eq_model"]),
    ("impl_rgb_color!: `Into<Raw>` stores the inverted value", "mutation", RGB,
     "Self::new(color.0)\n", "Self::new(color.0 >> 1)\n", ["into_raw_src_eq_model"]),
    ("gray_color!: MAX_LUMA from 0x7F", "mutation", GRAY,
     "const MAX_LUMA: u8 = 0xFF >> (8 - $raw_type::BITS_PER_PIXEL);", "const MAX_LUMA: u8 = 0x7F >> (8 - $raw_type::BITS_PER_PIXEL);",
     ["gray_consts_src_eq_model"]),
    ("gray_color!: WHITE = new(254)", "mutation", GRAY,
     "const WHITE: Self = Self::new(255);", "const WHITE: Self = Self::new(254);", ["gray_consts_src_eq_model"]),
    ("BinaryColor: `From<RawU1>` inverted", "mutation", BIN,
     "if data.into_inner() != 0 {", "if data.into_inner() == 0 {", ["from_raw_src_eq_model"]),
    ("BinaryColor: `Into<RawU1>` maps Off to 1", "mutation", BIN,
     "RawU1::new(color.map_color(0, 1))", "RawU1::new(color.map_color(1, 0))", ["into_raw_src_eq_model"]),
    ("BinaryColor: map_color returns value_off for On", "mutation", BIN,
     "            BinaryColor::On => value_on,\n            BinaryColor::Off => value_off,", "            BinaryColor::On => value_off,\n            BinaryColor::Off => value_on,",
     ["into_raw_src_eq_model"]),
    ("BinaryColor: a new inherent function (no translated body changes)", "mutation", BIN,
     "    pub(crate) fn map_color<T>", "    pub const fn is_dark(self) -> bool {\n        matches!(self, BinaryColor::Off)\n    }\n\n    pub(crate) fn map_color<T>",
     ["translated_pinned"]),
    ("convert_channel: local `result` renamed", "harmless", CONV,
     "let result = value as u32 * (((TO_MAX as u32) << SHIFT) / FROM_MAX as u32);\n\n        // Scale the result back down into an u8.\n        ((result + CONST_0_5) >> SHIFT) as u8",
     "let scaled = value as u32 * (((TO_MAX as u32) << SHIFT) / FROM_MAX as u32);\n\n        ((scaled + CONST_0_5) >> SHIFT) as u8", []),
    ("convert_channel: the two arms exchanged with the condition negated", "harmless", CONV,
     "    if TO_MAX != FROM_MAX {\n        const SHIFT: usize = 24;\n        const CONST_0_5: u32 = 1 << (SHIFT - 1);\n\n        // `value * from_max / to_max` scaled by `1 << SHIFT`.\n        let result = value as u32 * (((TO_MAX as u32) << SHIFT) / FROM_MAX as u32);\n\n        // Scale the result back down into an u8.\n        ((result + CONST_0_5) >> SHIFT) as u8\n    } else {\n        value\n    }",
     "    if TO_MAX == FROM_MAX {\n        value\n    } else {\n        const SHIFT: usize = 24;\n        const CONST_0_5: u32 = 1 << (SHIFT - 1);\n        let result = value as u32 * (((TO_MAX as u32) << SHIFT) / FROM_MAX as u32);\n        ((result + CONST_0_5) >> SHIFT) as u8\n    }", []),
    ("convert_channel: extra parentheses around the cast", "harmless", CONV,
     "let result = value as u32 * (", "let result = (value as u32) * (", []),
    ("luma: the lets reordered", "harmless", CONV,
     "    let r = u16::from(color.r());\n    let g = u16::from(color.g());\n", "    let g = u16::from(color.g());\n    let r = u16::from(color.r());\n", []),
    ("impl_rgb_to_and_from_gray!: the local `intensity` inlined", "harmless", CONV,
     "let intensity = luma(Rgb888::from(other));\n                Gray8::new(intensity).into()", "Gray8::new(luma(Rgb888::from(other))).into()", []),
    ("impl_rgb_color!: locals of `new` renamed", "harmless", RGB,
     "let r_shifted = (r & Self::MAX_R) as $storage_type << $r_pos;", "let red = (r & Self::MAX_R) as $storage_type << $r_pos;\n                let r_shifted = red;", []),
    ("impl_gray_to_binary!: comparison written the other way round", "harmless", CONV,
     "(color.luma() >= $type::GRAY_50.luma()).into()", "($type::GRAY_50.luma() <= color.luma()).into()", []),
    ("luma: a `for` loop (outside the Rust subset)", "unknown", CONV,
     "    let r = u16::from(color.r());", "    for _k in 0..1 {}\n    let r = u16::from(color.r());", []),
    ("convert_channel: a method the prelude does not know (`wrapping_mul`)", "unknown", CONV,
     "let result = value as u32 * (", "let result = (value as u32).wrapping_mul(", []),
    ("impl_rgb_color!: the matcher's position parameters reordered", "unknown", RGB,
     "($r_pos:expr, $g_pos:expr, $b_pos:expr),\n        $type_str:expr", "($b_pos:expr, $g_pos:expr, $r_pos:expr),\n        $type_str:expr", []),
]


def run(cmd, **kw):
    p = subprocess.run(cmd, stdout=subprocess.PIPE, stderr=subprocess.STDOUT, text=True, **kw)
    return p.returncode, p.stdout


def list_theorems(path):
    out = []
    for i, line in enumerate(open(path).read().splitlines(), 1):
        m = re.match(r"\s*(?:theorem|example)\s*(\S*)", line)
        if m:
            out.append((m.group(1) if m.group(1) not in ("", ":") else f"example@{i}", i))
    return out


def seed_cases():
    out = []
    sd = os.path.join(V, "seeded")
    for d in sorted(os.listdir(sd)):
        pf = os.path.join(sd, d, "patch.diff")
        if os.path.exists(pf) and any(("+++ b/" + rel) in open(pf).read() for rel in TRANSLATED):
            out.append((f"seeded change {d}", "seed", pf, None, None, []))
    return out


def main():
    only = sys.argv[1:]
    cases = CASES
    if only and only[0] == "--seeds":
        only = only[1:]
        cases = seed_cases()
    rc, out = run(["lake", "build", "EG.Props.C12.Generated", "EG.Props.C13.Generated"], cwd=LEAN)
    if rc != 0:
        print("the unchanged tree does not build the Generated theorems:\n" + out[-2000:])
        return 2
    rc, lean_path = run(["lake", "env", "printenv", "LEAN_PATH"], cwd=LEAN)
    lean_path = lean_path.strip().splitlines()[-1]
    tmp = tempfile.mkdtemp(prefix="colorsrcdemo-")
    scratch = "/tmp/vw/convgen-repo"
    run(["git", "-C", REPO, "worktree", "remove", "--force", scratch])
    rc, out = run(["git", "-C", REPO, "worktree", "add", "--detach", scratch, "HEAD"])
    if rc != 0:
        print("cannot create the scratch worktree:", out)
        return 2
    th12, th13 = list_theorems(P12), list_theorems(P13)
    real = [d for d in lean_path.split(":") if os.path.isdir(os.path.join(d, "EG"))][0]
    bad = 0
    try:
        files, info = tr_colorsrc.generate(scratch)
        cur = open(os.path.join(LEAN, "EG", "Generated", "ColorSrc.lean")).read()
        print(f"baseline: {info.get('functions')} definitions translated; identical to lean/EG/Generated/ColorSrc.lean: {files['ColorSrc.lean'] == cur}")
        for idx, (name, kind, rel, old, new, expect) in enumerate(cases):
            if only and not any(o in name for o in only):
                continue
            run(["git", "-C", scratch, "checkout", "-q", "--", "."])
            if kind == "seed":
                rca, outa = run(["git", "-C", scratch, "apply", rel])
                if rca != 0:
                    print(f"[{kind}] {name}: CANNOT APPLY the patch to /repo's HEAD ({outa.strip()[:120]})")
                    bad += 1
                    continue
            else:
                path = os.path.join(scratch, rel)
                src = open(path).read()
                if src.count(old) != 1:
                    print(f"[{kind}] {name}: CANNOT APPLY (the text to replace occurs {src.count(old)} times): demo out of date")
                    bad += 1
                    continue
                open(path, "w").write(src.replace(old, new))
            files, info = tr_colorsrc.generate(scratch)
            gen_dir = os.path.join(tmp, f"case{idx}")
            os.makedirs(os.path.join(gen_dir, "src", "EG", "Generated"))
            # overlay of the project's build output: everything symlinked except EG/Generated/ColorSrc.* and (below) the
            # recompiled EG/Props/C12/Generated.*
            for sub in ("", "Generated", "Props", os.path.join("Props", "C12")):
                os.makedirs(os.path.join(gen_dir, "lib", "EG", sub), exist_ok=True)
            skip = {"": {"Generated", "Props"}, "Generated": None, "Props": {"C12"}, os.path.join("Props", "C12"): None}
            for sub, sk in skip.items():
                for e in os.listdir(os.path.join(real, "EG", sub)):
                    if sk is not None and e in sk:
                        continue
                    if sub == "Generated" and e.startswith("ColorSrc."):
                        continue
                    if sub == os.path.join("Props", "C12") and e.startswith("Generated."):
                        continue
                    os.symlink(os.path.join(real, "EG", sub, e), os.path.join(gen_dir, "lib", "EG", sub, e))
            open(os.path.join(gen_dir, "src", "EG", "Generated", "ColorSrc.lean"), "w").write(files["ColorSrc.lean"])
            env = dict(os.environ, LEAN_PATH=lean_path)
            rc1, out1 = run(["lean", "EG/Generated/ColorSrc.lean", "-o", os.path.join(gen_dir, "lib", "EG", "Generated", "ColorSrc.olean"),
                             "-i", os.path.join(gen_dir, "lib", "EG", "Generated", "ColorSrc.ilean")], env=env, cwd=os.path.join(gen_dir, "src"))
            failed = "failed" in info
            broken = set()

            def collect(out2, ths, pf):
                for m in re.finditer(r":(\d+):\d+: error", out2):
                    ln = int(m.group(1))
                    nm = None
                    for (n, l) in ths:
                        if l <= ln:
                            nm = n
                    broken.add(nm or f"{os.path.basename(os.path.dirname(pf))}/Generated.lean line {ln}")

            if rc1 != 0:
                broken.add("(generated file does not compile: " + out1.strip().splitlines()[0][:160] + ")")
            else:
                env2 = dict(os.environ, LEAN_PATH=os.path.join(gen_dir, "lib") + ":" + lean_path)
                o12 = os.path.join(gen_dir, "lib", "EG", "Props", "C12", "Generated.olean")
                rc2, out2 = run(["lean", P12, "-o", o12, "-i", o12[:-5] + "ilean"], env=env2, cwd=LEAN)
                collect(out2, th12, P12)
                if not os.path.exists(o12):
                    # C13's file imports C12's: look at it against the last good build of C12's (its direct breaks)
                    for ext in ("olean", "ilean"):
                        os.symlink(os.path.join(real, "EG", "Props", "C12", "Generated." + ext), o12[:-5] + ext)
                rc3, out3 = run(["lean", P13], env=env2, cwd=LEAN)
                collect(out3, th13, P13)
            if kind == "mutation":
                ok = (not failed) and all(e in broken for e in expect)
            elif kind == "seed":
                ok = len(broken) > 0
            elif kind == "harmless":
                ok = (not failed) and not broken
            else:
                ok = failed and len(broken) > 0
            bad += 0 if ok else 1
            print(f"[{kind}] {name}")
            if failed:
                print(f"      translator: translationFailed = {info['failed']}")
            print(f"      theorems that no longer build: {len(broken)}" + (": " + ", ".join(sorted(broken)[:8]) + (" ..." if len(broken) > 8 else "") if broken else " (all proofs survive)"))
            print(f"      {'as recorded' if ok else 'NOT AS RECORDED (expected ' + (', '.join(expect) if expect else kind) + ')'}")
    finally:
        run(["git", "-C", REPO, "worktree", "remove", "--force", scratch])
        shutil.rmtree(tmp, ignore_errors=True)
    print("demo:", "all cases as recorded" if bad == 0 else f"{bad} case(s) differ")
    return 0 if bad == 0 else 1


if __name__ == "__main__":
    sys.exit(main())
