// Validation of tools/tests/drawsites_cases_audit4.rs against a fault-injecting target (NOT scanned by
// tr_drawsites.py: its name does not match drawsites_cases*.rs). Run from the repository root:
//
//   rustc --edition 2021 -o /tmp/drawsites_validate tools/tests/drawsites_validate_audit4.rs && /tmp/drawsites_validate
//
// For every case function, both values of `c` and every k below the number of target calls of the
// fault-free run, the k-th call of the target is failed and the prefix law is tested (the function
// returns Err(k), exactly k + 1 calls are attempted, the successful calls are the first k calls of
// the fault-free run). The program reads the `// violates` / `// alarm` marks and the function names
// from the case file itself and exits non-zero unless
//   * every function marked `violates` breaks the law for some (c, k),
//   * every other function (all-propagating ones, `alarm` ones) obeys it for every (c, k),
//   * every `pub fn .. (t: &mut D, c: bool)` of the case file is in the table below.
#[path = "drawsites_cases_audit4.rs"]
mod cases;
use cases::*;

pub struct Faulty {
    pub fail_at: usize,
    pub calls: usize,
    pub log: Vec<u32>,
}

impl Faulty {
    fn call(&mut self, a: u32) -> Result<(), usize> {
        let k = self.calls;
        self.calls += 1;
        if k == self.fail_at {
            return Err(k);
        }
        self.log.push(a);
        Ok(())
    }
}

impl DrawTarget for Faulty {
    type Error = usize;
    fn fill_solid(&mut self, a: u32) -> Result<(), usize> {
        self.call(a)
    }
    fn draw_iter<I: IntoIterator<Item = u32>>(&mut self, it: I) -> Result<(), usize> {
        self.call(1000 + it.into_iter().sum::<u32>())
    }
}

type Case = fn(&mut Faulty, bool) -> Result<(), usize>;

/// the (c, k) pairs at which the prefix law is broken
fn violations(f: Case) -> Vec<(bool, usize)> {
    let mut out = vec![];
    for c in [false, true] {
        let mut clean = Faulty { fail_at: usize::MAX, calls: 0, log: vec![] };
        assert_eq!(f(&mut clean, c), Ok(()));
        for k in 0..clean.calls {
            let mut t = Faulty { fail_at: k, calls: 0, log: vec![] };
            let r = f(&mut t, c);
            if r != Err(k) || t.calls != k + 1 || t.log[..] != clean.log[..k] {
                out.push((c, k));
            }
        }
    }
    out
}

macro_rules! table {
    ($($name:ident),* $(,)?) => { vec![$((stringify!($name), $name::<Faulty> as Case)),*] };
}

fn main() {
    let table: Vec<(&str, Case)> = table![
        bad_closure_struct_field, bad_closure_struct_field_braceless, bad_closure_after_label, bad_closure_after_range_op,
        ok_bars_after_operands,
        bad_bound_short_circuit_and, bad_bound_short_circuit_or, bad_bound_while_cond, bad_bound_if_cond, bad_bound_q_in_closure,
        alarm_bound_not_statement_initial, ok_bound_statement_initial,
        bad_match_ok_or_wildcard, bad_match_ok_or_wildcard_value, bad_match_err_alias, alarm_match_ok_guard, ok_match_plain_ok_arms,
        bad_q_in_macro_args, bad_q_in_macro_braces, bad_return_in_macro_args, bad_match_ret_in_macro_args, bad_std_macro_args,
        alarm_transparent_macro, ok_negation_and_macro_nearby,
        bad_break_value, bad_break_label_value, bad_break_in_arms, alarm_break_value_then_q, ok_breaks,
        bad_nested_turbofish, ok_nested_turbofish,
        bad_drops_helpers, ok_uses_helpers,
        bad_q_in_async_block,
    ];
    // marks and names from the case file: the comment block right before each `pub fn NAME<D: DrawTarget>(t: &mut D, c: bool)`
    let src = include_str!("drawsites_cases_audit4.rs");
    let mut marked: Vec<(String, bool)> = vec![];
    let mut block: Vec<&str> = vec![];
    for line in src.lines() {
        let l = line.trim();
        if l.starts_with("//") {
            block.push(l);
            continue;
        }
        if l.starts_with("pub fn ") && l.contains("(t: &mut D, c: bool)") {
            let name = l["pub fn ".len()..].split(|ch: char| !(ch.is_alphanumeric() || ch == '_')).next().unwrap();
            marked.push((name.to_string(), block.iter().any(|b| b.starts_with("// violates"))));
        }
        block.clear();
    }
    let mut failed = false;
    for (name, violates) in &marked {
        match table.iter().find(|(n, _)| n == name) {
            None => {
                println!("MISSING from the table: {}", name);
                failed = true;
            }
            Some((_, f)) => {
                let v = violations(*f);
                let ok = *violates != v.is_empty();
                println!("{:40} marked {:9} broken at (c, k) = {:?}{}", name, if *violates { "violates" } else { "obeys" }, v,
                         if ok { "" } else { "   <-- MISMATCH" });
                failed |= !ok;
            }
        }
    }
    if marked.len() != table.len() {
        println!("case file has {} case functions, the table {}", marked.len(), table.len());
        failed = true;
    }
    println!("{}", if failed { "FAILED" } else { "ok: every mark agrees with the fault-injecting target" });
    std::process::exit(if failed { 1 } else { 0 });
}
