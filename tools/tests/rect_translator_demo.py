#!/usr/bin/env python3
"""rect_translator_demo.py — re-runs the demonstration of the SOURCE TRANSLATOR tie for `Rectangle` (tools/tr_rect.py).

    python3 tools/tests/rect_translator_demo.py            # all cases, exit 0 iff every case behaves as recorded
    python3 tools/tests/rect_translator_demo.py --seeds    # instead: every seeded change under seeded/ that touches a
                                                           # translated file (patch.diff), expected to break a theorem

For each case a small edit is applied to the Rust text of a SCRATCH COPY of /repo (a detached git worktree,
removed at the end; /repo itself is never touched), the translator regenerates `RectSrc.lean` from it, and the
equivalence theorems of lean/EG/Props/C16/Generated.lean are re-checked against the regenerated file.
Nothing inside the verif tree is written: the regenerated file and its .olean live in a temp directory that is put
in front of LEAN_PATH (requires an up-to-date `lake build EG.Props.C16.Generated`, which the script runs first).

  kind `mutation`  a semantic change: the listed `_src_eq_model` theorem(s) must STOP building
  kind `harmless`  a rewrite that keeps the meaning (renamed local, reordered independent lets, ...): every
                   theorem must still build
  kind `unknown`   a construct outside the translator's Rust subset: the translator must say so
                   (`translationFailed`), and the theorems must stop building (no silent skipping)
"""
import os
import re
import shutil
import subprocess
import sys
import tempfile

V = os.path.dirname(os.path.dirname(os.path.dirname(os.path.abspath(__file__))))
sys.path.insert(0, os.path.join(V, "tools"))
import tr_rect  # noqa: E402

REPO = os.environ.get("EG_REPO", "/repo")
LEAN = os.path.join(V, "lean")
PROPS = os.path.join(LEAN, "EG", "Props", "C16", "Generated.lean")
PROPS_POINTS = os.path.join(LEAN, "EG", "Props", "C16", "GeneratedPoints.lean")
RECT = "core/src/primitives/rectangle/mod.rs"
POINT = "core/src/geometry/point.rs"
POINTS = "core/src/primitives/rectangle/points.rs"

# (name, kind, file, old text, new text, theorems expected to break (subset check) )
CASES = [
    ("contains: `>=` -> `>` on the left edge", "mutation", RECT,
     "    pub fn contains(&self, point: Point) -> bool {\n        if point.x >= self.top_left.x",
     "    pub fn contains(&self, point: Point) -> bool {\n        if point.x > self.top_left.x",
     ["contains_src_eq_model"]),
    ("overlaps: `<` -> `<=`", "mutation", RECT,
     "|| first.start() < second.start() && first.end() > second.end()",
     "|| first.start() <= second.start() && first.end() > second.end()",
     ["overlaps_src_eq_model"]),
    ("envelope: component_min / component_max swapped", "mutation", RECT,
     "let top_left = self.top_left.component_min(other.top_left);",
     "let top_left = self.top_left.component_max(other.top_left);",
     ["envelope_src_eq_model"]),
    ("anchor_y: `delta / 2` -> `(delta + 1) / 2`", "mutation", RECT,
     "                AnchorY::Center => delta / 2,\n                AnchorY::Bottom => delta,\n            }\n    }",
     "                AnchorY::Center => (delta + 1) / 2,\n                AnchorY::Bottom => delta,\n            }\n    }",
     ["anchor_y_src_eq_model"]),
    ("rows: `saturating_as()` -> `as i32`", "mutation", RECT,
     "                .saturating_add(self.size.height.saturating_as())",
     "                .saturating_add(self.size.height as i32)",
     ["rows_src_eq_model"]),
    ("center_offset: `div_u32(2)` -> `div_u32(3)`", "mutation", RECT,
     "size.saturating_sub(Size::new_equal(1)).div_u32(2)",
     "size.saturating_sub(Size::new_equal(1)).div_u32(3)",
     ["center_offset_src_eq_model"]),
    ("intersection: the zero sized `self` arm returns `*other`", "mutation", RECT,
     "                if other.contains(self.top_left) {\n                    return *self;",
     "                if other.contains(self.top_left) {\n                    return *other;",
     ["intersection_src_eq_model"]),
    ("Point::component_min (helper in point.rs): y uses max", "mutation", POINT,
     "Self::new(self.x.min(other.x), self.y.min(other.y))",
     "Self::new(self.x.min(other.x), self.y.max(other.y))",
     ["Point_component_min_src_eq_model"]),
    ("offset: shrink by `offset` instead of `2 * offset`", "mutation", RECT,
     ".saturating_sub(Size::new_equal((-offset) as u32 * 2));",
     ".saturating_sub(Size::new_equal((-offset) as u32));",
     ["offset_src_eq_model"]),
    ("anchor_x: local `delta` renamed to `d`", "harmless", RECT,
     "        let delta = self.size.width.saturating_as::<i32>().max(1) - 1;\n\n        self.top_left.x\n            + match anchor_x {\n                AnchorX::Left => 0,\n                AnchorX::Center => delta / 2,\n                AnchorX::Right => delta,",
     "        let d = self.size.width.saturating_as::<i32>().max(1) - 1;\n\n        self.top_left.x\n            + match anchor_x {\n                AnchorX::Left => 0,\n                AnchorX::Center => d / 2,\n                AnchorX::Right => d,",
     []),
    ("with_corners: the two independent lets reordered", "harmless", RECT,
     "        let left = min(corner_1.x, corner_2.x);\n        let top = min(corner_1.y, corner_2.y);\n",
     "        let top = min(corner_1.y, corner_2.y);\n        let left = min(corner_1.x, corner_2.x);\n",
     []),
    ("contains: closure parameter renamed, `else` value written as a block expression", "harmless", RECT,
     "                .is_some_and(|bottom_right| point.x <= bottom_right.x && point.y <= bottom_right.y)",
     "                .is_some_and(|br| (point.x <= br.x) && (point.y <= br.y))",
     []),
    ("envelope: the local inlined into the call", "harmless", RECT,
     "        let top_left = self.top_left.component_min(other.top_left);\n        let bottom_right = self",
     "        let top_left = { self.top_left.component_min(other.top_left) };\n        let bottom_right = self",
     []),
    ("intersection: early `return` of the first arm written as if/else with the fall-through value", "harmless", RECT,
     "                        self_bottom_right.component_min(other_bottom_right),\n                    );\n                }\n            }",
     "                        self_bottom_right.component_min(other_bottom_right),\n                    );\n                } else {\n                    return Rectangle::zero();\n                }\n            }",
     []),
    # the iterator (points.rs; these theorems live in GeneratedPoints.lean, which is re-checked against the
    # regenerated file with Generated.lean's build output as it is: the cases below only touch points.rs)
    ("Points::next: the row start is not restored (`self.x.start = self.x_start` dropped)", "mutation", POINTS,
     "            self.y.next();\n            self.x.start = self.x_start;\n",
     "            self.y.next();\n",
     ["Iterator_next_fuel_src_eq_model"]),
    ("Points::next: yields (y, x) instead of (x, y)", "mutation", POINTS,
     "return Some(Point::new(x, self.y.start));",
     "return Some(Point::new(self.y.start, x));",
     ["Iterator_next_fuel_src_eq_model"]),
    ("Points::new: rows and columns swapped", "mutation", POINTS,
     "        let x = rectangle.columns();\n        let y = rectangle.rows();\n",
     "        let x = rectangle.rows();\n        let y = rectangle.columns();\n",
     ["Points_new_src_eq_model"]),
    ("Points::new: the zero-size shortcut removed", "mutation", POINTS,
     "        if rectangle.is_zero_sized() {\n            return Self::empty();\n        }\n",
     "",
     ["Points_new_src_eq_model"]),
    ("Points::next: `if let` written as a `match`, loop condition via a local", "harmless", POINTS,
     "            if let Some(x) = self.x.next() {\n                return Some(Point::new(x, self.y.start));\n            }\n",
     "            match self.x.next() {\n                Some(x) => {\n                    return Some(Point::new(x, self.y.start));\n                }\n                None => (),\n            }\n",
     []),
    ("Points::new: the two independent lets reordered", "harmless", POINTS,
     "        let x = rectangle.columns();\n        let y = rectangle.rows();\n",
     "        let y = rectangle.rows();\n        let x = rectangle.columns();\n",
     []),
    ("Points: an override of `Iterator::size_hint` added (no translated body changes)", "mutation", POINTS,
     "        None\n    }\n}\n",
     "        None\n    }\n\n    fn size_hint(&self) -> (usize, Option<usize>) {\n        (0, None)\n    }\n}\n",
     ["untranslated_pinned"]),
    ("center: a `for` loop (outside the Rust subset)", "unknown", RECT,
     "        self.top_left + center_offset(self.size)\n",
     "        for _k in 0..1 {}\n        self.top_left + center_offset(self.size)\n",
     []),
    ("bottom_right: a method the prelude does not know (`wrapping_add`)", "unknown", RECT,
     "if self.size.width > 0 && self.size.height > 0 {",
     "if self.size.width.wrapping_add(0) > 0 && self.size.height > 0 {",
     []),
]


def run(cmd, **kw):
    p = subprocess.run(cmd, stdout=subprocess.PIPE, stderr=subprocess.STDOUT, text=True, **kw)
    return p.returncode, p.stdout


def list_theorems(path):
    out = []
    for i, line in enumerate(open(path).read().splitlines(), 1):
        m = re.match(r"\s*theorem\s+(\S+)", line)
        if m:
            out.append((m.group(1), i))
    return out


def seed_cases():
    out = []
    sd = os.path.join(V, "seeded")
    for d in sorted(os.listdir(sd)):
        pf = os.path.join(sd, d, "patch.diff")
        if not os.path.exists(pf):
            continue
        txt = open(pf).read()
        if any(("+++ b/" + rel) in txt for rel in tr_rect.FILES.values()):
            out.append((f"seeded change {d}", "seed", pf, None, None, []))
    return out


def main():
    only = sys.argv[1:]
    cases = CASES
    if only and only[0] == "--seeds":
        only = only[1:]
        cases = seed_cases()
    rc, out = run(["lake", "build", "EG.Props.C16.Generated", "EG.Props.C16.GeneratedPoints"], cwd=LEAN)
    if rc != 0:
        print("the unchanged tree does not build EG.Props.C16.Generated:\n" + out[-2000:])
        return 2
    rc, lean_path = run(["lake", "env", "printenv", "LEAN_PATH"], cwd=LEAN)
    lean_path = lean_path.strip().splitlines()[-1]
    tmp = tempfile.mkdtemp(prefix="rectdemo-")
    scratch = os.path.join(tmp, "repo")
    rc, out = run(["git", "-C", REPO, "worktree", "add", "--detach", scratch, "HEAD"])
    if rc != 0:
        print("cannot create the scratch worktree:", out)
        return 2
    theorems = list_theorems(PROPS)
    theorems_points = list_theorems(PROPS_POINTS)
    bad = 0
    try:
        # baseline: the scratch copy translates to exactly the committed generated file
        files, info = tr_rect.generate(scratch)
        cur = open(os.path.join(LEAN, "EG", "Generated", "RectSrc.lean")).read()
        print(f"baseline: {info.get('functions')} functions translated; identical to lean/EG/Generated/RectSrc.lean: {files['RectSrc.lean'] == cur}")
        for idx, (name, kind, rel, old, new, expect) in enumerate(cases):
            if only and not any(o in name for o in only):
                continue
            run(["git", "-C", scratch, "checkout", "-q", "--", "."])
            if kind == "seed":
                rca, outa = run(["git", "-C", scratch, "apply", rel])
                if rca != 0:
                    print(f"[{kind}] {name}: CANNOT APPLY the patch to /repo's HEAD ({outa.strip()[:120]})")
                    bad += 1
                    continue
            else:
                path = os.path.join(scratch, rel)
                src = open(path).read()
                if src.count(old) != 1:
                    print(f"[{kind}] {name}: CANNOT APPLY (the text to replace occurs {src.count(old)} times): demo out of date")
                    bad += 1
                    continue
                open(path, "w").write(src.replace(old, new))
            files, info = tr_rect.generate(scratch)
            gen_dir = os.path.join(tmp, f"case{idx}")
            os.makedirs(os.path.join(gen_dir, "src", "EG", "Generated"))
            # overlay of the project's build output: everything symlinked except EG/Generated/RectSrc.*
            real = [d for d in lean_path.split(":") if os.path.isdir(os.path.join(d, "EG"))][0]
            os.makedirs(os.path.join(gen_dir, "lib", "EG", "Generated"))
            for e in os.listdir(os.path.join(real, "EG")):
                if e != "Generated":
                    os.symlink(os.path.join(real, "EG", e), os.path.join(gen_dir, "lib", "EG", e))
            for e in os.listdir(os.path.join(real, "EG", "Generated")):
                if not e.startswith("RectSrc."):
                    os.symlink(os.path.join(real, "EG", "Generated", e), os.path.join(gen_dir, "lib", "EG", "Generated", e))
            gsrc = os.path.join(gen_dir, "src", "EG", "Generated", "RectSrc.lean")
            open(gsrc, "w").write(files["RectSrc.lean"])
            env = dict(os.environ, LEAN_PATH=lean_path)
            rc1, out1 = run(["lean", "EG/Generated/RectSrc.lean", "-o", os.path.join(gen_dir, "lib", "EG", "Generated", "RectSrc.olean"),
                             "-i", os.path.join(gen_dir, "lib", "EG", "Generated", "RectSrc.ilean")], env=env, cwd=os.path.join(gen_dir, "src"))
            failed = "failed" in info
            broken = set()
            if rc1 != 0:
                broken.add("(generated file does not compile: " + out1.strip().splitlines()[0][:160] + ")")
            else:
                env2 = dict(os.environ, LEAN_PATH=os.path.join(gen_dir, "lib") + ":" + lean_path)
                for (pf, ths) in ((PROPS, theorems), (PROPS_POINTS, theorems_points)):
                    rc2, out2 = run(["lean", pf], env=env2, cwd=LEAN)
                    for m in re.finditer(r":(\d+):\d+: error", out2):
                        ln = int(m.group(1))
                        nm = None
                        for (n, l) in ths:
                            if l <= ln:
                                nm = n
                        broken.add(nm or f"{os.path.basename(pf)} line {ln}")
            if kind == "mutation":
                ok = (not failed) and all(e in broken for e in expect)
            elif kind == "seed":
                ok = len(broken) > 0        # caught: a theorem broke (or the translator refused, which breaks all)
            elif kind == "harmless":
                ok = (not failed) and not broken
            else:
                ok = failed and len(broken) > 0
            bad += 0 if ok else 1
            print(f"[{kind}] {name}")
            if failed:
                print(f"      translator: translationFailed = {info['failed']}")
            print(f"      theorems that no longer build: {len(broken)}" + (": " + ", ".join(sorted(broken)[:8]) + (" ..." if len(broken) > 8 else "") if broken else " (all proofs survive)"))
            print(f"      {'as recorded' if ok else 'NOT AS RECORDED (expected ' + (', '.join(expect) if expect else kind) + ')'}")
    finally:
        run(["git", "-C", REPO, "worktree", "remove", "--force", scratch])
        shutil.rmtree(tmp, ignore_errors=True)
    print("demo:", "all cases as recorded" if bad == 0 else f"{bad} case(s) differ")
    return 0 if bad == 0 else 1


if __name__ == "__main__":
    sys.exit(main())
