#!/usr/bin/env python3
"""text_translator_demo.py — re-runs the demonstration of the SOURCE TRANSLATOR tie for the TEXT code (tools/tr_textsrc.py).

    python3 tools/tests/text_translator_demo.py            # all cases, exit 0 iff every case behaves as recorded
    python3 tools/tests/text_translator_demo.py --seeds    # instead: every seeded change under seeded/ that touches a
                                                           # translated file (patch.diff), expected to break a theorem

For each case a small edit is applied to the Rust text of a SCRATCH COPY of /repo (a detached git worktree at
/tmp/vw/textgen-repo, removed at the end; /repo itself is never touched), the translator regenerates `TextSrc.lean`
from it, and the equivalence theorems of lean/EG/Props/C15/Generated.lean, lean/EG/Props/C14/Generated.lean and
lean/EG/Props/C15/GeneratedDraw.lean are re-checked against the regenerated file. Nothing inside the verif tree is
written: the regenerated file and its .olean live in a temp directory that is put in front of LEAN_PATH (requires an
up-to-date `lake build` of the three files, which the script runs first).

  kind `mutation`  a semantic change: the listed `_src_eq_model` theorem(s) must STOP building
  kind `harmless`  a rewrite that keeps the meaning (renamed local, reordered independent statements, ...): every
                   theorem must still build
  kind `unknown`   a construct outside the translator's Rust subset: the translator must say so
                   (`translationFailed`), and the theorems must stop building (no silent skipping)
  kind `seed`      (--seeds) a seeded change of seeded/*/patch.diff touching a translated file: caught = a theorem
                   breaks; a seed that only changes code the prelude binds (NOT regenerated: `draw_string_binary`,
                   `line_elements`, `StrGlyphMapping::chars`, src/mono_font/draw_target.rs) is listed as out of reach
"""
import os
import re
import shutil
import subprocess
import sys
import tempfile

V = os.path.dirname(os.path.dirname(os.path.dirname(os.path.abspath(__file__))))
sys.path.insert(0, os.path.join(V, "tools"))
import tr_textsrc  # noqa: E402

REPO = os.environ.get("EG_REPO", "/repo")
LEAN = os.path.join(V, "lean")
PROPS_FILES = [os.path.join(LEAN, "EG", "Props", "C15", "Generated.lean"),
               os.path.join(LEAN, "EG", "Props", "C14", "Generated.lean"),
               os.path.join(LEAN, "EG", "Props", "C15", "GeneratedDraw.lean")]
PROPS_MODULES = ["EG.Props.C15.Generated", "EG.Props.C14.Generated", "EG.Props.C15.GeneratedDraw"]
SCRATCH = os.environ.get("TEXTGEN_SCRATCH", "/tmp/vw/textgen-repo")
TEXT = "src/text/text.rs"
TMOD = "src/text/mod.rs"
MTS = "src/mono_font/mono_text_style.rs"
MF = "src/mono_font/mod.rs"
MAP = "src/mono_font/mapping.rs"

# (name, kind, file, old text, new text, theorems expected to break (subset check) )
CASES = [
    ("to_absolute: `/ 100` -> `/ 10`", "mutation", TMOD,
     "Self::Percent(percent) => base_line_height * percent / 100,",
     "Self::Percent(percent) => base_line_height * percent / 10,",
     ["LineHeight_to_absolute_src_eq_model"]),
    ("effective_color: `TextColor` gives no colour", "mutation", TMOD,
     "DecorationColor::TextColor => text_color,",
     "DecorationColor::TextColor => None,",
     ["effective_color_src_eq_model"]),
    ("lines: right alignment subtracts the full advance (`Point::new(1, 0)` -> `Point::new(0, 0)`)", "mutation", TEXT,
     "position - (metrics.next_position - Point::new(1, 0))\n                }\n                Alignment::Center",
     "position - (metrics.next_position - Point::new(0, 0))\n                }\n                Alignment::Center",
     ["Text_lines_unfold"]),
    ("lines: the line height is added twice", "mutation", TEXT,
     "position.y += self.line_height();",
     "position.y += self.line_height() + self.line_height();",
     ["Text_lines_unfold"]),
    ("lines: `\\r` is not stripped any more (strip_suffix of `\\n`)", "mutation", TEXT,
     "line.strip_suffix('\\r')", "line.strip_suffix('\\n')",
     ["Text_lines_unfold"]),
    ("line_height: `saturating_as` dropped for a wrapping cast", "mutation", TEXT,
     "            .to_absolute(self.character_style.line_height())\n            .saturating_as::<i32>()",
     "            .to_absolute(self.character_style.line_height()) as i32",
     ["Text_line_height_src_eq_model"]),
    ("update_min_max: `max.x` takes the minimum", "mutation", TEXT,
     "max.x = max.x.max(bottom_right.x);", "max.x = max.x.min(bottom_right.x);",
     ["update_min_max_src_eq_model"]),
    ("bounding_box: the empty box sits at the origin", "mutation", TEXT,
     "Rectangle::new(self.position, Size::zero())", "Rectangle::new(Point::zero(), Size::zero())",
     ["Text_bounding_box_src_eq_model"]),
    ("draw: the returned position starts at the origin", "mutation", TEXT,
     "let mut next_position = self.position;", "let mut next_position = Point::zero();",
     ["Text_draw_unfold"]),
    ("measure_string: the trailing spacing is not removed", "mutation", MTS,
     "            * (self.font.character_size.width + self.font.character_spacing))\n            .saturating_sub(self.font.character_spacing);",
     "            * (self.font.character_size.width + self.font.character_spacing))\n            .saturating_sub(0);",
     ["measure_string_src_eq_model"]),
    ("measure_string: underline box height `max` -> `min`", "mutation", MTS,
     "                .max(self.font.character_size.height)", "                .min(self.font.character_size.height)",
     ["measure_string_src_eq_model"]),
    ("baseline_offset: Middle divides by 3", "mutation", MTS,
     "(self.font.character_size.height.saturating_sub(1) / 2).saturating_as()",
     "(self.font.character_size.height.saturating_sub(1) / 3).saturating_as()",
     ["baseline_offset_src_eq_model"]),
    ("draw_string: decorations also for an empty advance (`>` -> `>=`)", "mutation", MTS,
     "if next.x > position.x {", "if next.x >= position.x {",
     ["draw_string_src_eq_model"]),
    ("draw_string: transparent arm forgets the spacing", "mutation", MTS,
     "let dx = (self.font.character_size.width + self.font.character_spacing)\n                    * text.chars().count() as u32;",
     "let dx = (self.font.character_size.width)\n                    * text.chars().count() as u32;",
     ["draw_string_src_eq_model"]),
    ("draw_whitespace: nothing drawn for width 1", "mutation", MTS,
     "if width != 0 {", "if width > 1 {",
     ["draw_whitespace_src_eq_model"]),
    ("draw_decorations: the strikethrough uses the underline's dimensions", "mutation", MTS,
     "let rect = self.font.strikethrough.get_bounding_box(position, width);",
     "let rect = self.font.underline.get_bounding_box(position, width);",
     ["draw_decorations_src_eq_model"]),
    ("get_bounding_box: offset one pixel lower", "mutation", MF,
     "let top_left = position + Size::new(0, self.offset);", "let top_left = position + Size::new(0, self.offset + 1);",
     ["get_bounding_box_src_eq_model"]),
    ("glyph: row computed with one more glyph per row", "mutation", MF,
     "let row = glyph_index / glyphs_per_row;", "let row = glyph_index / (glyphs_per_row + 1);",
     ["glyph_src_eq_model"]),
    ("glyph: x and y of the cell swapped", "mutation", MF,
     "Point::new(char_x as i32, char_y as i32),", "Point::new(char_y as i32, char_x as i32),",
     ["glyph_src_eq_model"]),
    ("index: unmapped characters get glyph 0 instead of the replacement", "mutation", MAP,
     ".unwrap_or(self.replacement_index)", ".unwrap_or(0)",
     ["index_src_eq_model"]),
    ("chars: a range decodes to its start only (`start..=start`)", "mutation", MAP,
     "                    start..=end\n                }\n                c => c..=c,\n            };\n\n            Some(range)\n        })\n        .flatten()",
     "                    start..=start\n                }\n                c => c..=c,\n            };\n\n            Some(range)\n        })\n        .flatten()",
     ["chars_unfold"]),
    ("chars: `\\0` is no longer the range marker (`\\r` instead)", "mutation", MAP,
     "            let range = match chars.next()? {\n                '\\0' => {\n                    let start = chars.next()?;\n                    let end = chars.next()?;\n\n                    start..=end",
     "            let range = match chars.next()? {\n                '\\r' => {\n                    let start = chars.next()?;\n                    let end = chars.next()?;\n\n                    start..=end",
     ["chars_unfold"]),
    ("contains: `any` with `!=`", "mutation", MAP,
     "self.chars().any(|v| v == c)", "self.chars().any(|v| v != c)",
     ["contains_src_eq_model"]),
    ("line_elements: the spacing step advances by the character width", "mutation", MTS,
     "                let p = position;\n                position.x += spacing_width;",
     "                let p = position;\n                position.x += char_width;",
     ["line_elements_step"]),
    ("line_elements: a spacing element after the last character too", "mutation", MTS,
     "add_spacing = next_char.is_some();", "add_spacing = true;",
     ["line_elements_step"]),
    ("draw_string_binary: the gap between characters is filled with `On`", "mutation", MTS,
     "                            BinaryColor::Off,\n                        )?;", "                            BinaryColor::On,\n                        )?;",
     ["draw_string_binary_unfold"]),
    ("draw_string_binary: `Done` returns the start position", "mutation", MTS,
     "LineElement::Done => return Ok(p),", "LineElement::Done => return Ok(position),",
     ["draw_string_binary_unfold"]),
    ("draw_string_binary: glyphs right of x = 100 are skipped (a guard on the `Char` arm, not followed by the same pattern)", "unknown", MTS,
     "                LineElement::Char(c) => {\n", "                LineElement::Char(_) if p.x > 100 => {}\n                LineElement::Char(c) => {\n",
     []),
    ("translate: moves the other way", "mutation", TEXT,
     "            position: self.position + by,\n            ..self.clone()", "            position: self.position - by,\n            ..self.clone()",
     ["Text_translate_src_eq_model"]),
    ("draw_string_binary: local `glyph` renamed", "harmless", MTS,
     "                    let glyph = self.font.glyph(c);\n                    Image::new(&glyph, p).draw(&mut target)?;",
     "                    let g = self.font.glyph(c);\n                    Image::new(&g, p).draw(&mut target)?;", []),
    ("measure_string: local `bb_width` renamed", "harmless", MTS,
     "        let bb_width = (text.chars().count() as u32", "        let w = (text.chars().count() as u32", []),
    ("measure_string: (second half of the rename)", "skip", MTS, "", "", []),
    ("update_min_max: the two independent assignments to `min` reordered", "harmless", TEXT,
     "            min.x = min.x.min(metrics.bounding_box.top_left.x);\n            min.y = min.y.min(metrics.bounding_box.top_left.y);\n",
     "            min.y = min.y.min(metrics.bounding_box.top_left.y);\n            min.x = min.x.min(metrics.bounding_box.top_left.x);\n",
     []),
    ("draw_string: the local `width` inlined into the call", "harmless", MTS,
     "            let width = (next.x - position.x) as u32;\n            self.draw_decorations(width, position, target)?;",
     "            self.draw_decorations((next.x - position.x) as u32, position, target)?;",
     []),
    ("glyph: the independent lets `char_x` / `char_y` reordered", "harmless", MF,
     "        let char_x = (glyph_index - (row * glyphs_per_row)) * self.character_size.width;\n        let char_y = row * self.character_size.height;\n",
     "        let char_y = row * self.character_size.height;\n        let char_x = (glyph_index - (row * glyphs_per_row)) * self.character_size.width;\n",
     []),
    ("index: closure binding renamed", "harmless", MAP,
     ".find(|(_, v)| c == *v)", ".find(|(_, ch)| c == *ch)", []),
    ("baseline_offset: the `Top` arm moved to the end of the match", "harmless", MTS,
     "            Baseline::Top => 0,\n            Baseline::Bottom => self",
     "            Baseline::Bottom => self", []),
    ("draw: `next_position` renamed, `Ok(..)` of a block", "harmless", TEXT,
     "        Ok(next_position)\n", "        Ok({ next_position })\n", []),
    ("lines: local `metrics` renamed in the Right arm", "harmless", TEXT,
     "                Alignment::Right => {\n                    let metrics = self.character_style.measure_string(",
     "                Alignment::Right => {\n                    let m = self.character_style.measure_string(", []),
    ("measure_string: a method the prelude does not know (`str::len`)", "unknown", MTS,
     "        let bb_size = Size::new(bb_width, bb_height);", "        let _n = text.len();\n        let bb_size = Size::new(bb_width, bb_height);", []),
    ("lines: a `while` loop (outside the Rust subset)", "unknown", TEXT,
     "        let mut position = self.position;\n\n        self.text.split", "        let mut position = self.position;\n        while false {}\n\n        self.text.split", []),
    ("draw_string: a draw-target method that is not bound (`clear`)", "unknown", MTS,
     "        if next.x > position.x {", "        target.clear(self.text_color.unwrap())?;\n        if next.x > position.x {", []),
]
# edits that need a second replacement in the same file: (case name) -> [(old, new)]
EXTRA = {
    "lines: local `metrics` renamed in the Right arm": [
        ("position - (metrics.next_position - Point::new(1, 0))\n                }\n                Alignment::Center",
         "position - (m.next_position - Point::new(1, 0))\n                }\n                Alignment::Center")],
    "measure_string: local `bb_width` renamed": [("        let bb_size = Size::new(bb_width, bb_height);", "        let bb_size = Size::new(w, bb_height);")],
    "baseline_offset: the `Top` arm moved to the end of the match": [
        ("            Baseline::Alphabetic => self.font.baseline.saturating_as(),\n", "            Baseline::Alphabetic => self.font.baseline.saturating_as(),\n            Baseline::Top => 0,\n")],
}
CASES = [c for c in CASES if c[1] != "skip"]


def run(cmd, **kw):
    p = subprocess.run(cmd, stdout=subprocess.PIPE, stderr=subprocess.STDOUT, text=True, **kw)
    return p.returncode, p.stdout


def list_theorems(path):
    out = []
    for i, line in enumerate(open(path).read().splitlines(), 1):
        m = re.match(r"\s*theorem\s+(\S+)", line)
        if m:
            out.append((m.group(1), i))
    return out


def seed_cases():
    out = []
    sd = os.path.join(V, "seeded")
    for d in sorted(os.listdir(sd)):
        pf = os.path.join(sd, d, "patch.diff")
        if not os.path.exists(pf):
            continue
        txt = open(pf).read()
        if any(("+++ b/" + rel) in txt for rel in tr_textsrc.FILES.values()):
            out.append((f"seeded change {d}", "seed", pf, None, None, []))
    return out


def main():
    only = sys.argv[1:]
    cases = CASES
    if only and only[0] == "--seeds":
        only = only[1:]
        cases = seed_cases()
    rc, out = run(["lake", "build"] + PROPS_MODULES, cwd=LEAN)
    if rc != 0:
        print("the unchanged tree does not build the Generated theorems of C14 / C15:\n" + out[-2000:])
        return 2
    rc, lean_path = run(["lake", "env", "printenv", "LEAN_PATH"], cwd=LEAN)
    lean_path = lean_path.strip().splitlines()[-1]
    tmp = tempfile.mkdtemp(prefix="textdemo-")
    scratch = SCRATCH
    if os.path.exists(scratch):
        run(["git", "-C", REPO, "worktree", "remove", "--force", scratch])
        shutil.rmtree(scratch, ignore_errors=True)
        run(["git", "-C", REPO, "worktree", "prune"])
    rc, out = run(["git", "-C", REPO, "worktree", "add", "--detach", scratch, "HEAD"])
    if rc != 0:
        print("cannot create the scratch worktree:", out)
        return 2
    theorem_lists = [(pf, list_theorems(pf)) for pf in PROPS_FILES]
    bad = 0
    try:
        # baseline: the scratch copy translates to exactly the committed generated file
        files, info = tr_textsrc.generate(scratch)
        cur = open(os.path.join(LEAN, "EG", "Generated", "TextSrc.lean")).read()
        print(f"baseline: {info.get('functions')} functions translated; identical to lean/EG/Generated/TextSrc.lean: {files['TextSrc.lean'] == cur}")
        for idx, (name, kind, rel, old, new, expect) in enumerate(cases):
            if only and not any(o in name for o in only):
                continue
            run(["git", "-C", scratch, "checkout", "-q", "--", "."])
            if kind == "seed":
                rca, outa = run(["git", "-C", scratch, "apply", rel])
                if rca != 0:
                    print(f"[{kind}] {name}: CANNOT APPLY the patch to /repo's HEAD ({outa.strip()[:120]})")
                    bad += 1
                    continue
            else:
                path = os.path.join(scratch, rel)
                src = open(path).read()
                if src.count(old) != 1:
                    print(f"[{kind}] {name}: CANNOT APPLY (the text to replace occurs {src.count(old)} times): demo out of date")
                    bad += 1
                    continue
                src = src.replace(old, new)
                for (o2, n2) in EXTRA.get(name, []):
                    if src.count(o2) != 1:
                        print(f"[{kind}] {name}: CANNOT APPLY the second edit: demo out of date")
                        bad += 1
                    src = src.replace(o2, n2)
                open(path, "w").write(src)
            files, info = tr_textsrc.generate(scratch)
            gen_dir = os.path.join(tmp, f"case{idx}")
            os.makedirs(os.path.join(gen_dir, "src", "EG", "Generated"))
            # overlay of the project's build output: everything symlinked except EG/Generated/TextSrc.*
            real = [d for d in lean_path.split(":") if os.path.isdir(os.path.join(d, "EG"))][0]
            os.makedirs(os.path.join(gen_dir, "lib", "EG", "Generated"))
            for e in os.listdir(os.path.join(real, "EG")):
                if e != "Generated":
                    os.symlink(os.path.join(real, "EG", e), os.path.join(gen_dir, "lib", "EG", e))
            for e in os.listdir(os.path.join(real, "EG", "Generated")):
                if not e.startswith("TextSrc."):
                    os.symlink(os.path.join(real, "EG", "Generated", e), os.path.join(gen_dir, "lib", "EG", "Generated", e))
            gsrc = os.path.join(gen_dir, "src", "EG", "Generated", "TextSrc.lean")
            open(gsrc, "w").write(files["TextSrc.lean"])
            env = dict(os.environ, LEAN_PATH=lean_path)
            rc1, out1 = run(["lean", "EG/Generated/TextSrc.lean", "-o", os.path.join(gen_dir, "lib", "EG", "Generated", "TextSrc.olean"),
                             "-i", os.path.join(gen_dir, "lib", "EG", "Generated", "TextSrc.ilean")], env=env, cwd=os.path.join(gen_dir, "src"))
            failed = "failed" in info
            broken = set()
            if rc1 != 0:
                broken.add("(generated file does not compile: " + out1.strip().splitlines()[0][:160] + ")")
            else:
                env2 = dict(os.environ, LEAN_PATH=os.path.join(gen_dir, "lib") + ":" + lean_path)
                for (pf, ths) in theorem_lists:
                    rc2, out2 = run(["lean", pf], env=env2, cwd=LEAN)
                    for m in re.finditer(r":(\d+):\d+: error", out2):
                        ln = int(m.group(1))
                        nm = None
                        for (n, l) in ths:
                            if l <= ln:
                                nm = n
                        broken.add(nm or f"{os.path.basename(pf)} line {ln}")
            if kind == "mutation":
                ok = (not failed) and all(e in broken for e in expect)
            elif kind == "seed":
                ok = len(broken) > 0        # caught: a theorem broke (or the translator refused, which breaks all)
            elif kind == "harmless":
                ok = (not failed) and not broken
            else:
                ok = failed and len(broken) > 0
            bad += 0 if ok else 1
            print(f"[{kind}] {name}")
            if failed:
                print(f"      translator: translationFailed = {info['failed']}")
            print(f"      theorems that no longer build: {len(broken)}" + (": " + ", ".join(sorted(broken)[:8]) + (" ..." if len(broken) > 8 else "") if broken else " (all proofs survive)"))
            print(f"      {'as recorded' if ok else 'NOT AS RECORDED (expected ' + (', '.join(expect) if expect else kind) + ')'}")
    finally:
        run(["git", "-C", REPO, "worktree", "remove", "--force", scratch])
        shutil.rmtree(tmp, ignore_errors=True)
    print("demo:", "all cases as recorded" if bad == 0 else f"{bad} case(s) differ")
    return 0 if bad == 0 else 1


if __name__ == "__main__":
    sys.exit(main())
