#!/usr/bin/env python3
"""rrect_translator_demo.py — re-runs the demonstration of the SOURCE TRANSLATOR tie for the rounded rectangle
(tools/tr_rrect.py).

    python3 tools/tests/rrect_translator_demo.py            # all cases, exit 0 iff every case behaves as recorded
    python3 tools/tests/rrect_translator_demo.py --seeds    # instead: every seeded change under seeded/ that touches a
                                                            # translated file (patch.diff), expected to break a theorem

For each case a small edit is applied to the Rust text of a SCRATCH COPY of /repo's `src` and `core/src` (under
/tmp/vw/rrectgen-repo, removed at the end; /repo itself is never touched), the translator regenerates `RRectSrc.lean`
from it, and the equivalence theorems of lean/EG/Props/C18/GeneratedRRect.lean and lean/EG/Props/C05/GeneratedRRect.lean
are re-checked against the regenerated file. Nothing inside the verif tree is written: the regenerated file and the
.olean files live in a temp directory that is put in front of LEAN_PATH (requires an up-to-date
`lake build EG.Props.C05.GeneratedRRect`, which the script runs first). The C05 file imports the C18 file: it is
re-checked only when the C18 file still builds against the regenerated text (else the C18 errors are the result).

  kind `mutation`  a semantic change: the listed `_src_eq_model` theorem(s) must STOP building
  kind `harmless`  a rewrite that keeps the meaning (renamed local, reordered independent lets, ...): every
                   theorem must still build
  kind `unknown`   a construct outside the translator's Rust subset: the translator must say so
                   (`translationFailed`), and the theorems must stop building (no silent skipping)
"""
import os
import re
import shutil
import subprocess
import sys
import tempfile

V = os.path.dirname(os.path.dirname(os.path.dirname(os.path.abspath(__file__))))
sys.path.insert(0, os.path.join(V, "tools"))
import tr_rect   # noqa: E402
import tr_rrect  # noqa: E402

REPO = os.environ.get("EG_REPO", "/repo")
LEAN = os.path.join(V, "lean")
PROPS18 = os.path.join(LEAN, "EG", "Props", "C18", "GeneratedRRect.lean")
PROPS05 = os.path.join(LEAN, "EG", "Props", "C05", "GeneratedRRect.lean")
SCRATCH = "/tmp/vw/rrectgen-repo"
CR = "src/primitives/rounded_rectangle/corner_radii.rs"
MOD = "src/primitives/rounded_rectangle/mod.rs"
EQ = "src/primitives/rounded_rectangle/ellipse_quadrant.rs"
PTS = "src/primitives/rounded_rectangle/points.rs"
ELL = "src/primitives/ellipse/mod.rs"

# (name, kind, file, old text, new text, theorems expected to break (subset check))
CASES = [
    ("confine: the scale factor starts at 1 / 2 (`corner_size = 2u64`)", "mutation", CR,
     "let mut corner_size = 1u64;", "let mut corner_size = 2u64;", ["CornerRadii_confine_src_eq_model"]),
    ("confine: the right side sums top_right and bottom_LEFT heights", "mutation", CR,
     "u64::from(self.top_right.height) + u64::from(self.bottom_right.height)",
     "u64::from(self.top_right.height) + u64::from(self.bottom_left.height)", ["CornerRadii_confine_src_eq_model"]),
    ("confine: the loop keeps the LEAST constraining side (`<` -> `>`)", "mutation", CR,
     "                < u128::from(size) * u128::from(side_corner_size)",
     "                > u128::from(size) * u128::from(side_corner_size)", ["CornerRadii_confine_src_eq_model"]),
    ("confine: scale_length multiplies by corner_size / size (inverted factor)", "mutation", CR,
     "(u64::from(length) * u64::from(size) / corner_size) as u32",
     "(u64::from(length) * corner_size / u64::from(size)) as u32", ["CornerRadii_confine_src_eq_model"]),
    ("confine: the bottom_left corner is not scaled", "mutation", CR,
     "                bottom_left: scale(self.bottom_left),", "                bottom_left: self.bottom_left,",
     ["CornerRadii_confine_src_eq_model"]),
    ("CornerRadiiBuilder::top sets top_left and bottom_right", "mutation", CR,
     "        self.corners.top_left = radius;\n        self.corners.top_right = radius;\n",
     "        self.corners.top_left = radius;\n        self.corners.bottom_right = radius;\n",
     ["CornerRadiiBuilder_top_src_closed_form"]),
    ("EllipseQuadrant::new: the TopRight ellipse is moved up instead of left", "mutation", EQ,
     "Quadrant::TopRight => top_left - radius.x_axis(),", "Quadrant::TopRight => top_left - radius.y_axis(),",
     ["EllipseQuadrant_new_src_eq_model"]),
    ("EllipseQuadrant::contains: `point * 2 + center_2x`", "mutation", EQ,
     "self.ellipse.contains(point * 2 - self.center_2x)", "self.ellipse.contains(point * 2 + self.center_2x)",
     ["EllipseQuadrant_contains_src_eq_model"]),
    ("center_2x (ellipse/mod.rs): `size - (2, 2)`", "mutation", ELL,
     "let radius = size.saturating_sub(Size::new(1, 1));\n\n    top_left * 2 + radius",
     "let radius = size.saturating_sub(Size::new(2, 2));\n\n    top_left * 2 + radius", ["center_2x_src_eq_model"]),
    ("get_confined_corner_quadrant: BottomRight placed with the bottom_left radius", "mutation", MOD,
     "top_left + size - corners.bottom_right,", "top_left + size - corners.bottom_left,",
     ["get_confined_corner_quadrant_src_eq_model"]),
    ("get_confined_corner_quadrant: the radii are not confined", "mutation", MOD,
     "        let corners = corners.confine(size);\n", "        let corners = *corners;\n",
     ["get_confined_corner_quadrant_src_eq_model"]),
    ("offset: a positive offset shrinks the bottom_left radius", "mutation", MOD,
     "bottom_left: self.corners.bottom_left.saturating_add(corner_offset),",
     "bottom_left: self.corners.bottom_left.saturating_sub(corner_offset),", ["RoundedRectangle_offset_src_eq_model"]),
    ("RoundedRectangleContains::new: straight_rows_left starts below the top RIGHT corner", "mutation", MOD,
     "let straight_rows_left = (rows.start + top_left.bounding_box().size.height as i32)",
     "let straight_rows_left = (rows.start + top_right.bounding_box().size.height as i32)",
     ["RoundedRectangleContains_new_src_eq_model"]),
    ("contains: the left corner also tests its first column outside (`<` -> `<=`)", "mutation", MOD,
     ".filter(|corner| point.x < corner.bounding_box().columns().end);",
     ".filter(|corner| point.x <= corner.bounding_box().columns().end);",
     ["RoundedRectangleContains_contains_src_eq_model"]),
    ("contains: only the left corner is tested (`chain(right_corner)` dropped)", "mutation", MOD,
     "            .into_iter()\n            .chain(right_corner)\n            .all(", "            .into_iter()\n            .all(",
     ["RoundedRectangleContains_contains_src_eq_model"]),
    ("Scanlines::next: an empty corner row starts at the corner box's first column", "mutation", PTS,
     ".unwrap_or(corner_columns.end)", ".unwrap_or(corner_columns.start)", ["RRectScanlines_next_src_eq_model"]),
    ("Scanlines::next: the row ends AT the last inside column (`.map(|x| x + 1)` dropped)", "mutation", PTS,
     "                .map(|x| x + 1)\n", "", ["RRectScanlines_next_src_eq_model"]),
    ("PointsIter::points: iterates over the shape grown by one pixel", "mutation", MOD,
     "        Points::new(self)\n", "        Points::new(&self.offset(1))\n", ["PointsIter_points_src_eq_model"]),
    ("Points::next: an empty scanline ends the iteration (the first `next` of a new scanline is returned as it is)", "mutation", PTS,
     "            self.current_scanline = self.scanlines.next()?;\n",
     "            self.current_scanline = self.scanlines.next()?;\n            let first = self.current_scanline.next();\n            return first;\n",
     ["RRectPoints_next_fuel_src_eq_model"]),
    ("Points: an override of `Iterator::size_hint` added (no translated body changes)", "mutation", PTS,
     "            self.current_scanline = self.scanlines.next()?;\n        }\n    }\n}\n",
     "            self.current_scanline = self.scanlines.next()?;\n        }\n    }\n\n    fn size_hint(&self) -> (usize, Option<usize>) {\n        (0, None)\n    }\n}\n",
     ["rrect_untranslated_pinned"]),
    ("confine: the closure `scale` renamed to `sc`", "harmless", CR,
     None, None, []),
    ("confine: the two independent `let mut`s reordered", "harmless", CR,
     "        let mut size = 1u32;\n        let mut corner_size = 1u64;\n",
     "        let mut corner_size = 1u64;\n        let mut size = 1u32;\n", []),
    ("get_confined_corner_quadrant: the `let Self { .. } = self` pattern written as two field lets", "harmless", MOD,
     "        let Self {\n            rectangle, corners, ..\n        } = self;\n",
     "        let rectangle = &self.rectangle;\n        let corners = &self.corners;\n", []),
    ("contains: closure parameter of `all` renamed", "harmless", MOD,
     ".all(|corner| corner.contains(point))", ".all(|c| c.contains(point))", []),
    ("ContainsPoint::contains: the local inlined into the call", "harmless", MOD,
     "        let rounded_rectangle_contains = RoundedRectangleContains::new(self);\n        rounded_rectangle_contains.contains(point)\n",
     "        RoundedRectangleContains::new(self).contains(point)\n", []),
    ("EllipseQuadrant::new: `radius * 2` bound to a local used twice", "harmless", EQ,
     "        Self {\n            bounding_box: Rectangle::new(top_left, radius),\n            center_2x: ellipse::center_2x(ellipse_top_left, radius * 2),\n            ellipse: EllipseContains::new(radius * 2),",
     "        let diameter = radius * 2;\n\n        Self {\n            bounding_box: Rectangle::new(top_left, radius),\n            center_2x: ellipse::center_2x(ellipse_top_left, diameter),\n            ellipse: EllipseContains::new(diameter),",
     []),
    ("Points::next: `if let` written as a `match`", "harmless", PTS,
     "            if let Some(point) = self.current_scanline.next() {\n                return Some(point);\n            }\n",
     "            match self.current_scanline.next() {\n                Some(point) => {\n                    return Some(point);\n                }\n                None => (),\n            }\n",
     []),
    ("confine: a `while` loop over a local (outside the Rust subset)", "unknown", CR,
     "        if u64::from(size) < corner_size {\n            let scale",
     "        while size > 1000 {\n            size = size / 2;\n        }\n        if u64::from(size) < corner_size {\n            let scale", []),
    ("offset: a method the prelude does not know (`wrapping_neg`)", "unknown", MOD,
     "let corner_offset = Size::new_equal((-offset) as u32);", "let corner_offset = Size::new_equal(offset.wrapping_neg() as u32);", []),
]


def run(cmd, **kw):
    p = subprocess.run(cmd, stdout=subprocess.PIPE, stderr=subprocess.STDOUT, text=True, **kw)
    return p.returncode, p.stdout


def list_theorems(path):
    """(name, first line) of every theorem / example; the first line is that of its doc comment when it has one (Lean
    reports some errors at the start of the whole declaration)"""
    out = []
    doc = None
    for i, line in enumerate(open(path).read().splitlines(), 1):
        if line.startswith("/--"):
            doc = i
        m = re.match(r"(?:theorem|example)\s*(\S*)", line)
        if m:
            out.append((m.group(1) if line.startswith("theorem") else f"example at line {i}", doc or i))
            doc = None
        elif line and not line.startswith(" ") and not line.startswith("/--") and doc is not None and doc != i and "-/" in line:
            pass
        elif re.match(r"(def|instance|abbrev|namespace|end|open|@\[)", line):
            doc = None
    return out


def seed_cases():
    out = []
    sd = os.path.join(V, "seeded")
    # the four rounded rectangle files; src/primitives/ellipse/mod.rs only when the patch touches the free `center_2x`
    # (the one function this part regenerates from it: `EllipseContains` belongs to the circle / ellipse part)
    rels = [r for k, r in tr_rrect.FILES.items() if k not in ("scanline", "ellipse")]
    for d in sorted(os.listdir(sd)):
        pf = os.path.join(sd, d, "patch.diff")
        if not os.path.exists(pf):
            continue
        txt = open(pf).read()
        if any(("+++ b/" + rel) in txt for rel in rels) or \
                (("+++ b/" + tr_rrect.FILES["ellipse"]) in txt and "fn center_2x(top_left" in txt):
            out.append((f"seeded change {d}", "seed", pf, None, None, []))
    return out


def fresh_scratch():
    shutil.rmtree(SCRATCH, ignore_errors=True)
    for rel in sorted(set(tr_rect.FILES.values()) | set(tr_rrect.FILES.values())):
        dst = os.path.join(SCRATCH, rel)
        os.makedirs(os.path.dirname(dst), exist_ok=True)
        shutil.copy(os.path.join(REPO, rel), dst)


def overlay(gen_dir, real):
    """lib/EG = the project's build output, symlinked, except EG/Generated/RRectSrc.*, EG/Props/C18/GeneratedRRect.*"""
    lib = os.path.join(gen_dir, "lib", "EG")
    for sub in ("Generated", "Props", os.path.join("Props", "C18")):
        os.makedirs(os.path.join(lib, sub))
    def link_all(rel, skip_dirs, skip_prefix):
        for e in os.listdir(os.path.join(real, "EG", rel)):
            if e in skip_dirs or (skip_prefix and e.startswith(skip_prefix)):
                continue
            os.symlink(os.path.join(real, "EG", rel, e), os.path.join(lib, rel, e))
    link_all("", {"Generated", "Props"}, None)
    link_all("Generated", set(), "RRectSrc.")
    link_all("Props", {"C18"}, None)
    link_all(os.path.join("Props", "C18"), set(), "GeneratedRRect.")
    return lib


def errors_of(out, ths, fname):
    broken = set()
    for m in re.finditer(r":(\d+):\d+: error", out):
        ln = int(m.group(1))
        nm = None
        for (n, l) in ths:
            if l <= ln:
                nm = n
        broken.add(nm or f"{fname} line {ln}")
    return broken


def main():
    only = sys.argv[1:]
    cases = CASES
    if only and only[0] == "--seeds":
        only = only[1:]
        cases = seed_cases()
    rc, out = run(["lake", "build", "EG.Props.C05.GeneratedRRect"], cwd=LEAN)
    if rc != 0:
        print("the unchanged tree does not build EG.Props.C05.GeneratedRRect:\n" + out[-2000:])
        return 2
    rc, lean_path = run(["lake", "env", "printenv", "LEAN_PATH"], cwd=LEAN)
    lean_path = lean_path.strip().splitlines()[-1]
    real = [d for d in lean_path.split(":") if os.path.isdir(os.path.join(d, "EG"))][0]
    tmp = tempfile.mkdtemp(prefix="rrectdemo-")
    th18, th05 = list_theorems(PROPS18), list_theorems(PROPS05)
    bad = 0
    try:
        fresh_scratch()
        files, info = tr_rrect.generate(SCRATCH)
        cur = open(os.path.join(LEAN, "EG", "Generated", "RRectSrc.lean")).read()
        print(f"baseline: {info.get('functions')} functions translated; identical to lean/EG/Generated/RRectSrc.lean: {files['RRectSrc.lean'] == cur}")
        for idx, (name, kind, rel, old, new, expect) in enumerate(cases):
            if only and not any(o in name for o in only):
                continue
            fresh_scratch()
            if kind == "seed":
                rca, outa = run(["git", "apply", "--include=src/primitives/*", "--include=core/src/*", rel], cwd=SCRATCH)
                if rca != 0:
                    # patches that also touch files the scratch copy does not have: apply what exists
                    rca, outa = run(["patch", "-p1", "-f", "-i", rel], cwd=SCRATCH)
                    changed = any(open(os.path.join(SCRATCH, r)).read() != open(os.path.join(REPO, r)).read()
                                  for r in tr_rrect.FILES.values())
                    if not changed:
                        print(f"[{kind}] {name}: CANNOT APPLY the patch to the scratch copy ({outa.strip()[:120]})")
                        bad += 1
                        continue
            elif old is None:
                path = os.path.join(SCRATCH, rel)
                src = open(path).read()
                n = len(re.findall(r"\bscale\b", src))
                if n != 5:
                    print(f"[{kind}] {name}: CANNOT APPLY (`scale` occurs {n} times): demo out of date")
                    bad += 1
                    continue
                open(path, "w").write(re.sub(r"\bscale\b", "sc", src))
            else:
                path = os.path.join(SCRATCH, rel)
                src = open(path).read()
                if src.count(old) != 1:
                    print(f"[{kind}] {name}: CANNOT APPLY (the text to replace occurs {src.count(old)} times): demo out of date")
                    bad += 1
                    continue
                open(path, "w").write(src.replace(old, new))
            files, info = tr_rrect.generate(SCRATCH)
            gen_dir = os.path.join(tmp, f"case{idx}")
            lib = overlay(gen_dir, real)
            os.makedirs(os.path.join(gen_dir, "src", "EG", "Generated"))
            open(os.path.join(gen_dir, "src", "EG", "Generated", "RRectSrc.lean"), "w").write(files["RRectSrc.lean"])
            env = dict(os.environ, LEAN_PATH=lean_path)
            rc1, out1 = run(["lean", "EG/Generated/RRectSrc.lean", "-o", os.path.join(lib, "Generated", "RRectSrc.olean"),
                             "-i", os.path.join(lib, "Generated", "RRectSrc.ilean")], env=env, cwd=os.path.join(gen_dir, "src"))
            failed = "failed" in info
            broken = set()
            if rc1 != 0:
                broken.add("(generated file does not compile: " + out1.strip().splitlines()[0][:160] + ")")
            else:
                env2 = dict(os.environ, LEAN_PATH=os.path.join(gen_dir, "lib") + ":" + lean_path)
                rc2, out2 = run(["lean", PROPS18, "-o", os.path.join(lib, "Props", "C18", "GeneratedRRect.olean"),
                                 "-i", os.path.join(lib, "Props", "C18", "GeneratedRRect.ilean")], env=env2, cwd=LEAN)
                broken |= errors_of(out2, th18, "C18/GeneratedRRect.lean")
                if rc2 == 0 and not broken:
                    rc3, out3 = run(["lean", PROPS05], env=env2, cwd=LEAN)
                    broken |= errors_of(out3, th05, "C05/GeneratedRRect.lean")
                    if rc3 != 0 and not broken:
                        broken.add("(C05/GeneratedRRect.lean: " + out3.strip().splitlines()[0][:160] + ")")
                elif rc2 != 0 and not broken:
                    broken.add("(C18/GeneratedRRect.lean: " + out2.strip().splitlines()[0][:160] + ")")
            if kind == "mutation":
                ok = (not failed) and len(broken) > 0 and all(e in broken for e in expect)
            elif kind == "seed":
                ok = len(broken) > 0        # caught: a theorem broke (or the translator refused, which breaks all)
            elif kind == "harmless":
                ok = (not failed) and not broken
            else:
                ok = failed and len(broken) > 0
            bad += 0 if ok else 1
            print(f"[{kind}] {name}")
            if failed:
                print(f"      translator: translationFailed = {info['failed']}")
            print(f"      theorems that no longer build: {len(broken)}" + (": " + ", ".join(sorted(broken)[:8]) + (" ..." if len(broken) > 8 else "") if broken else " (all proofs survive)"))
            print(f"      {'as recorded' if ok else 'NOT AS RECORDED (expected ' + (', '.join(expect) if expect else kind) + ')'}")
    finally:
        shutil.rmtree(SCRATCH, ignore_errors=True)
        shutil.rmtree(tmp, ignore_errors=True)
    print("demo:", "all cases as recorded" if bad == 0 else f"{bad} case(s) differ")
    return 0 if bad == 0 else 1


if __name__ == "__main__":
    sys.exit(main())
