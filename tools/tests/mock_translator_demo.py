#!/usr/bin/env python3
"""mock_translator_demo.py — re-runs the demonstration of the SOURCE TRANSLATOR tie for MockDisplay (tools/tr_mocksrc.py).

    python3 tools/tests/mock_translator_demo.py            # all cases, exit 0 iff every case behaves as recorded
    python3 tools/tests/mock_translator_demo.py --seeds    # instead: every seeded change under seeded/ whose patch touches
                                                           # src/mock_display/, expected to break a theorem

For each case a small edit is applied to the Rust text of a SCRATCH COPY of /repo's src/mock_display (under
/tmp/vw/mockgen-repo-<pid>, removed at the end; /repo itself is never touched, not even its .git), the translator
regenerates `MockSrc.lean` from it, and the theorems of lean/EG/Props/C20/Generated.lean, GeneratedColors.lean,
GeneratedPattern.lean and GeneratedLaws.lean are re-checked against the regenerated file. Nothing inside the verif tree is
written: the regenerated file and its .olean live in a temp directory put in front of LEAN_PATH (requires an up-to-date
`lake build` of the four modules, which the script runs first). Each of the four files is checked on its own against the
regenerated definitions (the compiled theorems of the files it imports are about the unchanged text, so a theorem only
counts as broken where its own proof meets the changed definition).

  kind `mutation`  a semantic change: the listed theorem(s) must STOP building
  kind `harmless`  a rewrite that keeps the meaning: every theorem must still build
  kind `unknown`   a construct outside the translator's Rust subset: the translator must say so (`translationFailed`),
                   and the theorems must stop building (no silent skipping)
"""
import os
import re
import shutil
import subprocess
import sys
import tempfile

V = os.path.dirname(os.path.dirname(os.path.dirname(os.path.abspath(__file__))))
sys.path.insert(0, os.path.join(V, "tools"))
import tr_mocksrc  # noqa: E402

REPO = os.environ.get("EG_REPO", "/repo")
LEAN = os.path.join(V, "lean")
MODULES = ["Generated", "GeneratedColors", "GeneratedPattern", "GeneratedLaws"]
PROPS = [os.path.join(LEAN, "EG", "Props", "C20", m + ".lean") for m in MODULES]
PROPS = [p for p in PROPS if os.path.exists(p)]
MOD = tr_mocksrc.MOD
CM = tr_mocksrc.CM

# (name, kind, file, old text, new text, theorems expected to break (subset check))
CASES = [
    ("get_pixel: x and y exchanged in the index", "mutation", MOD,
     "self.pixels[x as usize + y as usize * SIZE]", "self.pixels[y as usize + x as usize * SIZE]",
     ["MockDisplay_get_pixel_src_eq_model"]),
    ("set_pixel: the assertion admits x = 64", "mutation", MOD,
     "point.x >= 0 && point.y >= 0 && point.x < SIZE as i32 && point.y < SIZE as i32",
     "point.x >= 0 && point.y >= 0 && point.x <= SIZE as i32 && point.y < SIZE as i32",
     ["MockDisplay_set_pixel_src_eq_model"]),
    ("set_pixel_unchecked: column-major index", "mutation", MOD,
     "fn set_pixel_unchecked(&mut self, point: Point, color: Option<C>) {\n        let i = point.x + point.y * SIZE as i32;",
     "fn set_pixel_unchecked(&mut self, point: Point, color: Option<C>) {\n        let i = point.y + point.x * SIZE as i32;",
     ["MockDisplay_set_pixel_unchecked_src_eq_model"]),
    ("draw_pixel: the out-of-bounds flag read inverted", "mutation", MOD,
     "if !self.allow_out_of_bounds_drawing {", "if self.allow_out_of_bounds_drawing {",
     ["MockDisplay_draw_pixel_src_eq_model"]),
    ("draw_pixel: the overdraw flag read inverted", "mutation", MOD,
     "if !self.allow_overdraw && self.get_pixel(point).is_some() {", "if self.allow_overdraw && self.get_pixel(point).is_some() {",
     ["MockDisplay_draw_pixel_src_eq_model"]),
    ("draw_pixel: the allowed out-of-bounds path falls through to the store", "mutation", MOD,
     "            } else {\n                return;\n            }\n", "            }\n",
     ["MockDisplay_draw_pixel_src_eq_model"]),
    ("draw_pixel: the message of the overdraw panic changed", "mutation", MOD,
     "tried to draw pixel twice (x: {}, y: {})", "tried to overdraw pixel (x: {}, y: {})",
     ["src_draw_pixel_panic_msg_twice"]),
    ("draw_iter: only the first pixel is drawn", "mutation", MOD,
     "for pixel in pixels.into_iter() {", "for pixel in pixels.into_iter().take(1) {",
     ["DrawTarget_draw_iter_src_eq_model"]),
    ("affected_area: the top left corner folds with `component_max`", "mutation", MOD,
     "tl.map(|tl| tl.component_min(point)).or(Some(point))", "tl.map(|tl| tl.component_max(point)).or(Some(point))",
     ["MockDisplay_affected_area_src_eq_model"]),
    ("diff: GREEN and RED exchanged", "mutation", MOD,
     "(Some(_), None) => Some(Rgb888::GREEN),\n                (None, Some(_)) => Some(Rgb888::RED),",
     "(Some(_), None) => Some(Rgb888::RED),\n                (None, Some(_)) => Some(Rgb888::GREEN),",
     ["MockDisplay_diff_src_eq_model"]),
    ("diff: the guard `s != o` dropped", "mutation", MOD,
     "(Some(s), Some(o)) if s != o => Some(Rgb888::BLUE),", "(Some(_s), Some(_o)) => Some(Rgb888::BLUE),",
     ["MockDisplay_diff_src_eq_model"]),
    ("eq: compares `self` with itself", "mutation", MOD,
     "self.pixels.iter().eq(other.pixels.iter())", "self.pixels.iter().eq(self.pixels.iter())",
     ["PartialEq_eq_src_eq_model"]),
    ("swap_xy: reads the same point", "mutation", MOD,
     "self.get_pixel(Point::new(point.y, point.x))", "self.get_pixel(Point::new(point.x, point.y))",
     ["MockDisplay_swap_xy_src_eq_model"]),
    ("default: overdraw allowed from the start", "mutation", MOD,
     "allow_overdraw: false,", "allow_overdraw: true,",
     ["Default_default_src_eq_model"]),
    ("set_allow_overdraw sets the other flag", "mutation", MOD,
     "self.allow_overdraw = value;", "self.allow_out_of_bounds_drawing = value;",
     ["MockDisplay_set_allow_overdraw_src_eq_model"]),
    ("SIZE = 32", "mutation", MOD,
     "const SIZE: usize = 64;", "const SIZE: usize = 32;",
     []),        # the generated file itself stops compiling: the array no longer has the 4096 cells of the model's display
    ("DrawTarget: a `clear` override added (no translated body changes)", "mutation", MOD,
     "        Ok(())\n    }\n}\n\nimpl<C> OriginDimensions for MockDisplay<C>",
     "        Ok(())\n    }\n\n    fn clear(&mut self, color: Self::Color) -> Result<(), Self::Error> {\n        self.set_pixel(Point::zero(), Some(color));\n        Ok(())\n    }\n}\n\nimpl<C> OriginDimensions for MockDisplay<C>",
     ["mock_untranslated_pinned"]),
    ("Debug: the trailing empty rows are counted from the top (`chunks` for `rchunks`)", "mutation", MOD,
     ".rchunks(SIZE)", ".chunks(SIZE)",
     ["Debug_fmt_src_eq_model"]),
    ("from_pattern: `_` instead of the blank stands for an untouched cell", "mutation", MOD,
     "' ' => None,", "'_' => None,",
     ["MockDisplay_from_pattern_src_eq_model"]),
    ("from_pattern: a pattern of width 64 is refused", "mutation", MOD,
     "pattern_width <= SIZE,", "pattern_width < SIZE,",
     ["MockDisplay_from_pattern_src_eq_model"]),
    ("from_pattern: the rows are cut to 32 cells", "mutation", MOD,
     "                    .chain(iter::repeat(None))\n                    .take(SIZE)", "                    .chain(iter::repeat(None))\n                    .take(32)",
     ["MockDisplay_from_pattern_src_eq_model"]),
    ("BinaryColor: `.` and `#` exchanged in char_to_color", "mutation", CM,
     "'.' => BinaryColor::Off,\n            '#' => BinaryColor::On,", "'#' => BinaryColor::Off,\n            '.' => BinaryColor::On,",
     ["BinaryColor_char_to_color_src_eq_model"]),
    ("Gray2: radix 8", "mutation", CM,
     "impl_gray_color_mapping!(Gray2, 4);", "impl_gray_color_mapping!(Gray2, 8);",
     ["Gray2_char_to_color_src_eq_model"]),
    ("Gray8: digit scaled by 0x10", "mutation", CM,
     "Self::new(digit as u8 * 0x11)", "Self::new(digit as u8 * 0x10)",
     ["Gray8_char_to_color_src_eq_model"]),
    ("Gray8 color_to_char: upper nibble shifted by 3", "mutation", CM,
     "let upper = luma >> 4;", "let upper = luma >> 3;",
     ["Gray8_color_to_char_src_eq_model"]),
    ("impl_rgb_color_mapping!: 'R' reads as GREEN", "mutation", CM,
     "'R' => Self::RED,", "'R' => Self::GREEN,",
     ["Rgb565_char_to_color_src_eq_model", "Bgr888_char_to_color_src_eq_model"]),
    ("impl_rgb_color_mapping!: BLACK prints as 'B'", "mutation", CM,
     "Self::BLACK => 'K',", "Self::BLACK => 'B',",
     ["Rgb565_color_to_char_src_eq_model", "Rgb332_color_to_char_src_eq_model"]),
    ("get_pixel: the fields of the struct pattern in the other order", "harmless", MOD,
     "let Point { x, y } = p;", "let Point { y, x } = p;", []),
    ("set_pixel_unchecked: local `i` renamed", "harmless", MOD,
     "fn set_pixel_unchecked(&mut self, point: Point, color: Option<C>) {\n        let i = point.x + point.y * SIZE as i32;\n        self.pixels[i as usize] = color;",
     "fn set_pixel_unchecked(&mut self, point: Point, color: Option<C>) {\n        let idx = point.x + point.y * SIZE as i32;\n        self.pixels[idx as usize] = color;", []),
    ("draw_pixel: the two operands of `&&` parenthesised", "harmless", MOD,
     "if !self.allow_overdraw && self.get_pixel(point).is_some() {", "if (!self.allow_overdraw) && (self.get_pixel(point).is_some()) {", []),
    ("affected_area_origin: closure parameter renamed", "harmless", MOD,
     ".map(|bottom_right| Rectangle::with_corners(Point::zero(), bottom_right))", ".map(|br| Rectangle::with_corners(Point::zero(), br))", []),
    ("draw_iter: the pattern variables renamed", "harmless", MOD,
     "let Pixel(point, color) = pixel;\n\n            self.draw_pixel(point, color);", "let Pixel(p, c) = pixel;\n\n            self.draw_pixel(p, c);", []),
    ("diff: the two locals renamed", "harmless", MOD,
     "            let self_color = self.get_pixel(point);\n            let other_color = other.get_pixel(point);\n\n            let diff_color = match (self_color, other_color) {",
     "            let sc = self.get_pixel(point);\n            let oc = other.get_pixel(point);\n\n            let diff_color = match (sc, oc) {", []),
    ("Gray8 color_to_char: local `luma` renamed", "harmless", CM,
     "        let luma = color.luma();\n        let lower = luma & 0xF;\n        let upper = luma >> 4;",
     "        let l = color.luma();\n        let lower = l & 0xF;\n        let upper = l >> 4;", []),
    ("swap_xy: the loop variable renamed", "harmless", MOD,
     "            mirrored.set_pixel_unchecked(point, self.get_pixel(Point::new(point.y, point.x)));",
     "            let q = point;\n            mirrored.set_pixel_unchecked(q, self.get_pixel(Point::new(q.y, q.x)));", []),
    ("draw_pixel: `is_none()` (a method the prelude does not know here)", "unknown", MOD,
     "if !self.allow_overdraw && self.get_pixel(point).is_some() {", "if !self.allow_overdraw && !self.get_pixel(point).is_none() {", []),
    ("set_pixels: a `while` loop", "unknown", MOD,
     "        for point in points {\n            self.set_pixel(point, color);\n        }", "        let mut it = points.into_iter();\n        while let Some(point) = it.next() {\n            self.set_pixel(point, color);\n        }", []),
    ("set_pixel_unchecked: `wrapping_add`", "unknown", MOD,
     "fn set_pixel_unchecked(&mut self, point: Point, color: Option<C>) {\n        let i = point.x + point.y * SIZE as i32;",
     "fn set_pixel_unchecked(&mut self, point: Point, color: Option<C>) {\n        let i = point.x.wrapping_add(point.y * SIZE as i32);", []),
]


def run(cmd, **kw):
    p = subprocess.run(cmd, stdout=subprocess.PIPE, stderr=subprocess.STDOUT, text=True, **kw)
    return p.returncode, p.stdout


def list_theorems(path):
    out = []
    for i, line in enumerate(open(path).read().splitlines(), 1):
        m = re.match(r"\s*theorem\s+(\S+)", line)
        if m:
            out.append((m.group(1), i))
    return out


def seed_cases():
    out = []
    sd = os.path.join(V, "seeded")
    for d in sorted(os.listdir(sd)):
        pf = os.path.join(sd, d, "patch.diff")
        if not os.path.exists(pf):
            continue
        txt = open(pf).read()
        if any(("+++ b/" + rel) in txt for rel in (MOD, CM)):
            out.append((f"seeded change {d}", "seed", pf, None, None, []))
    return out


def fresh_copy(scratch):
    shutil.rmtree(scratch, ignore_errors=True)
    os.makedirs(os.path.join(scratch, "src"))
    shutil.copytree(os.path.join(REPO, "src", "mock_display"), os.path.join(scratch, "src", "mock_display"))


def main():
    only = sys.argv[1:]
    cases = CASES
    if only and only[0] == "--seeds":
        only = only[1:]
        cases = seed_cases()
    rc, out = run(["lake", "build"] + ["EG.Props.C20." + os.path.basename(p)[:-5] for p in PROPS], cwd=LEAN)
    if rc != 0:
        print("the unchanged tree does not build the C20 Generated modules:\n" + out[-2000:])
        return 2
    rc, lean_path = run(["lake", "env", "printenv", "LEAN_PATH"], cwd=LEAN)
    lean_path = lean_path.strip().splitlines()[-1]
    tmp = tempfile.mkdtemp(prefix="mockdemo-")
    os.makedirs("/tmp/vw", exist_ok=True)
    scratch = f"/tmp/vw/mockgen-repo-{os.getpid()}"
    theorems = {p: list_theorems(p) for p in PROPS}
    bad = 0
    try:
        fresh_copy(scratch)
        files, info = tr_mocksrc.generate(scratch)
        baseline = files["MockSrc.lean"]
        cur = open(os.path.join(LEAN, "EG", "Generated", "MockSrc.lean")).read()
        print(f"baseline: {info.get('functions')} definitions translated; identical to lean/EG/Generated/MockSrc.lean: {baseline == cur}")
        real = [d for d in lean_path.split(":") if os.path.isdir(os.path.join(d, "EG"))][0]
        for idx, (name, kind, rel, old, new, expect) in enumerate(cases):
            if only and not any(o in name for o in only):
                continue
            fresh_copy(scratch)
            if kind == "seed":
                rca, outa = run(["git", "apply", "--include=src/mock_display/*", rel], cwd=scratch)
                if rca != 0:
                    print(f"[{kind}] {name}: CANNOT APPLY the patch ({outa.strip()[:160]})")
                    bad += 1
                    continue
            else:
                path = os.path.join(scratch, rel)
                src = open(path).read()
                if src.count(old) != 1:
                    print(f"[{kind}] {name}: CANNOT APPLY (the text to replace occurs {src.count(old)} times): demo out of date")
                    bad += 1
                    continue
                open(path, "w").write(src.replace(old, new))
            files, info = tr_mocksrc.generate(scratch)
            text = files["MockSrc.lean"]
            failed = "failed" in info
            gen_dir = os.path.join(tmp, f"case{idx}")
            os.makedirs(os.path.join(gen_dir, "src", "EG", "Generated"))
            os.makedirs(os.path.join(gen_dir, "lib", "EG", "Generated"))
            for e in os.listdir(os.path.join(real, "EG")):
                if e != "Generated":
                    os.symlink(os.path.join(real, "EG", e), os.path.join(gen_dir, "lib", "EG", e))
            for e in os.listdir(os.path.join(real, "EG", "Generated")):
                if not e.startswith("MockSrc."):
                    os.symlink(os.path.join(real, "EG", "Generated", e), os.path.join(gen_dir, "lib", "EG", "Generated", e))
            broken = set()
            env = dict(os.environ, LEAN_PATH=os.path.join(gen_dir, "lib") + ":" + lean_path)
            open(os.path.join(gen_dir, "src", "EG", "Generated", "MockSrc.lean"), "w").write(text)
            rc1, out1 = run(["lean", "EG/Generated/MockSrc.lean", "-o", os.path.join(gen_dir, "lib", "EG", "Generated", "MockSrc.olean"),
                             "-i", os.path.join(gen_dir, "lib", "EG", "Generated", "MockSrc.ilean")], env=env, cwd=os.path.join(gen_dir, "src"))
            if rc1 != 0:
                errs = [l for l in out1.splitlines() if "error" in l]
                broken.add("(MockSrc.lean does not compile: " + (errs[0] if errs else out1.strip().splitlines()[0])[:160] + ")")
            elif text != baseline:
                for pf in PROPS:
                    rc2, out2 = run(["lean", "-DmaxErrors=100000", pf], env=env, cwd=LEAN)
                    for m in re.finditer(r":(\d+):\d+: error", out2):
                        ln = int(m.group(1))
                        nm = None
                        for (n, l) in theorems[pf]:
                            if l <= ln:
                                nm = n
                        broken.add(nm or f"{os.path.basename(pf)} line {ln}")
            if kind == "mutation":
                ok = (not failed) and all(e in broken for e in expect) and len(broken) > 0
            elif kind == "seed":
                ok = len(broken) > 0
            elif kind == "harmless":
                ok = (not failed) and not broken
            else:
                ok = failed and len(broken) > 0
            bad += 0 if ok else 1
            print(f"[{kind}] {name}")
            if failed:
                print(f"      translator: translationFailed = {info.get('failed')}")
            print(f"      theorems that no longer build: {len(broken)}" + (": " + ", ".join(sorted(broken)[:8]) + (" ..." if len(broken) > 8 else "") if broken else " (all proofs survive)"))
            print(f"      {'as recorded' if ok else 'NOT AS RECORDED (expected ' + (', '.join(expect) if expect else kind) + ')'}")
    finally:
        shutil.rmtree(scratch, ignore_errors=True)
        shutil.rmtree(tmp, ignore_errors=True)
    print("demo:", "all cases as recorded" if bad == 0 else f"{bad} case(s) differ")
    return 0 if bad == 0 else 1


if __name__ == "__main__":
    sys.exit(main())
