#!/usr/bin/env python3
"""adapt_translator_demo.py — re-runs the demonstration of the SOURCE TRANSLATOR tie for the draw-target adapters and
the `DrawTarget` trait defaults (tools/tr_adapt.py; C03 and C04).

    python3 tools/tests/adapt_translator_demo.py            # all cases, exit 0 iff every case behaves as recorded
    python3 tools/tests/adapt_translator_demo.py --seeds    # instead: every seeded change under seeded/ that touches a
                                                            # translated file (patch.diff), expected to break a theorem

For each case a small edit is applied to the Rust text of a SCRATCH COPY of /repo's `src` and `core/src` trees
(/tmp/vw/adaptgen-repo, removed at the end; /repo itself is never touched, not even its .git), the translator
regenerates `AdaptSrc.lean` from it, and the theorems of lean/EG/Props/C03/GeneratedAdapters.lean and
lean/EG/Props/C04/GeneratedAdapters.lean (and lean/EG/Props/C03/GeneratedCroppedIter.lean) are re-checked against the regenerated file. Nothing inside the verif tree
is written: the regenerated file and its .olean live in a temp directory put in front of LEAN_PATH (requires an
up-to-date `lake build` of the two modules, which the script runs first).

  kind `mutation`  a semantic change: the listed theorem(s) must STOP building
  kind `shape`     the parent call is kept but its `Result` is no longer returned as it is / not in tail position:
                   the `_src_eq_model` theorems survive, the shape theorems (listed) must stop building
  kind `harmless`  a rewrite that keeps the meaning: every theorem must still build
  kind `unknown`   a construct outside the translator's subset: `translationFailed`, all theorems stop building
"""
import os
import re
import shutil
import subprocess
import sys
import tempfile

V = os.path.dirname(os.path.dirname(os.path.dirname(os.path.abspath(__file__))))
sys.path.insert(0, os.path.join(V, "tools"))
import tr_adapt  # noqa: E402

REPO = os.environ.get("EG_REPO", "/repo")
LEAN = os.path.join(V, "lean")
PROPS3 = os.path.join(LEAN, "EG", "Props", "C03", "GeneratedAdapters.lean")
PROPS4 = os.path.join(LEAN, "EG", "Props", "C04", "GeneratedAdapters.lean")
PROPSI = os.path.join(LEAN, "EG", "Props", "C03", "GeneratedCroppedIter.lean")
SCRATCH = os.environ.get("ADAPT_DEMO_SCRATCH", "/tmp/vw/adaptgen-repo")
TR = "src/draw_target/translated.rs"
CL = "src/draw_target/clipped.rs"
CR = "src/draw_target/cropped.rs"
CC = "src/draw_target/color_converted.rs"
CORE = "core/src/draw_target/mod.rs"
PIX = "src/iterator/pixel.rs"
CONT = "src/iterator/contiguous.rs"
SHAPE = ["all_adapter_methods_are_tail_calls", "src_adapter_methods_return_parent_result"]

# (name, kind, file, old text, new text, theorems expected to break (subset check))
CASES = [
    ("Translated::draw_iter: pixels shifted by `-offset`", "mutation", TR,
     ".draw_iter(pixels.into_iter().translated(self.offset))",
     ".draw_iter(pixels.into_iter().translated(-self.offset))",
     ["Translated_draw_iter_src_eq_model", "src_lower_eq_model"]),
    ("pixel::Translated::next (iterator/pixel.rs): `p - self.offset`", "mutation", PIX,
     ".map(|Pixel(p, c)| Pixel(p + self.offset, c))",
     ".map(|Pixel(p, c)| Pixel(p - self.offset, c))",
     ["Translated_draw_iter_src_eq_model", "Cropped_draw_iter_src_eq_model"]),
    ("Translated::fill_solid: the area is not translated", "mutation", TR,
     "        let area = area.translate(self.offset);\n        self.parent.fill_solid(&area, color)",
     "        self.parent.fill_solid(area, color)",
     ["Translated_fill_solid_src_eq_model", "Cropped_fill_solid_src_eq_model"]),
    ("Translated::bounding_box: shifted the wrong way", "mutation", TR,
     "self.parent.bounding_box().translate(-self.offset)",
     "self.parent.bounding_box().translate(self.offset)",
     ["Translated_bounding_box_src_eq_model", "src_bbox_eq_model"]),
    ("Clipped::new: the clip area is not intersected with the parent's box", "mutation", CL,
     "        let clip_area = clip_area.intersection(&parent.bounding_box());\n\n        Self { parent, clip_area }",
     "        let clip_area = *clip_area;\n\n        Self { parent, clip_area }",
     ["Clipped_draw_iter_src_eq_model", "Clipped_bounding_box_src_eq_model"]),
    ("Clipped::draw_iter: filters by the parent's box instead of the clip area", "mutation", CL,
     ".filter(|Pixel(p, _)| self.clip_area.contains(*p));",
     ".filter(|Pixel(p, _)| self.parent.bounding_box().contains(*p));",
     ["Clipped_draw_iter_src_eq_model"]),
    ("Clipped::fill_contiguous: the colour stream is cut to `intersection` instead of `crop_area`", "mutation", CL,
     "let cropped = Cropped::new(colors.into_iter(), area.size, &crop_area);",
     "let cropped = Cropped::new(colors.into_iter(), area.size, &intersection);",
     ["Clipped_fill_contiguous_src_eq_model"]),
    ("Clipped::fill_contiguous: `==` -> `!=` (arms swapped)", "mutation", CL,
     "if &intersection == area {",
     "if &intersection != area {",
     ["Clipped_fill_contiguous_src_eq_model"]),
    ("Clipped: an override of `clear` that clears the whole parent", "mutation", CL,
     "        self.parent.fill_solid(&area, color)\n    }\n}",
     "        self.parent.fill_solid(&area, color)\n    }\n\n    fn clear(&mut self, color: Self::Color) -> Result<(), Self::Error> {\n        self.parent.clear(color)\n    }\n}",
     ["Clipped_clear_src_eq_model", "adapter_overrides_pinned"]),
    ("Cropped::new: the held `Translated` is shifted by `-top_left`", "mutation", CR,
     "parent: parent.translated(area.top_left),",
     "parent: parent.translated(-area.top_left),",
     ["Cropped_draw_iter_src_eq_model", "Cropped_clear_src_eq_model"]),
    ("ColorConverted::clear: forwards a `fill_solid` of the parent's box instead of `clear`", "mutation", CC,
     "self.parent.clear(color.into())",
     "self.parent.fill_solid(&self.parent.bounding_box(), color.into())",
     ["ColorConverted_clear_src_eq_model"]),
    ("trait default `fill_solid`: fills the target's box instead of `area`", "mutation", CORE,
     "self.fill_contiguous(area, core::iter::repeat(color))",
     "self.fill_contiguous(&self.bounding_box(), core::iter::repeat(color))",
     ["fill_solid_default_src_eq_model"]),
    ("trait default `fill_contiguous`: pairs the colours with the points of the target's box", "mutation", CORE,
     "            area.points()\n                .zip(colors)",
     "            self.bounding_box().points()\n                .zip(colors)",
     ["fill_contiguous_default_src_eq_model"]),
    ("Translated::clear: `self.parent.clear(color)?; Ok(())`", "shape", TR,
     "        self.parent.clear(color)\n",
     "        self.parent.clear(color)?;\n        Ok(())\n",
     SHAPE),
    ("Clipped::fill_solid: the error is swallowed (`let _ = ..; Ok(())`)", "shape", CL,
     "        self.parent.fill_solid(&area, color)\n",
     "        let _ = self.parent.fill_solid(&area, color);\n        Ok(())\n",
     SHAPE),
    ("ColorConverted::clear: `.map_err(|e| e)` applied to the parent's result", "shape", CC,
     "self.parent.clear(color.into())",
     "self.parent.clear(color.into()).map_err(|e| e)",
     SHAPE),
    ("Cropped::draw_iter: work after the parent call (`let r = ..; let _x = self.size; r`)", "shape", CR,
     "        self.parent.draw_iter(pixels)\n",
     "        let r = self.parent.draw_iter(pixels);\n        let _x = self.size;\n        r\n",
     SHAPE),
    ("Clipped: a `Drop` impl added (no translated body changes)", "mutation", CL,
     "impl<T> Dimensions for Clipped<'_, T>",
     "impl<T> Drop for Clipped<'_, T>\nwhere\n    T: DrawTarget,\n{\n    fn drop(&mut self) {}\n}\n\nimpl<T> Dimensions for Clipped<'_, T>",
     ["adapt_untranslated_pinned"]),
    # the colour iterator of `Clipped::fill_contiguous` (iterator/contiguous.rs, theorems in GeneratedCroppedIter.lean)
    ("contiguous::Cropped::new: `iter.nth(initial_skip)` (skips one colour too many)", "mutation", CONT,
     "            iter.nth(initial_skip - 1);",
     "            iter.nth(initial_skip);",
     ["contiguous_Cropped_new_src_eq_model"]),
    ("contiguous::Cropped::new: `row_skip` is the full width", "mutation", CONT,
     "row_skip: size.width.saturating_sub(crop_area.size.width) as usize,",
     "row_skip: size.width as usize,",
     ["contiguous_Cropped_new_src_eq_model"]),
    ("contiguous::Cropped::next: a new row restarts at `x = 0`", "mutation", CONT,
     "            self.x = 1;\n",
     "            self.x = 0;\n",
     ["contiguous_Cropped_next_src_eq_model"]),
    ("contiguous::Cropped::next: the row skip is dropped (`self.iter.next()`)", "mutation", CONT,
     "                self.iter.nth(self.row_skip)",
     "                self.iter.next()",
     ["contiguous_Cropped_next_src_eq_model"]),
    ("contiguous::Cropped::next: `self.y > self.size.height` ends the iterator one row late", "mutation", CONT,
     "if self.y >= self.size.height || self.size.width == 0 {",
     "if self.y > self.size.height || self.size.width == 0 {",
     ["contiguous_Cropped_next_src_eq_model"]),
    # harmless rewrites
    ("contiguous::Cropped::next: the early `return None` written as if/else-if", "harmless", CONT,
     "        if self.y >= self.size.height || self.size.width == 0 {\n            return None;\n        }\n\n        if self.x < self.size.width {",
     "        if self.y >= self.size.height || self.size.width == 0 {\n            None\n        } else if self.x < self.size.width {",
     []),
    ("Translated::fill_contiguous: the local renamed", "harmless", TR,
     "        let area = area.translate(self.offset);\n        self.parent.fill_contiguous(&area, colors)",
     "        let moved = area.translate(self.offset);\n        self.parent.fill_contiguous(&moved, colors)",
     []),
    ("Clipped::draw_iter: the `let` inlined into the call", "harmless", CL,
     "        let pixels = pixels\n            .into_iter()\n            .filter(|Pixel(p, _)| self.clip_area.contains(*p));\n\n        self.parent.draw_iter(pixels)",
     "        self.parent.draw_iter(pixels.into_iter().filter(|Pixel(p, _)| self.clip_area.contains(*p)))",
     []),
    ("Clipped::fill_contiguous: `self.bounding_box()` written as `self.clip_area`", "harmless", CL,
     "let intersection = self.bounding_box().intersection(area);",
     "let intersection = self.clip_area.intersection(area);",
     []),
    ("ColorConverted::draw_iter: closure pattern variables renamed", "harmless", CC,
     ".draw_iter(pixels.into_iter().map(|Pixel(p, c)| Pixel(p, c.into())))",
     ".draw_iter(pixels.into_iter().map(|Pixel(pos, col)| Pixel(pos, col.into())))",
     []),
    ("Translated::clear: the tail call wrapped in a block", "harmless", TR,
     "        self.parent.clear(color)\n",
     "        {\n            self.parent.clear(color)\n        }\n",
     []),
    ("Cropped::new: a local for `area.top_left`", "harmless", CR,
     "        Self {\n            parent: parent.translated(area.top_left),",
     "        let top_left = area.top_left;\n        Self {\n            parent: parent.translated(top_left),",
     []),
    ("trait default `fill_contiguous`: closure tuple pattern renamed", "harmless", CORE,
     "                .zip(colors)\n                .map(|(pos, color)| Pixel(pos, color)),",
     "                .zip(colors)\n                .map(|(p, c)| Pixel(p, c)),",
     []),
    # outside the subset
    ("Translated::clear: two parent calls on one path", "unknown", TR,
     "        self.parent.clear(color)\n",
     "        self.parent.clear(color)?;\n        self.parent.clear(color)\n",
     []),
    ("Clipped::draw_iter: an iterator method the prelude does not know (`.rev()`-like `.skip(1)`)", "unknown", CL,
     ".filter(|Pixel(p, _)| self.clip_area.contains(*p));",
     ".filter(|Pixel(p, _)| self.clip_area.contains(*p))\n            .skip(1);",
     []),
    ("Cropped::fill_solid: a path that makes no parent call (`if .. { return Ok(()) }`)", "unknown", CR,
     "        self.parent.fill_solid(area, color)\n",
     "        if area.is_zero_sized() {\n            return Ok(());\n        }\n        self.parent.fill_solid(area, color)\n",
     []),
]


def run(cmd, **kw):
    p = subprocess.run(cmd, stdout=subprocess.PIPE, stderr=subprocess.STDOUT, text=True, **kw)
    return p.returncode, p.stdout


def list_theorems(path):
    out = []
    for i, line in enumerate(open(path).read().splitlines(), 1):
        m = re.match(r"\s*theorem\s+(\S+)", line)
        if m:
            out.append((m.group(1), i))
    return out


def seed_cases():
    out = []
    sd = os.path.join(V, "seeded")
    for d in sorted(os.listdir(sd)):
        pf = os.path.join(sd, d, "patch.diff")
        if not os.path.exists(pf):
            continue
        txt = open(pf).read()
        if any(("+++ b/" + rel) in txt for rel in tr_adapt.FILES.values()):
            out.append((f"seeded change {d}", "seed", pf, None, None, []))
    return out


def fresh_scratch():
    shutil.rmtree(SCRATCH, ignore_errors=True)
    os.makedirs(os.path.join(SCRATCH, "core"))
    shutil.copytree(os.path.join(REPO, "src"), os.path.join(SCRATCH, "src"))
    shutil.copytree(os.path.join(REPO, "core", "src"), os.path.join(SCRATCH, "core", "src"))


def broken_in(path, theorems, env, out_olean=None):
    cmd = ["lean", path]
    if out_olean:
        cmd += ["-o", out_olean]
    rc, out = run(cmd, env=env, cwd=LEAN)
    broken = set()
    for m in re.finditer(r":(\d+):\d+: error", out):
        ln = int(m.group(1))
        nm = None
        for (n, l) in theorems:
            if l <= ln:
                nm = n
        broken.add(nm or f"{os.path.basename(os.path.dirname(path))}/{os.path.basename(path)} line {ln}")
    if rc != 0 and not broken:
        broken.add(f"({os.path.basename(os.path.dirname(path))}/GeneratedAdapters.lean does not build: {out.strip().splitlines()[0][:140] if out.strip() else rc})")
    return broken


def main():
    only = sys.argv[1:]
    cases = CASES
    if only and only[0] == "--seeds":
        only = only[1:]
        cases = seed_cases()
    rc, out = run(["lake", "build", "EG.Props.C03.GeneratedCroppedIter", "EG.Props.C03.GeneratedAdapters",
                   "EG.Props.C04.GeneratedAdapters"], cwd=LEAN)
    if rc != 0:
        print("the unchanged tree does not build the GeneratedAdapters modules:\n" + out[-2000:])
        return 2
    rc, lean_path = run(["lake", "env", "printenv", "LEAN_PATH"], cwd=LEAN)
    lean_path = lean_path.strip().splitlines()[-1]
    real = [d for d in lean_path.split(":") if os.path.isdir(os.path.join(d, "EG"))][0]
    tmp = tempfile.mkdtemp(prefix="adaptdemo-")
    th3, th4, thi = list_theorems(PROPS3), list_theorems(PROPS4), list_theorems(PROPSI)
    bad = 0
    try:
        fresh_scratch()
        files, info = tr_adapt.generate(SCRATCH)
        cur = open(os.path.join(LEAN, "EG", "Generated", "AdaptSrc.lean")).read()
        print(f"baseline: {info.get('functions')} functions translated, {info.get('shapes')} method shapes; identical to "
              f"lean/EG/Generated/AdaptSrc.lean: {files['AdaptSrc.lean'] == cur}")
        for idx, (name, kind, rel, old, new, expect) in enumerate(cases):
            if only and not any(o in name for o in only):
                continue
            fresh_scratch()
            if kind == "seed":
                rca, outa = run(["git", "apply", "--include=src/*", "--include=core/src/*", rel], cwd=SCRATCH)
                if rca != 0:
                    print(f"[{kind}] {name}: CANNOT APPLY the patch to /repo's sources ({outa.strip()[:160]})")
                    bad += 1
                    continue
            else:
                path = os.path.join(SCRATCH, rel)
                src = open(path).read()
                if src.count(old) != 1:
                    print(f"[{kind}] {name}: CANNOT APPLY (the text to replace occurs {src.count(old)} times): demo out of date")
                    bad += 1
                    continue
                open(path, "w").write(src.replace(old, new))
            files, info = tr_adapt.generate(SCRATCH)
            gen_dir = os.path.join(tmp, f"case{idx}")
            os.makedirs(os.path.join(gen_dir, "src", "EG", "Generated"))
            # overlay of the project's build output: everything symlinked except EG/Generated/AdaptSrc.* and the three
            # theorem modules, which are recompiled in import order (GeneratedCroppedIter <- C03/GeneratedAdapters <-
            # C04/GeneratedAdapters)
            lib = os.path.join(gen_dir, "lib")
            os.makedirs(os.path.join(lib, "EG", "Generated"))
            os.makedirs(os.path.join(lib, "EG", "Props", "C03"))
            for e in os.listdir(os.path.join(real, "EG")):
                if e not in ("Generated", "Props"):
                    os.symlink(os.path.join(real, "EG", e), os.path.join(lib, "EG", e))
            for e in os.listdir(os.path.join(real, "EG", "Generated")):
                if not e.startswith("AdaptSrc."):
                    os.symlink(os.path.join(real, "EG", "Generated", e), os.path.join(lib, "EG", "Generated", e))
            for e in os.listdir(os.path.join(real, "EG", "Props")):
                if e != "C03":
                    os.symlink(os.path.join(real, "EG", "Props", e), os.path.join(lib, "EG", "Props", e))
            for e in os.listdir(os.path.join(real, "EG", "Props", "C03")):
                if not (e.startswith("GeneratedAdapters.") or e.startswith("GeneratedCroppedIter.")):
                    os.symlink(os.path.join(real, "EG", "Props", "C03", e), os.path.join(lib, "EG", "Props", "C03", e))
            gsrc = os.path.join(gen_dir, "src", "EG", "Generated", "AdaptSrc.lean")
            open(gsrc, "w").write(files["AdaptSrc.lean"])
            env = dict(os.environ, LEAN_PATH=lean_path)
            rc1, out1 = run(["lean", "EG/Generated/AdaptSrc.lean", "-o", os.path.join(lib, "EG", "Generated", "AdaptSrc.olean")],
                            env=env, cwd=os.path.join(gen_dir, "src"))
            failed = "failed" in info
            broken = set()
            if rc1 != 0:
                broken.add("(generated file does not compile: " + out1.strip().splitlines()[0][:160] + ")")
            else:
                env2 = dict(os.environ, LEAN_PATH=lib + ":" + lean_path)
                for (pf, ths, mod) in ((PROPSI, thi, "GeneratedCroppedIter"), (PROPS3, th3, "GeneratedAdapters")):
                    o = os.path.join(lib, "EG", "Props", "C03", mod + ".olean")
                    bb = broken_in(pf, ths, env2, o)
                    broken |= bb
                    if bb:
                        # in a real check the importing modules then do not build at all. To show what THEIR OWN theorems
                        # make of the change, they are re-checked against the regenerated AdaptSrc with the last good
                        # build of this module standing in for the import.
                        if os.path.lexists(o):
                            os.remove(o)
                        os.symlink(os.path.join(real, "EG", "Props", "C03", mod + ".olean"), o)
                broken |= broken_in(PROPS4, th4, env2)
            model_eq_broken = [b for b in broken if b.endswith("_src_eq_model")]
            if kind == "mutation":
                ok = (not failed) and all(e in broken for e in expect)
            elif kind == "shape":
                ok = (not failed) and expect[0] in broken and not model_eq_broken
            elif kind == "seed":
                ok = len(broken) > 0
            elif kind == "harmless":
                ok = (not failed) and not broken
            else:
                ok = failed and len(broken) > 0
            bad += 0 if ok else 1
            print(f"[{kind}] {name}")
            if failed:
                print(f"      translator: translationFailed = {info['failed']}")
            print(f"      theorems that no longer build: {len(broken)}" + (": " + ", ".join(sorted(broken)[:8]) + (" ..." if len(broken) > 8 else "") if broken else " (all proofs survive)"))
            print(f"      {'as recorded' if ok else 'NOT AS RECORDED (expected ' + (', '.join(expect) if expect else kind) + ')'}")
    finally:
        shutil.rmtree(SCRATCH, ignore_errors=True)
        shutil.rmtree(tmp, ignore_errors=True)
    print("demo:", "all cases as recorded" if bad == 0 else f"{bad} case(s) differ")
    return 0 if bad == 0 else 1


if __name__ == "__main__":
    sys.exit(main())
