#!/usr/bin/env python3
"""curve_translator_demo.py — re-runs the demonstration of the SOURCE TRANSLATOR tie for the circle / ellipse primitives
(tools/tr_curve.py; C05, C18, C06).

    python3 tools/tests/curve_translator_demo.py            # all cases, exit 0 iff every case behaves as recorded
    python3 tools/tests/curve_translator_demo.py --seeds    # instead: every seeded change under seeded/ that touches a
                                                            # translated file (patch.diff), expected to break a theorem

For each case a small edit is applied to the Rust text of a SCRATCH COPY of /repo's `src` and `core/src` trees
(/tmp/vw/curvegen-repo-<pid>, removed at the end; /repo itself is never touched, not even its .git), the translator
regenerates `CurveSrc.lean` from it, and the theorems of lean/EG/Props/C05/GeneratedCircle.lean,
lean/EG/Props/C05/GeneratedEllipse.lean, lean/EG/Props/C18/GeneratedCurves.lean and lean/EG/Props/C06/GeneratedStyled.lean are re-checked against the
regenerated file, in import order. Nothing inside the verif tree is written: the regenerated file and the .oleans live in
a temp directory put in front of LEAN_PATH (requires an up-to-date `lake build` of the three modules, which the script
runs first). When a module breaks, its last good build stands in for the import of the next one, so that each file
reports what ITS OWN theorems make of the change (in a real check the importers simply do not build).

  kind `mutation`  a semantic change: the listed theorem(s) must STOP building
  kind `harmless`  a rewrite that keeps the meaning: every theorem must still build
  kind `unknown`   a construct outside the translator's subset: `translationFailed`, all theorems stop building
"""
import os
import re
import shutil
import subprocess
import sys
import tempfile

V = os.path.dirname(os.path.dirname(os.path.dirname(os.path.abspath(__file__))))
sys.path.insert(0, os.path.join(V, "tools"))
import tr_curve  # noqa: E402

REPO = os.environ.get("EG_REPO", "/repo")
LEAN = os.path.join(V, "lean")
MODS = [("C05", "GeneratedCircle"), ("C05", "GeneratedEllipse"), ("C18", "GeneratedCurves"), ("C06", "GeneratedStyled"),
        ("C06", "GeneratedDraw")]
SCRATCH = os.environ.get("CURVE_DEMO_SCRATCH", f"/tmp/vw/curvegen-repo-{os.getpid()}")
CM = "src/primitives/circle/mod.rs"
CP = "src/primitives/circle/points.rs"
EM = "src/primitives/ellipse/mod.rs"
EP = "src/primitives/ellipse/points.rs"
SC = "src/primitives/common/scanline.rs"
GE = "src/geometry/mod.rs"
SS = "src/primitives/common/styled_scanline.rs"
CS = "src/primitives/circle/styled.rs"
ES = "src/primitives/ellipse/styled.rs"
PS = "src/primitives/primitive_style.rs"
# files whose seeded changes this tie is responsible for (tr_rect's files have their own demo)
SEED_FILES = [CM, CP, EM, EP, SC, GE, SS, CS, ES, PS]
# seeded changes that touch one of these files only in code the part does not translate (styled drawing is tied elsewhere)
SEEDS_OUT_OF_SCOPE = {
    "C19-r3-1": "edits Scanline::bresenham_intersection (the triangle / polyline scanline code of C19), which is listed in "
                "CurveSrc.untranslated; only Scanline::{new, new_empty, is_empty, next, draw} are translated here",
}

# (name, kind, file, old text, new text, theorems expected to break (subset check))
CASES = [
    ("diameter_to_threshold: `<= 4` -> `< 4`", "mutation", CM,
     "    if diameter <= 4 {", "    if diameter < 4 {", ["diameter_to_threshold_src_eq_model"]),
    ("Circle::center_2x: radius is the whole diameter", "mutation", CM,
     "let radius = self.diameter.saturating_sub(1);", "let radius = self.diameter;", ["Circle_center_2x_src_eq_model"]),
    ("Circle::contains: `<` -> `<=`", "mutation", CM,
     "distance < self.threshold()", "distance <= self.threshold()", ["Circle_contains_src_eq_model"]),
    ("Circle::offset: grows by `offset` instead of `2 * offset`", "mutation", CM,
     "self.diameter.saturating_add(2 * offset as u32)", "self.diameter.saturating_add(offset as u32)",
     ["Circle_offset_src_eq_model"]),
    ("Circle::offset: shrinking keeps the top left corner instead of the centre", "mutation", CM,
     "Self::with_center(self.center(), diameter)", "Self::new(self.top_left, diameter)", ["Circle_offset_src_eq_model"]),
    ("Circle::with_center: box of `diameter + 1`", "mutation", CM,
     "Rectangle::with_center(center, Size::new_equal(diameter)).top_left",
     "Rectangle::with_center(center, Size::new_equal(diameter + 1)).top_left", ["Circle_with_center_src_eq_model"]),
    ("circle Scanlines::next: the right end is not mirrored", "mutation", CP,
     "x..self.columns.end - (x - self.columns.start)", "x..self.columns.end", ["CircleScanlines_Iterator_next_src_eq_model"]),
    ("circle Scanlines::next: `+ center_2x` in the distance", "mutation", CP,
     "let delta = Point::new(*x, y) * 2 - self.center_2x;", "let delta = Point::new(*x, y) * 2 + self.center_2x;",
     ["CircleScanlines_Iterator_next_src_eq_model"]),
    ("circle Points::new: starts on a non-empty scanline", "mutation", CP,
     "current_scanline: Scanline::new_empty(0),", "current_scanline: Scanline::new(0, 0..1),", ["CirclePoints_new_src_eq_model"]),
    ("circle Scanlines::new: rows and columns swapped", "mutation", CP,
     "            rows: bounding_box.rows(),\n            columns: bounding_box.columns(),\n",
     "            rows: bounding_box.columns(),\n            columns: bounding_box.rows(),\n", ["CircleScanlines_new_src_eq_model"]),
    ("circle Points::next: a scanline taken from `scanlines` is dropped when the current one still has points", "mutation", CP,
     "        self.current_scanline.next().or_else(|| {\n            self.current_scanline = self.scanlines.next()?;\n            self.current_scanline.next()\n        })",
     "        self.current_scanline = self.scanlines.next()?;\n        self.current_scanline.next()",
     ["CirclePoints_Iterator_next_src_eq_model"]),
    ("circle Points: an override of `Iterator::size_hint` added (no translated body changes)", "mutation", CP,
     "            self.current_scanline.next()\n        })\n    }\n}\n",
     "            self.current_scanline.next()\n        })\n    }\n\n    fn size_hint(&self) -> (usize, Option<usize>) {\n        (0, None)\n    }\n}\n",
     ["curve_untranslated_pinned"]),
    ("Scanline::next: yields (y, x)", "mutation", SC,
     ".map(|x| Point::new(x, self.y))", ".map(|x| Point::new(self.y, x))", ["Scanline_Iterator_next_src_eq_model"]),
    ("PointExt::length_squared: `-` for `+`", "mutation", GE,
     "self.x.pow(2) + self.y.pow(2)", "self.x.pow(2) - self.y.pow(2)", ["length_squared_src_eq_model"]),
    ("EllipseContains::new: threshold `b * b`", "mutation", EM,
     "b as u64 * a as u64", "b as u64 * b as u64", ["EllipseContains_new_src_eq_model"]),
    ("EllipseContains::new: the circle special case only above 4", "mutation", EM,
     "let threshold = if width == height {", "let threshold = if width == height && width > 4 {",
     ["EllipseContains_new_src_eq_model"]),
    ("EllipseContains::contains: a and b exchanged", "mutation", EM,
     "self.b as u64 * x + self.a as u64 * y < self.threshold", "self.a as u64 * x + self.b as u64 * y < self.threshold",
     ["EllipseContains_contains_src_eq_model"]),
    ("EllipseContains::contains: circle arm `<=`", "mutation", EM,
     "x + y < self.threshold", "x + y <= self.threshold", ["EllipseContains_contains_src_eq_model"]),
    ("ellipse center_2x: radius is the whole size", "mutation", EM,
     "let radius = size.saturating_sub(Size::new(1, 1));", "let radius = size;", ["center_2x_src_eq_model"]),
    ("Ellipse::contains: `+ center_2x`", "mutation", EM,
     "ellipse_contains.contains(point * 2 - self.center_2x())", "ellipse_contains.contains(point * 2 + self.center_2x())",
     ["Ellipse_contains_src_eq_model"]),
    ("Ellipse::offset: shrinks by `offset` instead of `2 * offset`", "mutation", EM,
     ".saturating_sub(Size::new_equal(2 * (-offset) as u32));", ".saturating_sub(Size::new_equal((-offset) as u32));",
     ["Ellipse_offset_src_eq_model"]),
    ("ellipse Scanlines::next: `+ center_2x.y` in the row", "mutation", EP,
     "let scaled_y = y * 2 - center_2x.y;", "let scaled_y = y * 2 + center_2x.y;", ["EllipseScanlines_Iterator_next_src_eq_model"]),
    ("ellipse Scanlines::next: the right end is not mirrored", "mutation", EP,
     "x..columns.end - (x - columns.start)", "x..columns.end", ["EllipseScanlines_Iterator_next_src_eq_model"]),
    # harmless rewrites
    ("Circle::contains: locals renamed", "harmless", CM,
     "        let delta = self.center_2x() - point * 2;\n        let distance = delta.length_squared() as u32;\n\n        distance < self.threshold()",
     "        let d = self.center_2x() - point * 2;\n        let dist = d.length_squared() as u32;\n\n        dist < self.threshold()", []),
    ("Circle::center_2x: the local inlined", "harmless", CM,
     "        let radius = self.diameter.saturating_sub(1);\n\n        self.top_left * 2 + Size::new(radius, radius)",
     "        self.top_left * 2 + Size::new(self.diameter.saturating_sub(1), self.diameter.saturating_sub(1))", []),
    ("circle Scanlines::next: closure parameter renamed, extra parentheses", "harmless", CP,
     "            .find(|x| {\n                let delta = Point::new(*x, y) * 2 - self.center_2x;\n                (delta.length_squared() as u32) < self.threshold",
     "            .find(|col| {\n                let delta = (Point::new(*col, y) * 2) - self.center_2x;\n                (delta.length_squared() as u32) < (self.threshold)", []),
    ("circle Points::next: `or_else` written out as `if let .. return` + the closure's statements", "harmless", CP,
     "        self.current_scanline.next().or_else(|| {\n            self.current_scanline = self.scanlines.next()?;\n            self.current_scanline.next()\n        })",
     "        if let Some(p) = self.current_scanline.next() {\n            return Some(p);\n        }\n        self.current_scanline = self.scanlines.next()?;\n        self.current_scanline.next()", []),
    ("Scanline::next: closure parameter renamed", "harmless", SC,
     ".map(|x| Point::new(x, self.y))", ".map(|px| Point::new(px, self.y))", []),
    ("Ellipse::offset: local renamed", "harmless", EM,
     "            let size = self\n                .size\n                .saturating_sub(Size::new_equal(2 * (-offset) as u32));\n\n            Self::with_center(self.center(), size)",
     "            let smaller = self\n                .size\n                .saturating_sub(Size::new_equal(2 * (-offset) as u32));\n\n            Self::with_center(self.center(), smaller)", []),
    ("EllipseContains::new: the struct pattern written as two field reads", "harmless", EM,
     "        let Size { width, height } = size;\n", "        let width = size.width;\n        let height = size.height;\n", []),
    ("ellipse Scanlines::new: fields of the struct literal reordered", "harmless", EP,
     "            rows: bounding_box.rows(),\n            columns: bounding_box.columns(),\n            center_2x: ellipse.center_2x(),\n",
     "            center_2x: ellipse.center_2x(),\n            columns: bounding_box.columns(),\n            rows: bounding_box.rows(),\n", []),
    ("StyledScanline::new: an absent fill range collapses at the START of the stroke range", "mutation", SS,
     "stroke_range.end..stroke_range.end", "stroke_range.start..stroke_range.start", ["StyledScanline_new_src_eq_model"]),
    ("StyledScanline::stroke_right: starts at the fill START", "mutation", SS,
     "self.fill_range.end..self.stroke_range.end", "self.fill_range.start..self.stroke_range.end",
     ["StyledScanline_stroke_right_src_eq_model"]),
    ("circle StyledScanlines::next: fill test `<=`", "mutation", CS,
     "(delta.length_squared() as u32) < self.fill_threshold", "(delta.length_squared() as u32) <= self.fill_threshold",
     ["CircleStyledScanlines_Iterator_next_src_eq_model"]),
    ("circle StyledScanlines::new: fill threshold taken from the stroke area", "mutation", CS,
     "fill_threshold: fill_area.threshold(),", "fill_threshold: stroke_area.threshold(),",
     ["CircleStyledScanlines_new_src_eq_model"]),
    ("ellipse StyledScanlines::next: the fill range is not mirrored", "mutation", ES,
     ".map(|x| x..scanline.x.end - (x - scanline.x.start));", ".map(|x| x..scanline.x.end);",
     ["EllipseStyledScanlines_Iterator_next_src_eq_model"]),
    ("ellipse StyledScanlines::new: fill test of the stroke area's size", "mutation", ES,
     "fill_area: EllipseContains::new(fill_area.size),", "fill_area: EllipseContains::new(stroke_area.size),",
     ["EllipseStyledScanlines_new_src_eq_model"]),
    ("circle StyledScanlines::next: closure parameter `scanline` renamed", "harmless", CS,
     "        self.scanlines.next().map(|scanline| {\n            let fill_range = scanline\n                .x\n                .clone()\n                .find(|x| {\n                    let delta = Point::new(*x, scanline.y) * 2 - self.scanlines.center_2x;\n                    (delta.length_squared() as u32) < self.fill_threshold\n                })\n                .map(|x| x..scanline.x.end - (x - scanline.x.start));\n\n            StyledScanline::new(scanline.y, scanline.x, fill_range)\n        })",
     "        self.scanlines.next().map(|line| {\n            let fill_range = line\n                .x\n                .clone()\n                .find(|x| {\n                    let delta = Point::new(*x, line.y) * 2 - self.scanlines.center_2x;\n                    (delta.length_squared() as u32) < self.fill_threshold\n                })\n                .map(|x| x..line.x.end - (x - line.x.start));\n\n            StyledScanline::new(line.y, line.x, fill_range)\n        })", []),
    ("StyledScanline::new: the shadowing local renamed", "harmless", SS,
     "        let fill_range = fill_range.unwrap_or_else(|| stroke_range.end..stroke_range.end);\n\n        Self {\n            y,\n            stroke_range,\n            fill_range,\n        }",
     "        let fr = fill_range.unwrap_or_else(|| stroke_range.end..stroke_range.end);\n\n        Self {\n            y,\n            stroke_range,\n            fill_range: fr,\n        }", []),
    ("Scanline::draw: width one short", "mutation", SC,
     "let width = (self.x.end - self.x.start) as u32;", "let width = (self.x.end - self.x.start - 1) as u32;",
     ["Scanline_draw_src_eq_model"]),
    ("Scanline::draw: the empty-scanline shortcut removed", "mutation", SC,
     "        if self.is_empty() {\n            return Ok(());\n        }\n\n        let width", "        let width",
     ["Scanline_draw_src_eq_model"]),
    ("StyledScanline::draw_stroke: the right part is drawn first", "mutation", SS,
     "        self.stroke_left().draw(target, stroke_color)?;\n        self.stroke_right().draw(target, stroke_color)\n",
     "        self.stroke_right().draw(target, stroke_color)?;\n        self.stroke_left().draw(target, stroke_color)\n",
     ["StyledScanline_draw_stroke_src_eq_model"]),
    ("StyledScanline::draw_stroke_and_fill: the fill part is skipped", "mutation", SS,
     "        self.fill().draw(target, fill_color)?;\n", "", ["StyledScanline_draw_stroke_and_fill_src_eq_model"]),
    ("PrimitiveStyle::outside_stroke_width: Center rounds up", "mutation", PS,
     "StrokeAlignment::Center => self.stroke_width / 2,", "StrokeAlignment::Center => (self.stroke_width + 1) / 2,",
     ["outside_stroke_width_src_eq_model"]),
    ("PrimitiveStyle::effective_stroke_color: `>= 0`", "mutation", PS,
     "self.stroke_color.filter(|_| self.stroke_width > 0)", "self.stroke_color.filter(|_| self.stroke_width >= 0)",
     ["effective_stroke_color_src_eq_model"]),
    ("PrimitiveStyle::fill_area: shrinks by the OUTSIDE width", "mutation", PS,
     "-self.inside_stroke_width().saturating_as::<i32>()", "-self.outside_stroke_width().saturating_as::<i32>()",
     ["fill_area_Circle_src_eq_model"]),
    ("Circle::draw_styled: the fill-only arm draws the shape instead of the fill area (seed C01-3's idea)", "mutation", CS,
     "for scanline in Scanlines::new(&style.fill_area(self)) {", "for scanline in Scanlines::new(self) {",
     ["Circle_draw_styled_src_eq_model"]),
    ("Ellipse::draw_styled: stroke-only arm uses `draw_stroke_and_fill`", "mutation", ES,
     "                    scanline.draw_stroke(target, stroke_color)?;", "                    scanline.draw_stroke_and_fill(target, stroke_color, stroke_color)?;",
     ["Ellipse_draw_styled_src_eq_model"]),
    ("Circle::styled_bounding_box: grows by the inside width", "mutation", CS,
     "        let offset = style.outside_stroke_width().saturating_as();\n\n        self.bounding_box().offset(offset)",
     "        let offset = style.inside_stroke_width().saturating_as();\n\n        self.bounding_box().offset(offset)",
     ["Circle_styled_bounding_box_src_eq_model"]),
    ("Scanline::draw: the early return written as if / else", "harmless", SC,
     "        if self.is_empty() {\n            return Ok(());\n        }\n\n        let width = (self.x.end - self.x.start) as u32;\n\n        target.fill_solid(\n            &Rectangle::new(Point::new(self.x.start, self.y), Size::new(width, 1)),\n            color,\n        )",
     "        if self.is_empty() {\n            Ok(())\n        } else {\n            let w = (self.x.end - self.x.start) as u32;\n            target.fill_solid(&Rectangle::new(Point::new(self.x.start, self.y), Size::new(w, 1)), color)\n        }", []),
    ("Circle::draw_styled: the two areas bound to locals before the loop", "harmless", CS,
     "            (Some(stroke_color), None) => {\n                for scanline in\n                    StyledScanlines::new(&style.stroke_area(self), &style.fill_area(self))\n                {",
     "            (Some(stroke_color), None) => {\n                let sa = style.stroke_area(self);\n                let fa = style.fill_area(self);\n                for scanline in StyledScanlines::new(&sa, &fa) {", []),
    ("Circle::draw_styled: `draw_iter` on the target (a target call this part does not know)", "unknown", CS,
     "                    scanline.draw(target, fill_color)?;", "                    target.draw_iter(scanline.map(|p| Pixel(p, fill_color)))?;", []),
    # outside the subset
    ("Circle::contains: a `for` loop", "unknown", CM,
     "        let delta = self.center_2x() - point * 2;\n", "        for _k in 0..1 {}\n        let delta = self.center_2x() - point * 2;\n", []),
    ("length_squared: `wrapping_pow`", "unknown", GE,
     "self.x.pow(2) + self.y.pow(2)", "self.x.wrapping_pow(2) + self.y.pow(2)", []),
    ("circle Scanlines::next: `.rev()` before `find`", "unknown", CP,
     "            .clone()\n            // find first pixel", "            .clone()\n            .rev()\n            // find first pixel", []),
]


def run(cmd, **kw):
    p = subprocess.run(cmd, stdout=subprocess.PIPE, stderr=subprocess.STDOUT, text=True, **kw)
    return p.returncode, p.stdout


def list_theorems(path):
    out = []
    for i, line in enumerate(open(path).read().splitlines(), 1):
        m = re.match(r"\s*theorem\s+(\S+)", line)
        if m:
            out.append((m.group(1), i))
    return out


def strip_lines(text):
    """the generated text without the source line numbers it quotes"""
    return re.sub(r"(line |\.rs:)\d+", r"\1N", text)


def seed_cases():
    out = []
    sd = os.path.join(V, "seeded")
    for d in sorted(os.listdir(sd)):
        pf = os.path.join(sd, d, "patch.diff")
        if not os.path.exists(pf):
            continue
        txt = open(pf).read()
        if any(("+++ b/" + rel) in txt for rel in SEED_FILES):
            out.append((f"seeded change {d}", "seed", pf, None, None, []))
    return out


def fresh_scratch():
    shutil.rmtree(SCRATCH, ignore_errors=True)
    os.makedirs(os.path.join(SCRATCH, "core"))
    shutil.copytree(os.path.join(REPO, "src"), os.path.join(SCRATCH, "src"))
    shutil.copytree(os.path.join(REPO, "core", "src"), os.path.join(SCRATCH, "core", "src"))


def broken_in(path, theorems, env, out_olean=None):
    cmd = ["lean", path]
    if out_olean:
        cmd += ["-o", out_olean]
    rc, out = run(cmd, env=env, cwd=LEAN)
    broken = set()
    for m in re.finditer(r":(\d+):\d+: error", out):
        ln = int(m.group(1))
        nm = None
        for (n, l) in theorems:
            if l <= ln:
                nm = n
        broken.add(nm or f"{os.path.basename(path)} line {ln}")
    if rc != 0 and not broken:
        broken.add(f"({os.path.basename(path)} does not build: {out.strip().splitlines()[0][:140] if out.strip() else rc})")
    return broken


def main():
    only = sys.argv[1:]
    cases = CASES
    seeds = False
    if only and only[0] == "--seeds":
        only = only[1:]
        cases = seed_cases()
        seeds = True
    rc, out = run(["lake", "build"] + [f"EG.Props.{p}.{m}" for p, m in MODS], cwd=LEAN)
    if rc != 0:
        print("the unchanged tree does not build the Generated* modules:\n" + out[-2000:])
        return 2
    rc, lean_path = run(["lake", "env", "printenv", "LEAN_PATH"], cwd=LEAN)
    lean_path = lean_path.strip().splitlines()[-1]
    real = [d for d in lean_path.split(":") if os.path.isdir(os.path.join(d, "EG"))][0]
    tmp = tempfile.mkdtemp(prefix="curvedemo-")
    props = {(p, m): os.path.join(LEAN, "EG", "Props", p, m + ".lean") for p, m in MODS}
    ths = {k: list_theorems(v) for k, v in props.items()}
    bad = 0
    tally = {}
    try:
        fresh_scratch()
        files, info = tr_curve.generate(SCRATCH)
        cur = open(os.path.join(LEAN, "EG", "Generated", "CurveSrc.lean")).read()
        print(f"baseline: {info.get('functions')} functions translated; identical to lean/EG/Generated/CurveSrc.lean: "
              f"{files['CurveSrc.lean'] == cur}")
        for idx, (name, kind, rel, old, new, expect) in enumerate(cases):
            if only and not any(o in name for o in only):
                continue
            fresh_scratch()
            if kind == "seed":
                rca, outa = run(["git", "apply", "--include=src/*", "--include=core/src/*", rel], cwd=SCRATCH)
                if rca != 0:
                    print(f"[{kind}] {name}: CANNOT APPLY the patch to /repo's sources ({outa.strip()[:160]})")
                    bad += 1
                    continue
            else:
                path = os.path.join(SCRATCH, rel)
                src = open(path).read()
                if src.count(old) != 1:
                    print(f"[{kind}] {name}: CANNOT APPLY (the text to replace occurs {src.count(old)} times): demo out of date")
                    bad += 1
                    continue
                open(path, "w").write(src.replace(old, new))
            files, info = tr_curve.generate(SCRATCH)
            unchanged = strip_lines(files["CurveSrc.lean"]) == strip_lines(cur)
            gen_dir = os.path.join(tmp, f"case{idx}")
            os.makedirs(os.path.join(gen_dir, "src", "EG", "Generated"))
            lib = os.path.join(gen_dir, "lib")
            os.makedirs(os.path.join(lib, "EG", "Generated"))
            pdirs = sorted({p for p, _ in MODS})
            for pd in pdirs:
                os.makedirs(os.path.join(lib, "EG", "Props", pd))
            for e in os.listdir(os.path.join(real, "EG")):
                if e not in ("Generated", "Props"):
                    os.symlink(os.path.join(real, "EG", e), os.path.join(lib, "EG", e))
            for e in os.listdir(os.path.join(real, "EG", "Generated")):
                if not e.startswith("CurveSrc."):
                    os.symlink(os.path.join(real, "EG", "Generated", e), os.path.join(lib, "EG", "Generated", e))
            for e in os.listdir(os.path.join(real, "EG", "Props")):
                if e not in pdirs:
                    os.symlink(os.path.join(real, "EG", "Props", e), os.path.join(lib, "EG", "Props", e))
            for pd in pdirs:
                mine = [m + "." for p2, m in MODS if p2 == pd]
                for e in os.listdir(os.path.join(real, "EG", "Props", pd)):
                    if not any(e.startswith(x) for x in mine):
                        os.symlink(os.path.join(real, "EG", "Props", pd, e), os.path.join(lib, "EG", "Props", pd, e))
            gsrc = os.path.join(gen_dir, "src", "EG", "Generated", "CurveSrc.lean")
            open(gsrc, "w").write(files["CurveSrc.lean"])
            env = dict(os.environ, LEAN_PATH=lean_path)
            rc1, out1 = run(["lean", "EG/Generated/CurveSrc.lean", "-o", os.path.join(lib, "EG", "Generated", "CurveSrc.olean")],
                            env=env, cwd=os.path.join(gen_dir, "src"))
            failed = "failed" in info
            broken = set()
            if rc1 != 0:
                broken.add("(generated file does not compile: " + out1.strip().splitlines()[0][:160] + ")")
            else:
                env2 = dict(os.environ, LEAN_PATH=lib + ":" + lean_path)
                for (p, m) in MODS:
                    o = os.path.join(lib, "EG", "Props", p, m + ".olean")
                    bb = broken_in(props[(p, m)], ths[(p, m)], env2, o)
                    broken |= bb
                    if bb:
                        if os.path.lexists(o):
                            os.remove(o)
                        os.symlink(os.path.join(real, "EG", "Props", p, m + ".olean"), o)
            if kind == "mutation":
                ok = (not failed) and all(e in broken for e in expect)
            elif kind == "seed":
                ok = len(broken) > 0 or (unchanged and name.split()[-1] in SEEDS_OUT_OF_SCOPE)
                how = "refused" if failed else ("theorem" if broken else ("untouched text" if unchanged else "MISSED"))
                tally[how] = tally.get(how, 0) + 1
            elif kind == "harmless":
                ok = (not failed) and not broken
            else:
                ok = failed and len(broken) > 0
            bad += 0 if ok else 1
            print(f"[{kind}] {name}")
            if failed:
                print(f"      translator: translationFailed = {info['failed']}")
            if kind == "seed" and unchanged:
                print("      the generated text is unchanged (the patch edits code this part does not translate)"
                      + (": " + SEEDS_OUT_OF_SCOPE[name.split()[-1]] if name.split()[-1] in SEEDS_OUT_OF_SCOPE else ""))
            print(f"      theorems that no longer build: {len(broken)}" + (": " + ", ".join(sorted(broken)[:8]) + (" ..." if len(broken) > 8 else "") if broken else " (all proofs survive)"))
            print(f"      {'as recorded' if ok else 'NOT AS RECORDED (expected ' + (', '.join(expect) if expect else kind) + ')'}")
        if seeds:
            print("seeds:", ", ".join(f"{k}={v}" for k, v in sorted(tally.items())))
    finally:
        shutil.rmtree(SCRATCH, ignore_errors=True)
        shutil.rmtree(tmp, ignore_errors=True)
    print("demo:", "all cases as recorded" if bad == 0 else f"{bad} case(s) differ")
    return 0 if bad == 0 else 1


if __name__ == "__main__":
    sys.exit(main())
