#!/usr/bin/env python3
"""trisrc_translator_demo.py — re-runs the demonstration of the SOURCE TRANSLATOR tie for the triangle / polyline code
(tools/tr_trisrc.py; theorems lean/EG/Props/C19/Generated.lean, C19/GeneratedPolyline.lean, C05/GeneratedTriangle.lean).

    python3 tools/tests/trisrc_translator_demo.py            # all cases, exit 0 iff every case behaves as recorded
    python3 tools/tests/trisrc_translator_demo.py --seeds    # instead: every seeded change under seeded/ whose patch
                                                             # touches a translated file

For each case a small edit is applied to the Rust text of a SCRATCH COPY of /repo (a detached git worktree
/tmp/vw/trigen-repo, removed at the end; /repo itself is never touched), the translator regenerates `TriSrc.lean` from
it, and the three theorem files are re-checked against the regenerated file, in import order, in a temp overlay of the
Lean build output (nothing inside the verif tree is written; needs an up-to-date build of the three modules, which
the script runs first). `GeneratedPolyline.lean` and `GeneratedTriangle.lean` import `Generated.lean`: when that file
stops building they cannot be checked (as in a real check) and are reported as `(files importing Generated.lean)`.

  kind `mutation`  a semantic change: the listed theorem(s) must STOP building
  kind `harmless`  a rewrite that keeps the meaning: every theorem must still build
  kind `unknown`   a construct outside the translator's Rust subset: the translator must say so (`translationFailed`)
                   and the theorems must stop building (no silent skipping)
  kind `seed`      a seeded change: caught when at least one theorem stops building or the translator refuses
"""
import os
import re
import shutil
import subprocess
import sys
import tempfile

V = os.path.dirname(os.path.dirname(os.path.dirname(os.path.abspath(__file__))))
sys.path.insert(0, os.path.join(V, "tools"))
import tr_trisrc  # noqa: E402

REPO = os.environ.get("EG_REPO", "/repo")
LEAN = os.path.join(V, "lean")
P19 = os.path.join(LEAN, "EG", "Props", "C19", "Generated.lean")
P19P = os.path.join(LEAN, "EG", "Props", "C19", "GeneratedPolyline.lean")
P05 = os.path.join(LEAN, "EG", "Props", "C05", "GeneratedTriangle.lean")
TRI = "src/primitives/triangle/mod.rs"
SIT = "src/primitives/triangle/scanline_iterator.rs"
SIX = "src/primitives/triangle/scanline_intersections.rs"
TPT = "src/primitives/triangle/points.rs"
PL = "src/primitives/polyline/mod.rs"
PPT = "src/primitives/polyline/points.rs"

# (name, kind, file, [(old text, new text)], theorems expected to break (subset check))
CASES = [
    ("sort_two_yx: `p1.x < p2.x` -> `p1.x <= p2.x`", "mutation", TRI,
     [("(p1.y == p2.y && p1.x < p2.x)", "(p1.y == p2.y && p1.x <= p2.x)")], ["sort_two_yx_src_eq_model"]),
    ("area_doubled: last product subtracted", "mutation", TRI,
     [("p1.x * (p2.y - p3.y) + p2.x * p3.y", "p1.x * (p2.y - p3.y) - p2.x * p3.y")], ["Triangle_area_doubled_src_eq_model"]),
    ("sorted_yx: result `new(y1, y3, y2)`", "mutation", TRI,
     [("Self::new(y1, y2, y3)", "Self::new(y1, y3, y2)")], ["Triangle_sorted_yx_src_eq_model"]),
    ("sorted_clockwise: CCW arm does not swap", "mutation", TRI,
     [("Self::new(self.vertices[1], self.vertices[0], self.vertices[2])", "Self::new(self.vertices[0], self.vertices[1], self.vertices[2])")],
     ["Triangle_sorted_clockwise_src_eq_model"]),
    ("bounding_box: `x_max` ignores the third vertex", "mutation", TRI,
     [("let x_max = max(max(p1.x, p2.x), p3.x);", "let x_max = max(p1.x, p2.x);")], ["Triangle_bounding_box_src_eq_model"]),
    ("scanline_intersection: colinear arm intersects `Line(p1, p2)`", "mutation", TRI,
     [("scanline.bresenham_intersection(&Line::new(p1, p3));\n\n            return scanline;", "scanline.bresenham_intersection(&Line::new(p1, p2));\n\n            return scanline;")],
     ["Triangle_scanline_intersection_src_eq_model"]),
    ("ScanlineIterator::new: `sorted_yx` instead of `sorted_clockwise`", "mutation", SIT,
     [("let triangle = triangle.sorted_clockwise();", "let triangle = triangle.sorted_yx();")], ["ScanlineIterator_new_src_eq_model"]),
    ("ScanlineIterator::next: the intersections are not reset for the new row", "mutation", SIT,
     [("            self.intersections.reset_with_new_scanline(self.scanline_y);\n", "")], ["ScanlineIterator_next_src_eq_model"]),
    ("ScanlineIntersections::new: collapsed for every stroke offset but `Right`", "mutation", SIX,
     [("            && stroke_offset == StrokeOffset::Right;", "            && stroke_offset != StrokeOffset::Right;")], ["ScanlineIntersections_new_src_eq_model"]),
    ("ScanlineIntersections::new: `has_fill` not stored", "mutation", SIX,
     [("        let mut self_ = Self {\n            has_fill,\n", "        let mut self_ = Self {\n")], ["ScanlineIntersections_new_src_eq_model"]),
    ("generate_lines: fill between the OUTER ends of the two stroke pieces", "mutation", SIX,
     [("let start_x = first.x.end.min(second.x.end);", "let start_x = first.x.start.min(second.x.start);")], ["ScanlineIntersections_generate_lines_src_eq_model"]),
    ("generate_lines: no fill without stroke intersections", "mutation", SIX,
     [("(None, None) => self.triangle.scanline_intersection(scanline_y),", "(None, None) => Scanline::new_empty(scanline_y),")],
     ["ScanlineIntersections_generate_lines_src_eq_model"]),
    ("generate_lines: the fill line is typed `Stroke`", "mutation", SIX,
     [("                internal,\n                internal_type: PointType::Fill,", "                internal,\n                internal_type: PointType::Stroke,")],
     ["ScanlineIntersections_generate_lines_src_eq_model"]),
    ("ScanlineIntersections::next: first stroke piece before the fill", "mutation", SIX,
     [("if let Some(internal) = self.lines.internal.try_take() {\n            Some((internal, self.lines.internal_type))\n        } else if let Some(first) = self.lines.first.try_take() {\n            Some((first, PointType::Stroke))",
       "if let Some(first) = self.lines.first.try_take() {\n            Some((first, PointType::Stroke))\n        } else if let Some(internal) = self.lines.internal.try_take() {\n            Some((internal, self.lines.internal_type))")],
     ["ScanlineIntersections_next_src_eq_model"]),
    ("ScanlineIntersections::next: the second stroke piece is typed `Fill`", "mutation", SIX,
     [("Some((second, PointType::Stroke))", "Some((second, PointType::Fill))")], ["ScanlineIntersections_next_src_eq_model"]),
    ("triangle Points::new: `has_fill = false`", "mutation", TPT,
     [("            StrokeOffset::None,\n            true,", "            StrokeOffset::None,\n            false,")], ["TriPoints_new_src_eq_model"]),
    ("triangle Points::next: first point of a new line dropped", "mutation", TPT,
     [("            self.current_line = self.scanline_iter.next()?.0;\n\n            self.current_line.next()",
       "            self.current_line = self.scanline_iter.next()?.0;\n\n            None")], ["TriPoints_next_src_eq_model"]),
    ("triangle Points: an override of `Iterator::size_hint` added (no translated body changes)", "mutation", TPT,
     [("impl Iterator for Points {\n    type Item = Point;\n", "impl Iterator for Points {\n    type Item = Point;\n\n    fn size_hint(&self) -> (usize, Option<usize>) {\n        (0, None)\n    }\n")],
     ["tri_untranslated_pinned"]),
    ("contains: the defect repaired by e184c3d (`t <= 0` not checked for CCW triangles)", "mutation", TRI,
     [("s <= 0 && t <= 0 && s + t >= a", "s <= 0 && s + t >= a")], ["Triangle_contains_src_eq_model"]),
    ("contains: `s >= 0` -> `s > 0`", "mutation", TRI,
     [("s >= 0 && t >= 0 && s + t <= a", "s > 0 && t >= 0 && s + t <= a")], ["Triangle_contains_src_eq_model"]),
    ("contains: zero-area early return removed", "mutation", TRI,
     [("            if a == 0 {\n                return false;\n            }\n", "")], ["Triangle_contains_src_eq_model"]),
    ("contains: third edge line not searched", "mutation", TRI,
     [("            .chain(Line::new(p2, p3).points())\n", "")], ["Triangle_contains_src_eq_model"]),
    ("contains: edge lines of the unsorted triangle", "mutation", TRI,
     [("let [p1, p2, p3] = self.sorted_yx().vertices;\n\n        // Special case", "let [p1, p2, p3] = self.vertices;\n\n        // Special case")],
     ["Triangle_contains_src_eq_model"]),
    ("polyline Points::new: keeps the first vertex", "mutation", PPT,
     [("rest.first().map(|end| Points {\n                    vertices: rest,", "rest.first().map(|end| Points {\n                    vertices: polyline.vertices,")],
     ["PolyPoints_new_src_eq_model"]),
    ("polyline Points::next: `self.nth(0)` (joint emitted twice)", "mutation", PPT,
     [("self.nth(1)", "self.nth(0)")], ["PolyPoints_next_fuel_src_eq_model"]),
    ("polyline Points::next: the end of the next segment is not translated", "mutation", PPT,
     [("self.segment_iter = Line::new(*start + self.translate, *end + self.translate).points();",
       "self.segment_iter = Line::new(*start + self.translate, *end).points();")], ["PolyPoints_next_fuel_src_eq_model"]),
    ("polyline Points::next: `self.vertices = rest` dropped", "mutation", PPT,
     [("            self.vertices = rest;\n", "")], ["PolyPoints_next_fuel_src_eq_model"]),
    ("Polyline::translate replaces the offset", "mutation", PL,
     [("translate: self.translate + by,", "translate: by,")], ["Polyline_translate_src_eq_model"]),
    # harmless rewrites
    ("bounding_box: local `x_min` renamed", "harmless", TRI,
     [("let x_min = min(min(p1.x, p2.x), p3.x);", "let left = min(min(p1.x, p2.x), p3.x);"), ("Point::new(x_min, y_min)", "Point::new(left, y_min)")], []),
    ("bounding_box: two independent `let`s reordered", "harmless", TRI,
     [("        let x_min = min(min(p1.x, p2.x), p3.x);\n        let y_min = min(min(p1.y, p2.y), p3.y);\n",
       "        let y_min = min(min(p1.y, p2.y), p3.y);\n        let x_min = min(min(p1.x, p2.x), p3.x);\n")], []),
    ("contains: closure parameter renamed", "harmless", TRI,
     [(".any(|line_point| line_point == p)", ".any(|lp| lp == p)")], []),
    ("sort_two_yx: extra parentheses", "harmless", TRI,
     [("(p1.y == p2.y && p1.x < p2.x)", "((p1.y == p2.y) && (p1.x < p2.x))")], []),
    ("triangle Points::new: a local inlined into the struct literal", "harmless", TPT,
     [("        let current_line = Scanline::new_empty(0);\n", ""), ("            scanline_iter,\n            current_line,\n", "            scanline_iter,\n            current_line: Scanline::new_empty(0),\n")], []),
    ("polyline Points::next: pattern variable renamed", "harmless", PPT,
     [("if let Some(p) = self.segment_iter.next() {\n            Some(p)", "if let Some(q) = self.segment_iter.next() {\n            Some(q)")], []),
    ("scanline_intersection: early `return scanline;` written as `if / else`", "harmless", TRI,
     [("            scanline.bresenham_intersection(&Line::new(p1, p3));\n\n            return scanline;\n        }\n\n        scanline.bresenham_intersection(&Line::new(p1, p2));\n        scanline.bresenham_intersection(&Line::new(p1, p3));\n        scanline.bresenham_intersection(&Line::new(p2, p3));\n",
       "            scanline.bresenham_intersection(&Line::new(p1, p3));\n        } else {\n            scanline.bresenham_intersection(&Line::new(p1, p2));\n            scanline.bresenham_intersection(&Line::new(p1, p3));\n            scanline.bresenham_intersection(&Line::new(p2, p3));\n        }\n")], []),
    ("generate_lines: locals `start_x` / `end_x` inlined into the struct literal", "harmless", SIX,
     [("                        let start_x = first.x.end.min(second.x.end);\n                        let end_x = first.x.start.max(second.x.start);\n", ""),
      ("                            x: start_x..end_x,", "                            x: first.x.end.min(second.x.end)..first.x.start.max(second.x.start),")], []),
    # constructs outside the subset
    ("a `for` loop in sorted_yx", "unknown", TRI,
     [("        Self::new(y1, y2, y3)\n", "        for _i in 0..1 {}\n        Self::new(y1, y2, y3)\n")], []),
    ("`wrapping_mul` in area_doubled", "unknown", TRI,
     [("+ p2.x * p3.y\n", "+ p2.x.wrapping_mul(p3.y)\n")], []),
    ("a `while` loop in polyline Points::next", "unknown", PPT,
     [("            self.vertices = rest;\n", "            while false {}\n            self.vertices = rest;\n")], []),
]


def run(cmd, **kw):
    p = subprocess.run(cmd, stdout=subprocess.PIPE, stderr=subprocess.STDOUT, text=True, **kw)
    return p.returncode, p.stdout


def list_theorems(path):
    out = []
    for i, line in enumerate(open(path).read().splitlines(), 1):
        m = re.match(r"\s*theorem\s+(\S+)", line)
        if m:
            out.append((m.group(1), i))
    return out


# seeded changes that touch a translated FILE but only a function that is not translated (listed in `TriSrc.untranslated`)
SEEDS_OUT_OF_SCOPE = {
    "C02-r2-2": "changes `Triangle::is_collapsed` (thick strokes, C02's topic), which is not translated",
    "C07-3": "changes `Dimensions::bounding_box` of `Polyline` (C07's topic), which is not translated",
    "C19-3": "changes the `from_fn` closure of `ScanlineIntersections::edge_intersections` (thick strokes), which is not translated",
}


def seed_cases():
    out = []
    sd = os.path.join(V, "seeded")
    for d in sorted(os.listdir(sd)):
        pf = os.path.join(sd, d, "patch.diff")
        if not os.path.exists(pf):
            continue
        txt = open(pf).read()
        if any(("+++ b/" + rel) in txt for _, rel in tr_trisrc.FILES):
            out.append((f"seeded change {d}", "seed", pf, None, []))
    return out


def check_file(pf, ths, env, out_olean=None):
    cmd = ["lean", pf]
    if out_olean:
        cmd += ["-o", out_olean, "-i", out_olean[:-6] + ".ilean"]
    rc, out = run(cmd, env=env, cwd=LEAN)
    broken = set()
    for m in re.finditer(r":(\d+):\d+: error", out):
        ln = int(m.group(1))
        nm = None
        for (n, l) in ths:
            if l <= ln:
                nm = n
        broken.add(nm or f"{os.path.basename(pf)} line {ln}")
    if rc != 0 and not broken:
        broken.add(f"({os.path.basename(pf)}: " + (out.strip().splitlines() or ["?"])[0][:160] + ")")
    return broken


def main():
    only = sys.argv[1:]
    cases = CASES
    if only and only[0] == "--seeds":
        only = only[1:]
        cases = seed_cases()
    rc, out = run(["lake", "build", "EG.Props.C19.Generated", "EG.Props.C19.GeneratedPolyline", "EG.Props.C05.GeneratedTriangle"], cwd=LEAN)
    if rc != 0:
        print("the unchanged tree does not build the three theorem modules:\n" + out[-2000:])
        return 2
    rc, lean_path = run(["lake", "env", "printenv", "LEAN_PATH"], cwd=LEAN)
    lean_path = lean_path.strip().splitlines()[-1]
    tmp = tempfile.mkdtemp(prefix="tridemo-")
    os.makedirs("/tmp/vw", exist_ok=True)
    scratch = "/tmp/vw/trigen-repo"
    run(["git", "-C", REPO, "worktree", "remove", "--force", scratch])
    rc, out = run(["git", "-C", REPO, "worktree", "add", "--detach", scratch, "HEAD"])
    if rc != 0:
        print("cannot create the scratch worktree:", out)
        return 2
    th19, th19p, th05 = list_theorems(P19), list_theorems(P19P), list_theorems(P05)
    bad = 0
    try:
        files, info = tr_trisrc.generate(scratch)
        baseline = files["TriSrc.lean"]
        cur = open(os.path.join(LEAN, "EG", "Generated", "TriSrc.lean")).read()
        print(f"baseline: {info.get('functions')} functions translated; identical to lean/EG/Generated/TriSrc.lean: {baseline == cur}")
        real = [d for d in lean_path.split(":") if os.path.isdir(os.path.join(d, "EG"))][0]
        for idx, (name, kind, rel, edits, expect) in enumerate(cases):
            if only and not any(o in name for o in only):
                continue
            run(["git", "-C", scratch, "checkout", "-q", "--", "."])
            run(["git", "-C", scratch, "clean", "-fdq"])
            if kind == "seed":
                rca, outa = run(["git", "-C", scratch, "apply", rel])
                if rca != 0:
                    print(f"[{kind}] {name}: CANNOT APPLY the patch to /repo's HEAD ({outa.strip()[:120]})")
                    bad += 1
                    continue
            else:
                path = os.path.join(scratch, rel)
                src = open(path).read()
                okapply = True
                for old, new in edits:
                    if src.count(old) != 1:
                        print(f"[{kind}] {name}: CANNOT APPLY (the text `{old[:40]}..` occurs {src.count(old)} times): demo out of date")
                        okapply = False
                        break
                    src = src.replace(old, new)
                if not okapply:
                    bad += 1
                    continue
                open(path, "w").write(src)
            files, info = tr_trisrc.generate(scratch)
            failed = "failed" in info
            gen_dir = os.path.join(tmp, f"case{idx}")
            lib = os.path.join(gen_dir, "lib")
            # overlay of the build output: everything symlinked except EG/Generated/TriSrc.*, EG/Props/C19/Generated*.*, EG/Props/C05/GeneratedTriangle.*
            for sub in ("EG/Generated", "EG/Props/C19", "EG/Props/C05"):
                os.makedirs(os.path.join(lib, sub))
            os.makedirs(os.path.join(gen_dir, "src", "EG", "Generated"))

            def link_dir(subdir, skip):
                for e in os.listdir(os.path.join(real, subdir)):
                    dst = os.path.join(lib, subdir, e)
                    if os.path.exists(dst) or skip(e):
                        continue
                    os.symlink(os.path.join(real, subdir, e), dst)
            link_dir("EG", lambda e: e in ("Generated", "Props"))
            os.makedirs(os.path.join(lib, "EG", "Props"), exist_ok=True)
            link_dir("EG/Props", lambda e: e in ("C19", "C05"))
            link_dir("EG/Generated", lambda e: e.startswith("TriSrc."))
            link_dir("EG/Props/C19", lambda e: e.startswith("Generated"))
            link_dir("EG/Props/C05", lambda e: e.startswith("GeneratedTriangle."))
            env = dict(os.environ, LEAN_PATH=lib + ":" + lean_path)
            broken = set()
            same = files["TriSrc.lean"] == baseline
            if not same:
                open(os.path.join(gen_dir, "src", "EG", "Generated", "TriSrc.lean"), "w").write(files["TriSrc.lean"])
                rc1, out1 = run(["lean", "EG/Generated/TriSrc.lean", "-o", os.path.join(lib, "EG", "Generated", "TriSrc.olean"),
                                 "-i", os.path.join(lib, "EG", "Generated", "TriSrc.ilean")], env=env, cwd=os.path.join(gen_dir, "src"))
                if rc1 != 0:
                    broken.add("(TriSrc.lean does not compile: " + out1.strip().splitlines()[0][:160] + ")")
                else:
                    b19 = check_file(P19, th19, env, os.path.join(lib, "EG", "Props", "C19", "Generated.olean"))
                    broken |= b19
                    if b19:
                        broken.add("(files importing Generated.lean)")
                    else:
                        broken |= check_file(P19P, th19p, env)
                        broken |= check_file(P05, th05, env)
            if kind == "mutation":
                ok = (not failed) and all(e in broken for e in expect)
            elif kind == "seed":
                ok = len(broken) > 0
                oos = [r for k, r in SEEDS_OUT_OF_SCOPE.items() if name.endswith(" " + k)]
                if oos:
                    ok = not broken
                    name += f"\n      (out of scope, expected to survive: {oos[0]})"
            elif kind == "harmless":
                ok = (not failed) and not broken
            else:
                ok = failed and len(broken) > 0
            bad += 0 if ok else 1
            print(f"[{kind}] {name}")
            if failed:
                print(f"      translator: translationFailed = {info.get('failed')}")
            if same:
                print("      the generated text is unchanged")
            print(f"      theorems that no longer build: {len(broken)}" + (": " + ", ".join(sorted(broken)[:8]) + (" ..." if len(broken) > 8 else "") if broken else " (all proofs survive)"))
            print(f"      {'as recorded' if ok else 'NOT AS RECORDED (expected ' + (', '.join(expect) if expect else kind) + ')'}")
    finally:
        run(["git", "-C", REPO, "worktree", "remove", "--force", scratch])
        shutil.rmtree(tmp, ignore_errors=True)
    print("demo:", "all cases as recorded" if bad == 0 else f"{bad} case(s) differ")
    return 0 if bad == 0 else 1


if __name__ == "__main__":
    sys.exit(main())
