#!/usr/bin/env python3
"""img_translator_demo.py — re-runs the demonstration of the SOURCE TRANSLATOR tie for the image layer (tools/tr_imgsrc.py).

    python3 tools/tests/img_translator_demo.py            # all cases, exit 0 iff every case behaves as recorded
    python3 tools/tests/img_translator_demo.py --seeds    # instead: every seeded change under seeded/ whose patch touches
                                                          # src/image/*.rs or src/framebuffer.rs

For each case a small edit is applied to the Rust text of a SCRATCH COPY of /repo (a detached git worktree under
/tmp/vw/imggen-repo-<pid>, removed at the end; /repo itself is never touched), the translator regenerates `ImgSrc.lean`
and `FbReadSrc.lean` from it, and the equivalence theorems are re-checked against the regenerated files, in import
order: Props/C09/Generated.lean, then (only when that still compiles) Props/C09/GeneratedSub.lean and
Props/C10/GeneratedRead.lean, each against the freshly compiled predecessors. Nothing inside the verif tree is written:
regenerated files and their .olean live in a temp overlay put in front of LEAN_PATH (requires an up-to-date
`lake build EG.Props.C09.GeneratedSub EG.Props.C10.GeneratedRead`, which the script runs first).

  kind `mutation`  a semantic change: the listed theorem(s) must STOP building
  kind `harmless`  a rewrite that keeps the meaning: every theorem must still build
  kind `unknown`   a construct outside the translator's Rust subset: the translator must say so (`translationFailed`)
                   and the theorems must stop building (no silent skipping)
"""
import os
import re
import shutil
import subprocess
import sys
import tempfile

V = os.path.dirname(os.path.dirname(os.path.dirname(os.path.abspath(__file__))))
sys.path.insert(0, os.path.join(V, "tools"))
import tr_imgsrc  # noqa: E402

REPO = os.environ.get("EG_REPO", "/repo")
LEAN = os.path.join(V, "lean")
P_GEN = os.path.join(LEAN, "EG", "Props", "C09", "Generated.lean")
P_SUB = os.path.join(LEAN, "EG", "Props", "C09", "GeneratedSub.lean")
P_FB = os.path.join(LEAN, "EG", "Props", "C10", "GeneratedRead.lean")
IR = "src/image/image_raw.rs"
SI = "src/image/sub_image.rs"
MOD = "src/image/mod.rs"
FB = "src/framebuffer.rs"

# (name, kind, file, [(old text, new text)..], theorems expected to break (subset check))
CASES = [
    ("bytes_per_row: `+ 7` -> `+ 8`", "mutation", IR, [("(width as usize * bits_per_pixel + 7) / 8", "(width as usize * bits_per_pixel + 8) / 8")],
     ["bytes_per_row_src_eq_model"]),
    ("ImageRaw::new: length check `!=` -> `<`", "mutation", IR, [("if data.len() != expected_size {", "if data.len() < expected_size {")],
     ["ImageRaw_new_src_eq_model"]),
    ("data_width: `8 / BITS_PER_PIXEL` -> `4 / BITS_PER_PIXEL`", "mutation", IR,
     [("let pixels_per_byte = 8 / C::Raw::BITS_PER_PIXEL as u32;", "let pixels_per_byte = 4 / C::Raw::BITS_PER_PIXEL as u32;")],
     ["data_width_src_eq_model"]),
    ("pixel: `p.x` compared with the height", "mutation", IR, [("p.x >= self.size.width as i32", "p.x >= self.size.height as i32")],
     ["pixel_src_eq_model"]),
    ("pixel: row stride `width` instead of the padded `data_width()`", "mutation", IR,
     [(".nth(p.x as usize + p.y as usize * self.data_width() as usize)", ".nth(p.x as usize + p.y as usize * self.size.width as usize)")],
     ["pixel_src_eq_model"]),
    ("ContiguousPixels::new: `remaining_y = height` (the defect repaired by e36e294: one row too many)", "mutation", IR,
     [("(size.width, size.height - 1)", "(size.width, size.height)")], ["ContiguousPixels_new_src_eq_model"]),
    ("ContiguousPixels::next: `remaining_x = width` after a row change", "mutation", IR,
     [("self.remaining_x = self.width - 1;", "self.remaining_x = self.width;")], ["ContiguousPixels_next_src_eq_model"]),
    ("ContiguousPixels::next: the row padding is not skipped (`next()` for `nth(row_skip)`)", "mutation", IR,
     [("self.iter.nth(self.row_skip)", "self.iter.next()")], ["ContiguousPixels_next_src_eq_model"]),
    ("draw: `row_skip` 0", "mutation", IR, [("ContiguousPixels::new(self, self.size, 0, row_skip as usize)", "ContiguousPixels::new(self, self.size, 0, 0)")],
     ["draw_fuel_src_eq_model"]),
    ("draw_sub_image: x and y swapped in `initial_skip`", "mutation", IR,
     [("let initial_skip = area.top_left.y as usize * data_width + area.top_left.x as usize;",
       "let initial_skip = area.top_left.x as usize * data_width + area.top_left.y as usize;")], ["draw_sub_image_fuel_src_eq_model"]),
    ("draw_sub_image: the right edge of the area is compared with the image's height", "mutation", IR,
     [("                > u64::from(self.size.width)", "                > u64::from(self.size.height)")], ["draw_sub_image_fuel_src_eq_model"]),
    ("draw_sub_image: fills `area` instead of the box of its size at the origin", "mutation", IR,
     [("&Rectangle::new(Point::zero(), area.size),\n            ContiguousPixels::new(self, area.size, initial_skip, row_skip),", "area,\n            ContiguousPixels::new(self, area.size, initial_skip, row_skip),")],
     ["draw_sub_image_fuel_src_eq_model"]),
    ("crop_range: crops to `parent_length` instead of `parent_length + 1`", "mutation", SI,
     [(".min(i64::from(parent_length) + 1)", ".min(i64::from(parent_length))")], ["crop_range_src"]),
    ("crop_range: `start.max(0)`", "mutation", SI, [("let start = start.max(-1);", "let start = start.max(0);")], ["crop_range_src"]),
    ("SubImage::new: the intersection with the parent's box is dropped", "mutation", SI,
     [("let area = parent_area.intersection(&crop_area(area, parent_area.size));", "let area = crop_area(area, parent_area.size);")],
     ["SubImage_new_src_eq_model"]),
    ("SubImage::draw_sub_image: `Point::new(y, x)`", "mutation", SI, [("(Some(x), Some(y)) => Point::new(x, y),", "(Some(x), Some(y)) => Point::new(y, x),")],
     ["SubImage_draw_sub_image_src"]),
    ("SubImage::draw_sub_image: the stored corner is not added (x)", "mutation", SI,
     [("area.top_left.x.checked_add(self.area.top_left.x),", "area.top_left.x.checked_add(0),")], ["SubImage_draw_sub_image_src"]),
    ("SubImage::draw draws the whole parent", "mutation", SI, [("self.parent.draw_sub_image(target, &self.area)", "self.parent.draw(target)")],
     ["SubImage_draw_src"]),
    ("SubImage: a function added to the impl (no translated body changes)", "mutation", SI,
     [("    pub(crate) const fn new_unchecked(parent: &'a T, area: Rectangle) -> Self {\n        Self { parent, area }\n    }\n",
       "    pub(crate) const fn new_unchecked(parent: &'a T, area: Rectangle) -> Self {\n        Self { parent, area }\n    }\n\n    pub fn parent_area(&self) -> Rectangle {\n        self.area\n    }\n")],
     ["img_untranslated_pinned"]),
    ("Image::with_center: the centre is used as the corner", "mutation", MOD,
     [("let offset = Rectangle::with_center(center, image_drawable.size()).top_left;", "let offset = Rectangle::new(center, image_drawable.size()).top_left;")],
     ["Image_with_center_src_eq_model"]),
    ("Image::draw: the offset is not applied", "mutation", MOD, [(".draw(&mut display.translated(self.offset))", ".draw(&mut display.translated(Point::zero()))")],
     ["Image_draw_src_eq_model"]),
    ("Image::translate ignores `by`", "mutation", MOD, [("            offset: self.offset + by,", "            offset: self.offset,")], ["Image_translate_src_eq_model"]),
    ("Image::translate_mut assigns instead of adding", "mutation", MOD, [("        self.offset += by;", "        self.offset = by;")],
     ["Image_translate_mut_src_eq_model"]),
    ("Framebuffer::as_image: width and height exchanged", "mutation", FB, [("Size::new(WIDTH as u32, HEIGHT as u32),\n        )\n        .unwrap()", "Size::new(HEIGHT as u32, WIDTH as u32),\n        )\n        .unwrap()")],
     ["as_image_src_eq_model"]),
    ("Framebuffer::pixel reads the origin", "mutation", FB, [("self.as_image().pixel(p)", "self.as_image().pixel(Point::zero())")],
     ["Framebuffer_pixel_src_eq_model"]),
    ("buffer_size: width and height exchanged", "mutation", FB, [("buffer_size_bpp(width, height, C::Raw::BITS_PER_PIXEL)", "buffer_size_bpp(height, width, C::Raw::BITS_PER_PIXEL)")],
     ["buffer_size_src_eq_model"]),
    ("Framebuffer: a function added (no translated body changes)", "mutation", FB,
     [("    pub fn data_mut(&mut self) -> &mut [u8; N] {\n        &mut self.data\n    }\n",
       "    pub fn data_mut(&mut self) -> &mut [u8; N] {\n        &mut self.data\n    }\n\n    pub fn wipe(&mut self) {\n        self.data = [0; N];\n    }\n")],
     ["fb_read_untranslated_pinned"]),
    ("ImageRaw::new: local `expected_size` renamed", "harmless", IR,
     [("let expected_size =\n", "let wanted =\n"), ("if data.len() != expected_size {", "if data.len() != wanted {"),
      ("expected_data_size: expected_size,", "expected_data_size: wanted,")], []),
    ("ImageRaw::new: the early `return Err(..)` written as `if / else`", "harmless", IR,
     [("            return Err(ImageRawError::InvalidDataSize {\n                expected_data_size: expected_size,\n            });\n        }\n\n        Ok(Self {\n            data,\n            size,\n            pixel_type: PhantomData,\n            data_order: PhantomData,\n        })",
       "            Err(ImageRawError::InvalidDataSize {\n                expected_data_size: expected_size,\n            })\n        } else {\n            Ok(Self {\n                data,\n                size,\n                pixel_type: PhantomData,\n                data_order: PhantomData,\n            })\n        }")], []),
    ("pixel: closure parameter renamed", "harmless", IR, [(".map(|r| r.into())", ".map(|raw| raw.into())")], []),
    ("draw: the local `row_skip` inlined", "harmless", IR,
     [("        let row_skip = self.data_width() - self.size.width;\n\n", ""),
      ("ContiguousPixels::new(self, self.size, 0, row_skip as usize)", "ContiguousPixels::new(self, self.size, 0, (self.data_width() - self.size.width) as usize)")], []),
    ("draw_sub_image: two independent `let`s reordered", "harmless", IR,
     [("        let initial_skip = area.top_left.y as usize * data_width + area.top_left.x as usize;\n        let row_skip = data_width - area.size.width as usize;\n",
       "        let row_skip = data_width - area.size.width as usize;\n        let initial_skip = area.top_left.y as usize * data_width + area.top_left.x as usize;\n")], []),
    ("bytes_per_row: extra parentheses", "harmless", IR, [("(width as usize * bits_per_pixel + 7) / 8", "(((width as usize) * bits_per_pixel) + 7) / 8")], []),
    ("crop_area: locals renamed", "harmless", SI,
     [("let (x, width) = crop_range(area.top_left.x, area.size.width, parent_size.width);", "let (left, w) = crop_range(area.top_left.x, area.size.width, parent_size.width);"),
      ("Rectangle::new(Point::new(x, y), Size::new(width, height))", "Rectangle::new(Point::new(left, y), Size::new(w, height))")], []),
    ("SubImage::draw_sub_image: pattern variables renamed", "harmless", SI,
     [("(Some(x), Some(y)) => Point::new(x, y),", "(Some(a), Some(b)) => Point::new(a, b),")], []),
    ("Image::with_center: the local `offset` inlined into the struct literal", "harmless", MOD,
     [("        let offset = Rectangle::with_center(center, image_drawable.size()).top_left;\n\n        Self {\n            image_drawable,\n            offset,\n        }",
       "        Self {\n            image_drawable,\n            offset: Rectangle::with_center(center, image_drawable.size()).top_left,\n        }")], []),
    ("data_width: a `for` loop (outside the Rust subset)", "unknown", IR,
     [("    const fn data_width(&self) -> u32 {\n", "    const fn data_width(&self) -> u32 {\n        for _k in 0..1 {}\n")], []),
    ("draw_sub_image: a method the prelude does not know (`wrapping_sub`)", "unknown", IR,
     [("let row_skip = data_width - area.size.width as usize;", "let row_skip = data_width.wrapping_sub(area.size.width as usize);")], []),
    ("draw_sub_image: `>=` on `u64` (a primitive the prelude does not define)", "unknown", IR,
     [("                > u64::from(self.size.width)", "                >= u64::from(self.size.width)")], []),
    ("SubImage::draw_sub_image: the parent's result through `?`", "unknown", SI,
     [("        self.parent\n            .draw_sub_image(target, &Rectangle::new(top_left, area.size))\n", "        self.parent\n            .draw_sub_image(target, &Rectangle::new(top_left, area.size))?;\n        Ok(())\n")], []),
    ("Framebuffer::as_image: a method the translator does not know (`expect`)", "unknown", FB,
     [("            Size::new(WIDTH as u32, HEIGHT as u32),\n        )\n        .unwrap()", "            Size::new(WIDTH as u32, HEIGHT as u32),\n        )\n        .expect(\"size\")")], []),
]


def run(cmd, **kw):
    p = subprocess.run(cmd, stdout=subprocess.PIPE, stderr=subprocess.STDOUT, text=True, **kw)
    return p.returncode, p.stdout


def list_theorems(path):
    out = []
    for i, line in enumerate(open(path).read().splitlines(), 1):
        m = re.match(r"\s*theorem\s+(\S+)", line)
        if m:
            out.append((m.group(1), i))
    return out


# seeded changes that touch one of the four files but no function this part translates: the proof tie cannot see them
SEEDS_OUT_OF_SCOPE = {
    "C10-1": "changes the WRITE path of src/framebuffer.rs (`set_pixel`): tools/tr_rawsrc.py's tie (raw_translator_demo.py --seeds catches it)",
    "C10-2": "changes the WRITE path of src/framebuffer.rs (`set_pixel`): tools/tr_rawsrc.py's tie",
    "C10-r2-1": "changes the WRITE path of src/framebuffer.rs (`set_pixel`): tools/tr_rawsrc.py's tie",
    "C10-r3-1": "changes the WRITE path of src/framebuffer.rs (`draw_iter`): tools/tr_rawsrc.py's tie",
}


def seed_cases():
    out = []
    sd = os.path.join(V, "seeded")
    for d in sorted(os.listdir(sd)):
        pf = os.path.join(sd, d, "patch.diff")
        if not os.path.exists(pf):
            continue
        txt = open(pf).read()
        meta = os.path.join(sd, d, "meta.json")
        if os.path.exists(meta) and '"superseded"' in open(meta).read():
            continue                      # neutralised by a later repair of /repo (does not apply any more)
        if any(("+++ b/" + rel) in txt for rel in tr_imgsrc.IMG_FILES + [tr_imgsrc.FB_FILE]):
            out.append((f"seeded change {d}", "seed", pf, None, []))
    return out


def overlay(real, gen_dir):
    """a copy (by symlinks) of the build output `real`/EG without the files this tie recompiles"""
    lib = os.path.join(gen_dir, "lib", "EG")
    skip = {"Generated": ("ImgSrc.", "FbReadSrc."), "Props/C09": ("Generated.", "GeneratedSub."), "Props/C10": ("GeneratedRead.",)}

    def link(rel):
        os.makedirs(os.path.join(lib, rel), exist_ok=True)
        for e in os.listdir(os.path.join(real, "EG", rel)):
            sub = (rel + "/" + e) if rel else e
            if sub in skip or any(k.startswith(sub + "/") for k in skip):
                link(sub)
            elif rel in skip and e.startswith(skip[rel]):
                continue
            else:
                os.symlink(os.path.join(real, "EG", rel, e), os.path.join(lib, rel, e))
    link("")
    return os.path.join(gen_dir, "lib")


def check(path, ths, env, out_olean=None, cwd=LEAN):
    """compile a file against the overlay: (names of broken theorems, compiled without error)"""
    cmd = ["lean", path]
    if out_olean:
        cmd += ["-o", out_olean + ".olean", "-i", out_olean + ".ilean"]
    rc, out = run(cmd, env=env, cwd=cwd)
    broken = set()
    for m in re.finditer(r":(\d+):\d+: error", out):
        ln = int(m.group(1))
        nm = None
        for (n, l) in ths:
            if l <= ln:
                nm = n
        broken.add(nm or f"{os.path.basename(path)} line {ln}")
    if rc != 0 and not broken:
        broken.add(f"({os.path.basename(path)}: " + (out.strip().splitlines() or ["?"])[0][:140] + ")")
    return broken, rc == 0


def main():
    only = sys.argv[1:]
    cases = CASES
    if only and only[0] == "--seeds":
        only = only[1:]
        cases = seed_cases()
    rc, out = run(["lake", "build", "EG.Props.C09.GeneratedSub", "EG.Props.C10.GeneratedRead"], cwd=LEAN)
    if rc != 0:
        print("the unchanged tree does not build the theorems:\n" + out[-2000:])
        return 2
    rc, lean_path = run(["lake", "env", "printenv", "LEAN_PATH"], cwd=LEAN)
    lean_path = lean_path.strip().splitlines()[-1]
    real = [d for d in lean_path.split(":") if os.path.isdir(os.path.join(d, "EG"))][0]
    tmp = tempfile.mkdtemp(prefix="imgdemo-")
    os.makedirs("/tmp/vw", exist_ok=True)
    scratch = f"/tmp/vw/imggen-repo-{os.getpid()}"
    rc, out = run(["git", "-C", REPO, "worktree", "add", "--detach", scratch, "HEAD"])
    if rc != 0:
        print("cannot create the scratch worktree:", out)
        return 2
    t_gen, t_sub, t_fb = list_theorems(P_GEN), list_theorems(P_SUB), list_theorems(P_FB)
    bad, tally = 0, {}
    try:
        baseline, info = tr_imgsrc.generate(scratch)
        cur = {n: open(os.path.join(LEAN, "EG", "Generated", n)).read() for n in baseline}
        print(f"baseline: {info.get('functions')} + {info.get('fb', {}).get('functions')} functions translated; identical to the "
              f"committed ImgSrc.lean / FbReadSrc.lean: {baseline['ImgSrc.lean'] == cur['ImgSrc.lean']} / {baseline['FbReadSrc.lean'] == cur['FbReadSrc.lean']}")
        for idx, (name, kind, rel, edits, expect) in enumerate(cases):
            if only and not any(o in name for o in only):
                continue
            run(["git", "-C", scratch, "checkout", "-q", "--", "."])
            run(["git", "-C", scratch, "clean", "-fdq"])
            if kind == "seed":
                rca, outa = run(["git", "-C", scratch, "apply", rel])
                if rca != 0:
                    print(f"[{kind}] {name}: CANNOT APPLY the patch to /repo's HEAD ({outa.strip()[:120]})")
                    bad += 1
                    continue
            else:
                path = os.path.join(scratch, rel)
                src = open(path).read()
                miss = [o for o, _ in edits if src.count(o) != 1]
                if miss:
                    print(f"[{kind}] {name}: CANNOT APPLY (the text to replace occurs {src.count(miss[0])} times): demo out of date")
                    bad += 1
                    continue
                for o, n in edits:
                    src = src.replace(o, n)
                open(path, "w").write(src)
            files, info = tr_imgsrc.generate(scratch)
            failed = info.get("failed") or info.get("fb_failed")
            same = all(files[n] == baseline[n] for n in files)
            gen_dir = os.path.join(tmp, f"case{idx}")
            lib = overlay(real, gen_dir)
            env = dict(os.environ, LEAN_PATH=lib + ":" + lean_path)
            srcd = os.path.join(gen_dir, "src", "EG", "Generated")
            os.makedirs(srcd)
            broken = set()
            ok_img = ok_fb = False
            if not same:
                open(os.path.join(srcd, "ImgSrc.lean"), "w").write(files["ImgSrc.lean"])
                open(os.path.join(srcd, "FbReadSrc.lean"), "w").write(files["FbReadSrc.lean"])
                b, ok_img = check("EG/Generated/ImgSrc.lean", [], env, os.path.join(lib, "EG", "Generated", "ImgSrc"), cwd=os.path.join(gen_dir, "src"))
                if not ok_img:
                    broken |= {"(ImgSrc.lean does not compile: " + ", ".join(sorted(b))[:160] + ")"}
                if ok_img:
                    b, ok_fb = check("EG/Generated/FbReadSrc.lean", [], env, os.path.join(lib, "EG", "Generated", "FbReadSrc"), cwd=os.path.join(gen_dir, "src"))
                    if not ok_fb:
                        broken |= {"(FbReadSrc.lean does not compile)"}
                    b, ok_gen = check(P_GEN, t_gen, env, os.path.join(lib, "EG", "Props", "C09", "Generated"))
                    broken |= b
                    if ok_gen:
                        b, _ = check(P_SUB, t_sub, env)
                        broken |= b
                        if ok_fb:
                            b, _ = check(P_FB, t_fb, env)
                            broken |= b
                    else:
                        broken.add("(GeneratedSub.lean / GeneratedRead.lean import Generated.lean: not checked)")
                if "failed" in info:
                    broken.add("(every theorem of Props/C09/Generated*.lean and Props/C10/GeneratedRead.lean: translationFailed)")
            real_broken = {b for b in broken if not b.startswith("(GeneratedSub.lean /")}
            if kind == "mutation":
                ok = (not failed) and all(e in broken for e in expect)
            elif kind == "seed":
                oos = [r for k, r in SEEDS_OUT_OF_SCOPE.items() if name.endswith(" " + k)]
                ok = len(real_broken) > 0
                if oos:
                    ok = not real_broken
                    name += f"\n      (out of scope, expected to survive: {oos[0]})"
                tally["caught by a theorem" if real_broken and not failed else ("translator refuses" if failed else "out of scope")] = \
                    tally.get("caught by a theorem" if real_broken and not failed else ("translator refuses" if failed else "out of scope"), 0) + 1
            elif kind == "harmless":
                ok = (not failed) and not broken
            else:
                ok = bool(failed) and len(real_broken) > 0
            bad += 0 if ok else 1
            print(f"[{kind}] {name}")
            if failed:
                print(f"      translator: translationFailed = {failed}")
            if same:
                print("      the generated files are unchanged (no translated body changed: not seen by this tie)")
            print(f"      theorems that no longer build: {len(real_broken)}" + (": " + ", ".join(sorted(real_broken)[:8]) + (" ..." if len(real_broken) > 8 else "") if real_broken else " (all proofs survive)"))
            print(f"      {'as recorded' if ok else 'NOT AS RECORDED (expected ' + (', '.join(expect) if expect else kind) + ')'}")
            shutil.rmtree(gen_dir, ignore_errors=True)
    finally:
        run(["git", "-C", REPO, "worktree", "remove", "--force", scratch])
        shutil.rmtree(tmp, ignore_errors=True)
    if tally:
        print("seeds:", ", ".join(f"{v} {k}" for k, v in sorted(tally.items())))
    print("demo:", "all cases as recorded" if bad == 0 else f"{bad} case(s) differ")
    return 0 if bad == 0 else 1


if __name__ == "__main__":
    sys.exit(main())
