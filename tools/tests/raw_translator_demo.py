#!/usr/bin/env python3
"""raw_translator_demo.py — re-runs the demonstration of the SOURCE TRANSLATOR tie for the raw data layer (tools/tr_rawsrc.py).

    python3 tools/tests/raw_translator_demo.py            # all cases, exit 0 iff every case behaves as recorded
    python3 tools/tests/raw_translator_demo.py --seeds    # instead: every seeded change under seeded/ that touches a
                                                          # translated file (patch.diff), expected to break a theorem

For each case a small edit is applied to the Rust text of a SCRATCH COPY of /repo (a detached git worktree under
/tmp/vw/rawgen-repo-<pid>, removed at the end; /repo itself is never touched), the translator regenerates `RawSrc.lean`
from it, and the equivalence theorems of lean/EG/Props/C11/Generated.lean are re-checked against the regenerated file.
Nothing inside the verif tree is written: the regenerated file and its .olean live in a temp directory that is put
in front of LEAN_PATH (requires an up-to-date `lake build EG.Props.C11.Generated`, which the script runs first).

  kind `mutation`  a semantic change: the listed `_src_eq_model` theorem(s) must STOP building
  kind `harmless`  a rewrite that keeps the meaning (renamed local, reordered independent lets, ...): every
                   theorem must still build
  kind `unknown`   a construct outside the translator's Rust subset: the translator must say so
                   (`translationFailed`), and the theorems must stop building (no silent skipping)
"""
import os
import re
import shutil
import subprocess
import sys
import tempfile

V = os.path.dirname(os.path.dirname(os.path.dirname(os.path.abspath(__file__))))
sys.path.insert(0, os.path.join(V, "tools"))
import tr_rawsrc  # noqa: E402

REPO = os.environ.get("EG_REPO", "/repo")
LEAN = os.path.join(V, "lean")
PROPS = os.path.join(LEAN, "EG", "Props", "C11", "Generated.lean")
LS = "core/src/pixelcolor/raw/load_store.rs"
MOD = "core/src/pixelcolor/raw/mod.rs"
TB = "core/src/pixelcolor/raw/to_bytes.rs"
IT = "src/iterator/raw.rs"
FB = "src/framebuffer.rs"
PROPS_FB = os.path.join(LEAN, "EG", "Props", "C10", "Generated.lean")

# (name, kind, file, old text, new text, theorems expected to break (subset check) )
CASES = [
    ("bit_position: the two data orders swapped (`if !O::IS_ALTERNATE_ORDER`)", "mutation", LS,
     "let bit_index = if O::IS_ALTERNATE_ORDER {", "let bit_index = if !O::IS_ALTERNATE_ORDER {",
     ["bit_position_src_eq_model"]),
    ("bit_position: `(pixels_per_byte - 1)` -> `pixels_per_byte`", "mutation", LS,
     "(pixels_per_byte - 1) - (index % pixels_per_byte)", "pixels_per_byte - (index % pixels_per_byte)",
     ["bit_position_src_eq_model"]),
    ("sub-byte load: `byte >> bit_index` -> `byte << bit_index`", "mutation", LS,
     ".map(|byte| byte >> bit_index)", ".map(|byte| byte << bit_index)",
     ["load_bits_src_eq_model"]),
    ("sub-byte store: the `!` of the clearing mask dropped", "mutation", LS,
     "(*byte & !(Self::MASK << bit_index))", "(*byte & (Self::MASK << bit_index))",
     ["store_bits_src_eq_model"]),
    ("sub-byte store: the new bits are and-ed in instead of or-ed", "mutation", LS,
     "| (self.into_inner() << bit_index);", "& (self.into_inner() << bit_index);",
     ["store_bits_src_eq_model"]),
    ("RawU8 store: the top bit of the value is dropped", "mutation", LS,
     ".map(|byte| *byte = self.0)", ".map(|byte| *byte = self.0 & 127)",
     ["store_u8_src_eq_model"]),
    ("RawU16 load: both orders read big endian", "mutation", LS,
     "                } else {\n                    u16::from_le_bytes(bytes)", "                } else {\n                    u16::from_be_bytes(bytes)",
     ["load_bytes_src_eq_model"]),
    ("RawU24 load: big endian bytes copied to `[0..3]` instead of `[1..4]`", "mutation", LS,
     "bytes_extended[1..4].copy_from_slice(&bytes);", "bytes_extended[0..3].copy_from_slice(&bytes);",
     ["load_bytes_src_eq_model"]),
    ("RawU16 load: window `get(0..2)` -> `get(0..1)`", "mutation", LS,
     ".and_then(|buffer| buffer.get(0..2))", ".and_then(|buffer| buffer.get(0..1))",
     ["load_bytes_src_eq_model"]),
    ("RawU32 store: offset `index * 2` instead of `index * 4`", "mutation", LS,
     "            .checked_mul(4)\n            .and_then(|start| buffer.get_mut(start..))", "            .checked_mul(2)\n            .and_then(|start| buffer.get_mut(start..))",
     ["store_bytes_src_eq_model"]),
    ("impl_raw_data!: `new` does not mask", "mutation", MOD,
     "$type(value & <Self as RawData>::MASK)", "$type(value)",
     ["new_src_eq_model", "load_bits_src_eq_model"]),
    ("impl_raw_data!: `MASK = MAX >> bpp`", "mutation", MOD,
     "Self::Storage::MAX >> (Self::Storage::BITS - $bpp);", "Self::Storage::MAX >> ($bpp);",
     ["MASK_src_eq_model"]),
    ("RawU24::to_be_bytes takes bytes `[0..3]` of the u32", "mutation", TB,
     "ret.copy_from_slice(&self.0.to_be_bytes()[1..4]);", "ret.copy_from_slice(&self.0.to_be_bytes()[0..3]);",
     ["to_bytes_src_eq_model"]),
    ("RawDataIterator::next advances by 2", "mutation", IT,
     "            self.index += 1;\n", "            self.index += 2;\n",
     ["Iterator_next_src_eq_model"]),
    ("RawDataIterator::nth: `saturating_add` -> `+`", "mutation", IT,
     "self.index = self.index.saturating_add(n);", "self.index = self.index + n;",
     ["Iterator_nth_src_eq_model"]),
    ("RawDataIterator::size_hint: `8 / BITS_PER_PIXEL` -> `8`", "mutation", IT,
     "self.data.len().saturating_mul(8 / R::BITS_PER_PIXEL)", "self.data.len().saturating_mul(8)",
     ["Iterator_size_hint_src_eq_model"]),
    ("RawDataIterator: an override of `Iterator::count` added (no translated body changes)", "mutation", IT,
     "        (size, Some(size))\n    }\n}\n", "        (size, Some(size))\n    }\n\n    fn count(self) -> usize {\n        0\n    }\n}\n",
     ["untranslated_pinned"]),
    ("bit_position: local `pixels_per_byte` renamed to `ppb`", "harmless", LS,
     "    let pixels_per_byte = 8 / R::BITS_PER_PIXEL;\n\n    let byte_index = index / pixels_per_byte;\n    let bit_index = if O::IS_ALTERNATE_ORDER {\n        index % pixels_per_byte\n    } else {\n        (pixels_per_byte - 1) - (index % pixels_per_byte)\n    }",
     "    let ppb = 8 / R::BITS_PER_PIXEL;\n\n    let byte_index = index / ppb;\n    let bit_index = if O::IS_ALTERNATE_ORDER {\n        index % ppb\n    } else {\n        (ppb - 1) - (index % ppb)\n    }",
     []),
    ("sub-byte load: closure parameter renamed, body parenthesised", "harmless", LS,
     ".map(|byte| byte >> bit_index)", ".map(|b| (b >> bit_index))",
     []),
    ("RawU8 load: `.map(Self::new)` written as a closure", "harmless", LS,
     "buffer.get(index).copied().map(Self::new)", "buffer.get(index).copied().map(|v| Self::new(v))",
     []),
    ("RawU16 store: condition negated and the arms swapped", "harmless", LS,
     "        let bytes = if O::IS_ALTERNATE_ORDER {\n            self.to_be_bytes()\n        } else {\n            self.to_le_bytes()\n        };\n\n        index\n            .checked_mul(2)",
     "        let bytes = if !O::IS_ALTERNATE_ORDER {\n            self.to_le_bytes()\n        } else {\n            self.to_be_bytes()\n        };\n\n        index\n            .checked_mul(2)",
     []),
    ("size_hint: the local `size` inlined", "harmless", IT,
     "        let size = pixels_total.saturating_sub(self.index);\n\n        (size, Some(size))",
     "        (pixels_total.saturating_sub(self.index), Some(pixels_total.saturating_sub(self.index)))",
     []),
    ("nth: the new index through a local", "harmless", IT,
     "self.index = self.index.saturating_add(n);", "let i = self.index.saturating_add(n);\n        self.index = i;",
     []),
    # src/framebuffer.rs -> EG/Generated/FbSrc.lean, theorems of Props/C10/Generated.lean
    ("Framebuffer impl_bit! set_pixel: x and y swapped in the index", "mutation", FB,
     "let index = bytes_per_row * pixels_per_byte * y + x;", "let index = bytes_per_row * pixels_per_byte * x + y;",
     ["set_pixel_bits_src_eq_model"]),
    ("Framebuffer impl_bit! set_pixel: rows not padded to whole bytes", "mutation", FB,
     "let bytes_per_row = (bits_per_row + 7) / 8;", "let bytes_per_row = bits_per_row / 8;",
     ["set_pixel_bits_src_eq_model"]),
    ("Framebuffer RawU8 set_pixel: column-major index", "mutation", FB,
     "self.data[y * WIDTH + x] = c.into().into_inner();", "self.data[x * HEIGHT + y] = c.into().into_inner();",
     ["set_pixel_u8_src_eq_model"]),
    ("Framebuffer impl_bytes! set_pixel: row stride HEIGHT", "mutation", FB,
     "let index = (y * WIDTH + x) * BYTES_PER_PIXEL;", "let index = (y * HEIGHT + x) * BYTES_PER_PIXEL;",
     ["set_pixel_bytes_src_eq_model"]),
    ("Framebuffer impl_bytes!: little endian framebuffers store big endian", "mutation", FB,
     "impl_bytes!($raw_type, LittleEndianMsb0, to_le_bytes);", "impl_bytes!($raw_type, LittleEndianMsb0, to_be_bytes);",
     ["set_pixel_bytes_src_eq_model"]),
    ("buffer_size_bpp: `+ 7` -> `+ 8`", "mutation", FB,
     "(width * bpp + 7) / 8 * height", "(width * bpp + 8) / 8 * height",
     ["buffer_size_bpp_src_eq_model"]),
    ("Framebuffer::new fills with 1", "mutation", FB,
     "data: [0; N],", "data: [1; N],",
     ["Framebuffer_new_src_eq_model"]),
    ("Framebuffer: a function added (no translated body changes)", "mutation", FB,
     "    pub fn data_mut(&mut self) -> &mut [u8; N] {\n        &mut self.data\n    }\n",
     "    pub fn data_mut(&mut self) -> &mut [u8; N] {\n        &mut self.data\n    }\n\n    pub fn wipe(&mut self) {\n        self.data = [0; N];\n    }\n",
     ["fb_untranslated_pinned"]),
    ("Framebuffer impl_bit! set_pixel: local `pixels_per_byte` renamed", "harmless", FB,
     "                        let pixels_per_byte = 8 / C::Raw::BITS_PER_PIXEL;\n                        let bits_per_row = WIDTH * C::Raw::BITS_PER_PIXEL;\n                        let bytes_per_row = (bits_per_row + 7) / 8;\n\n                        // Each row starts at a byte boundary. The position of the pixel inside\n                        // the byte depends on the data order and is determined by `store`.\n                        let index = bytes_per_row * pixels_per_byte * y + x;",
     "                        let ppb = 8 / C::Raw::BITS_PER_PIXEL;\n                        let bits_per_row = WIDTH * C::Raw::BITS_PER_PIXEL;\n                        let bytes_per_row = (bits_per_row + 7) / 8;\n                        let index = bytes_per_row * ppb * y + x;",
     []),
    ("Framebuffer RawU8 set_pixel: the two `as usize` re-casts removed (x, y of `try_from` used)", "harmless", FB,
     "                let x = p.x as usize;\n                let y = p.y as usize;\n\n                self.data[y * WIDTH + x]",
     "                self.data[y * WIDTH + x]",
     []),
    ("Framebuffer RawU8 set_pixel: a method the translator does not know (`swap`)", "unknown", FB,
     "self.data[y * WIDTH + x] = c.into().into_inner();", "self.data.swap(0, 1);",
     []),
    ("bit_position: a `for` loop (outside the Rust subset)", "unknown", LS,
     "    (byte_index, bit_index)\n", "    for _k in 0..1 {}\n    (byte_index, bit_index)\n",
     []),
    ("RawU16 load: a method the prelude does not know (`wrapping_mul`)", "unknown", LS,
     "        index\n            .checked_mul(2)\n            .and_then(|start| buffer.get(start..))", "        index\n            .wrapping_mul(1)\n            .checked_mul(2)\n            .and_then(|start| buffer.get(start..))",
     []),
]


def run(cmd, **kw):
    p = subprocess.run(cmd, stdout=subprocess.PIPE, stderr=subprocess.STDOUT, text=True, **kw)
    return p.returncode, p.stdout


def list_theorems(path):
    out = []
    for i, line in enumerate(open(path).read().splitlines(), 1):
        m = re.match(r"\s*theorem\s+(\S+)", line)
        if m:
            out.append((m.group(1), i))
    return out


# seeded changes that touch a translated FILE but no function of the raw data layer: the proof tie cannot see them
SEEDS_OUT_OF_SCOPE = {
    "C12-r3-2": "changes the blanket `impl<C: PixelColor> ToBytes for C` (colour level, C12's topic), which is not translated",
}


def seed_cases():
    out = []
    sd = os.path.join(V, "seeded")
    for d in sorted(os.listdir(sd)):
        pf = os.path.join(sd, d, "patch.diff")
        if not os.path.exists(pf):
            continue
        txt = open(pf).read()
        if any(("+++ b/" + rel) in txt for rel in tr_rawsrc.FILES + [tr_rawsrc.FB_FILE]):
            out.append((f"seeded change {d}", "seed", pf, None, None, []))
    return out


def main():
    only = sys.argv[1:]
    cases = CASES
    if only and only[0] == "--seeds":
        only = only[1:]
        cases = seed_cases()
    rc, out = run(["lake", "build", "EG.Props.C11.Generated", "EG.Props.C10.Generated"], cwd=LEAN)
    if rc != 0:
        print("the unchanged tree does not build EG.Props.C11.Generated:\n" + out[-2000:])
        return 2
    rc, lean_path = run(["lake", "env", "printenv", "LEAN_PATH"], cwd=LEAN)
    lean_path = lean_path.strip().splitlines()[-1]
    tmp = tempfile.mkdtemp(prefix="rawdemo-")
    os.makedirs("/tmp/vw", exist_ok=True)
    scratch = f"/tmp/vw/rawgen-repo-{os.getpid()}"
    rc, out = run(["git", "-C", REPO, "worktree", "add", "--detach", scratch, "HEAD"])
    if rc != 0:
        print("cannot create the scratch worktree:", out)
        return 2
    theorems = list_theorems(PROPS)
    theorems_fb = list_theorems(PROPS_FB)
    bad = 0
    try:
        # baseline: the scratch copy translates to exactly the committed generated file
        files, info = tr_rawsrc.generate(scratch)
        baseline = files
        cur = open(os.path.join(LEAN, "EG", "Generated", "RawSrc.lean")).read()
        cur_fb = open(os.path.join(LEAN, "EG", "Generated", "FbSrc.lean")).read()
        print(f"baseline: {info.get('functions')} + {info.get('fb', {}).get('functions')} functions translated; identical to lean/EG/Generated/RawSrc.lean / FbSrc.lean: {files['RawSrc.lean'] == cur} / {files['FbSrc.lean'] == cur_fb}")
        for idx, (name, kind, rel, old, new, expect) in enumerate(cases):
            if only and not any(o in name for o in only):
                continue
            run(["git", "-C", scratch, "checkout", "-q", "--", "."])
            if kind == "seed":
                rca, outa = run(["git", "-C", scratch, "apply", rel])
                if rca != 0:
                    print(f"[{kind}] {name}: CANNOT APPLY the patch to /repo's HEAD ({outa.strip()[:120]})")
                    bad += 1
                    continue
            else:
                path = os.path.join(scratch, rel)
                src = open(path).read()
                if src.count(old) != 1:
                    print(f"[{kind}] {name}: CANNOT APPLY (the text to replace occurs {src.count(old)} times): demo out of date")
                    bad += 1
                    continue
                open(path, "w").write(src.replace(old, new))
            files, info = tr_rawsrc.generate(scratch)
            gen_dir = os.path.join(tmp, f"case{idx}")
            os.makedirs(os.path.join(gen_dir, "src", "EG", "Generated"))
            # overlay of the project's build output: everything symlinked except EG/Generated/RawSrc.*
            real = [d for d in lean_path.split(":") if os.path.isdir(os.path.join(d, "EG"))][0]
            os.makedirs(os.path.join(gen_dir, "lib", "EG", "Generated"))
            for e in os.listdir(os.path.join(real, "EG")):
                if e != "Generated":
                    os.symlink(os.path.join(real, "EG", e), os.path.join(gen_dir, "lib", "EG", e))
            for e in os.listdir(os.path.join(real, "EG", "Generated")):
                if not e.startswith("RawSrc.") and not e.startswith("FbSrc."):
                    os.symlink(os.path.join(real, "EG", "Generated", e), os.path.join(gen_dir, "lib", "EG", "Generated", e))
            raw_same = files["RawSrc.lean"] == baseline["RawSrc.lean"]
            fb_same = files["FbSrc.lean"] == baseline["FbSrc.lean"]
            failed = "failed" in info or "fb_failed" in info
            broken = set()
            env = dict(os.environ, LEAN_PATH=os.path.join(gen_dir, "lib") + ":" + lean_path)
            compiled = True
            for gname in ("RawSrc", "FbSrc"):
                open(os.path.join(gen_dir, "src", "EG", "Generated", gname + ".lean"), "w").write(files[gname + ".lean"])
                rc1, out1 = run(["lean", f"EG/Generated/{gname}.lean", "-o", os.path.join(gen_dir, "lib", "EG", "Generated", gname + ".olean"),
                                 "-i", os.path.join(gen_dir, "lib", "EG", "Generated", gname + ".ilean")], env=env, cwd=os.path.join(gen_dir, "src"))
                if rc1 != 0:
                    # FbSrc imports RawSrc: when RawSrc is a failure file FbSrc cannot compile either; that is C11's failure
                    if gname == "RawSrc" or raw_same:
                        broken.add(f"({gname}.lean does not compile: " + out1.strip().splitlines()[0][:160] + ")")
                    compiled = compiled and gname != "RawSrc"
                    if gname == "RawSrc":
                        break
            # C11's theorems against the regenerated RawSrc; C10's against the regenerated FbSrc when RawSrc is unchanged
            # (Props/C10/Generated.lean imports C11's compiled theorems, which are about the unchanged RawSrc)
            checks = []
            if compiled and not raw_same:
                checks.append((PROPS, theorems))
            if compiled and raw_same and not fb_same:
                checks.append((PROPS_FB, theorems_fb))
            for (pf, ths) in checks:
                rc2, out2 = run(["lean", pf], env=env, cwd=LEAN)
                for m in re.finditer(r":(\d+):\d+: error", out2):
                    ln = int(m.group(1))
                    nm = None
                    for (n, l) in ths:
                        if l <= ln:
                            nm = n
                    broken.add(nm or f"{os.path.basename(pf)} line {ln}")
            if kind == "mutation":
                ok = (not failed) and all(e in broken for e in expect)
            elif kind == "seed":
                ok = len(broken) > 0        # caught: a theorem broke (or the translator refused, which breaks all)
                oos = [r for k, r in SEEDS_OUT_OF_SCOPE.items() if name.endswith(" " + k)]
                if oos:
                    ok = not broken
                    name += f"\n      (out of scope, expected to survive: {oos[0]})"
            elif kind == "harmless":
                ok = (not failed) and not broken
            else:
                ok = failed and len(broken) > 0
            bad += 0 if ok else 1
            print(f"[{kind}] {name}")
            if failed:
                print(f"      translator: translationFailed = {info.get('failed') or info.get('fb_failed')}")
            print(f"      theorems that no longer build: {len(broken)}" + (": " + ", ".join(sorted(broken)[:8]) + (" ..." if len(broken) > 8 else "") if broken else " (all proofs survive)"))
            print(f"      {'as recorded' if ok else 'NOT AS RECORDED (expected ' + (', '.join(expect) if expect else kind) + ')'}")
    finally:
        run(["git", "-C", REPO, "worktree", "remove", "--force", scratch])
        shutil.rmtree(tmp, ignore_errors=True)
    print("demo:", "all cases as recorded" if bad == 0 else f"{bad} case(s) differ")
    return 0 if bad == 0 else 1


if __name__ == "__main__":
    sys.exit(main())
