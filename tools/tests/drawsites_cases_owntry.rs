// Second regression input for tools/tr_drawsites.py (see drawsites_cases.rs): a source tree that
// DEFINES a method named `try_for_each`. The classifier accepts a closure handed to `try_for_each` /
// `try_fold` only because the standard adaptors stop at the first `Err` and return it unchanged; when
// the scanned sources define a function of that name the exception is off and such sites are
// `unknown`. Compiles on its own (`rustc --crate-type lib --edition 2021`); validated against a
// fault-injecting target: `bad_own_try_for_each` makes a second call after the first one failed.
//
// expect-textual-count: 2
#![allow(dead_code, unused_variables, clippy::all)]

pub trait DrawTarget {
    type Error;
    fn fill_solid(&mut self, a: u32) -> Result<(), Self::Error>;
}

pub struct Twice;
impl Twice {
    pub fn try_for_each<E>(&self, mut f: impl FnMut(u32) -> Result<(), E>) -> Result<(), E> {
        let a = f(1);
        let b = f(2);
        a.and(b)
    }
}

// violates
// expect: unknown
pub fn bad_own_try_for_each<D: DrawTarget>(t: &mut D) -> Result<(), D::Error> {
    Twice.try_for_each(|i| t.fill_solid(i))
}

// the standard adaptor is not trusted either in such a tree (the scan cannot tell the receivers apart)
// expect: unknown
pub fn std_try_for_each_not_trusted_here<D: DrawTarget>(t: &mut D) -> Result<(), D::Error> {
    (0..3u32).try_for_each(|i| t.fill_solid(i))
}
