// Third regression input for tools/tr_drawsites.py (see drawsites_cases.rs for the conventions): the
// fourth statement audit's adversarial snippets — forms that swallow or defer the target's error and
// were classified as PROPAGATING before — each with benign twins that must stay propagating.
// Scanned as a source tree of its own.
//
// Validated against a fault-injecting target by tools/tests/drawsites_validate_audit4.rs (a program
// that includes this file as a module; how to run it is in its header): every function marked
// `violates` breaks the prefix law for some k (some value of `c`), every function whose sites are all
// expected to propagate obeys it for every k, and so do the functions marked `alarm` (forms that
// propagate in fact but that the scan refuses on purpose: its rules are syntactic and strict).
//
// expect-textual-count: 85
#![allow(dead_code, unused_variables, unused_must_use, unreachable_patterns, unused_macros, unused_mut, unused_assignments, unused_parens, clippy::all)]

pub trait DrawTarget {
    type Error;
    fn fill_solid(&mut self, a: u32) -> Result<(), Self::Error>;
    fn draw_iter<I: IntoIterator<Item = u32>>(&mut self, it: I) -> Result<(), Self::Error>;
}

// ---- 1. closures where a `|` was not taken for a closure head ------------------------------------------

pub struct Holder<F> {
    pub f: F,
}

// a closure as a struct-literal field (after `:`): its `?` only leaves the closure
// violates
// expect: discarded tail
pub fn bad_closure_struct_field<D: DrawTarget>(t: &mut D, c: bool) -> Result<(), D::Error> {
    let mut h = Holder { f: |t: &mut D, i: u32| { t.fill_solid(i)?; Ok::<(), D::Error>(()) } };
    let _ = (h.f)(t, 1);
    t.fill_solid(2)
}

// the same without braces, the error leaving the closure by `return Err(e)`
// violates
// expect: discarded tail
pub fn bad_closure_struct_field_braceless<D: DrawTarget>(t: &mut D, c: bool) -> Result<(), D::Error> {
    let mut h = Holder { f: |t: &mut D| match t.fill_solid(1) { Err(e) => return Err(e), Ok(()) => Ok(()) } };
    let _: Result<(), D::Error> = (h.f)(t);
    t.fill_solid(2)
}

// a closure after a label (`break 'a |..| ..`)
// violates
// expect: discarded tail
pub fn bad_closure_after_label<D: DrawTarget>(t: &mut D, c: bool) -> Result<(), D::Error> {
    let mut g = 'a: {
        break 'a |t: &mut D, i: u32| { t.fill_solid(i)?; Ok::<(), D::Error>(()) }
    };
    let _ = g(t, 1);
    t.fill_solid(2)
}

// a closure after a range operator (anything that is not the end of an operand starts a closure)
// violates
// expect: discarded tail
pub fn bad_closure_after_range_op<D: DrawTarget>(t: &mut D, c: bool) -> Result<(), D::Error> {
    let mut r = ..|t: &mut D| { t.fill_solid(1)?; Ok::<(), D::Error>(()) };
    let _ = (r.end)(t);
    t.fill_solid(2)
}

// control: `|` after the end of an operand (`)`, `]`, `?`, a word, a literal) is a binary or / an
// or-pattern, a struct-literal field that is no closure
// expect: q q q q q q q tail
pub fn ok_bars_after_operands<D: DrawTarget>(t: &mut D, c: bool) -> Result<(), D::Error> {
    let a = [1u32, 2];
    let z1 = (c as u32) | t.fill_solid(1).map(|_| 1u32)?;
    let z2 = a[0] | t.fill_solid(2).map(|_| 1u32)?;
    let z3 = t.fill_solid(3).map(|_| 1u32)? | t.fill_solid(4).map(|_| 1u32)?;
    match z1 { 1 | 2 => t.fill_solid(5)?, _ => {} }
    match 'x' { 'a' | 'b' => t.fill_solid(6)?, _ => {} }
    match "s" { "u" | "v" => t.fill_solid(7)?, _ => {} }
    let h = Holder { f: z2 | z3 };
    t.fill_solid(h.f)
}

// ---- 2. a bound result whose first use is a conditional / deferred `?` -----------------------------------

// `c && r? == ()`: with c false the `?` is never evaluated
// violates
// expect: discarded tail
pub fn bad_bound_short_circuit_and<D: DrawTarget>(t: &mut D, c: bool) -> Result<(), D::Error> {
    let r = t.fill_solid(1);
    let _b = c && r? == ();
    t.fill_solid(2)
}

// violates
// expect: discarded tail
pub fn bad_bound_short_circuit_or<D: DrawTarget>(t: &mut D, c: bool) -> Result<(), D::Error> {
    let r = t.fill_solid(1);
    let _b = c || r?.eq(&());
    t.fill_solid(2)
}

// violates
// expect: discarded tail
pub fn bad_bound_while_cond<D: DrawTarget>(t: &mut D, c: bool) -> Result<(), D::Error> {
    let r = t.fill_solid(1);
    while c && r? == () {
        break;
    }
    t.fill_solid(2)
}

// violates
// expect: discarded tail
pub fn bad_bound_if_cond<D: DrawTarget>(t: &mut D, c: bool) -> Result<(), D::Error> {
    let r = t.fill_solid(1);
    if c && r?.eq(&()) {}
    t.fill_solid(2)
}

// `x?` deferred into a closure that is never called
// violates
// expect: discarded tail
pub fn bad_bound_q_in_closure<D: DrawTarget>(t: &mut D, c: bool) -> Result<(), D::Error> {
    let r = t.fill_solid(1);
    let g = move || match r? { () => Ok::<(), D::Error>(()) };
    t.fill_solid(2)
}

// alarm: an unconditional `r?` that is not the first thing of its statement (propagates in fact)
// expect: discarded tail
pub fn alarm_bound_not_statement_initial<D: DrawTarget>(t: &mut D, c: bool) -> Result<(), D::Error> {
    let r = t.fill_solid(1);
    let _b = c & (r? == ());
    t.fill_solid(2)
}

// control: `x?` first in its statement, also after `let PATTERN =` / `let PATTERN: TYPE =`
// expect: bound_q bound_q bound_q bound_q
pub fn ok_bound_statement_initial<D: DrawTarget>(t: &mut D, c: bool) -> Result<(), D::Error> {
    let r = t.fill_solid(1);
    r?;
    let r = t.fill_solid(2);
    let _b = r? == () && c;
    let r3 = t.fill_solid(3);
    let _u: () = r3?;
    let last = t.fill_solid(4);
    last
}

// ---- 3. `match` whose arms before `Err(e) => return Err(e)` catch the `Err` ----------------------------

// violates
// expect: discarded tail
pub fn bad_match_ok_or_wildcard<D: DrawTarget>(t: &mut D, c: bool) -> Result<(), D::Error> {
    match t.fill_solid(1) {
        Ok(()) | _ => {}
        Err(e) => return Err(e),
    }
    t.fill_solid(2)
}

// violates
// expect: discarded tail
pub fn bad_match_ok_or_wildcard_value<D: DrawTarget>(t: &mut D, c: bool) -> Result<(), D::Error> {
    let v = match t.fill_solid(1) {
        Ok(_) | _ => 3,
        Err(e) => return Err(e),
    };
    t.fill_solid(v)
}

// `Err` under another name in an or-pattern
// violates
// expect: discarded tail
pub fn bad_match_err_alias<D: DrawTarget>(t: &mut D, c: bool) -> Result<(), D::Error> {
    use core::result::Result::Err as Bad;
    match t.fill_solid(1) {
        Ok(()) | Bad(_) => {}
        Err(e) => return Err(e),
    }
    t.fill_solid(2)
}

// alarm: a guard on an `Ok` arm cannot catch an `Err` (propagates in fact); the rule wants plain patterns
// expect: discarded tail
pub fn alarm_match_ok_guard<D: DrawTarget>(t: &mut D, c: bool) -> Result<(), D::Error> {
    match t.fill_solid(1) {
        Ok(()) if c => {}
        Err(e) => return Err(e),
        Ok(()) => {}
    }
    t.fill_solid(2)
}

// control: plain `Ok(..)` arms (alternatives INSIDE the parentheses are fine), anything after the Err arm
// expect: match_ret match_ret tail
pub fn ok_match_plain_ok_arms<D: DrawTarget>(t: &mut D, c: bool) -> Result<(), D::Error> {
    match t.fill_solid(1).map(|_| 1u8) {
        Ok(1 | 2) => {}
        Ok(_) => {}
        Err(e) => return Err(e),
    }
    match t.fill_solid(2) {
        Ok(()) => {}
        Err(e) => return Err(e),
        _ => {}
    }
    t.fill_solid(3)
}

// ---- 4. sites inside the arguments of a macro invocation ----------------------------------------------

// wraps its arguments in a closure whose result is dropped
macro_rules! attempt {
    ($($b:tt)*) => {
        let _ = (|| -> Result<(), D::Error> { $($b)*; Ok(()) })();
    };
}

// expands to its argument where it stands
macro_rules! pass {
    ($e:expr) => {
        $e
    };
}

// violates
// expect: unknown tail
pub fn bad_q_in_macro_args<D: DrawTarget>(t: &mut D, c: bool) -> Result<(), D::Error> {
    attempt!(t.fill_solid(1)?);
    t.fill_solid(2)
}

// violates
// expect: unknown tail
pub fn bad_q_in_macro_braces<D: DrawTarget>(t: &mut D, c: bool) -> Result<(), D::Error> {
    attempt! { t.fill_solid(1)? }
    t.fill_solid(2)
}

// violates
// expect: unknown tail
pub fn bad_return_in_macro_args<D: DrawTarget>(t: &mut D, c: bool) -> Result<(), D::Error> {
    attempt!(return t.fill_solid(1));
    t.fill_solid(2)
}

// violates
// expect: unknown tail
pub fn bad_match_ret_in_macro_args<D: DrawTarget>(t: &mut D, c: bool) -> Result<(), D::Error> {
    attempt!(if let Err(e) = t.fill_solid(1) { return Err(e); });
    t.fill_solid(2)
}

// violates
// expect: unknown tail
pub fn bad_std_macro_args<D: DrawTarget>(t: &mut D, c: bool) -> Result<(), D::Error> {
    let _seen = matches!(t.fill_solid(1), Ok(()));
    t.fill_solid(2)
}

// alarm: this macro is transparent (propagates in fact); the scan does not read macro definitions
// expect: unknown unknown
pub fn alarm_transparent_macro<D: DrawTarget>(t: &mut D, c: bool) -> Result<(), D::Error> {
    pass!(t.fill_solid(1))?;
    pass!(t.fill_solid(2))
}

// control: `!(` after a keyword is a negation, a macro invocation NEXT to a site does not touch it
// expect: q q tail
pub fn ok_negation_and_macro_nearby<D: DrawTarget>(t: &mut D, c: bool) -> Result<(), D::Error> {
    if !(t.fill_solid(1)? == ()) {
        return Ok(());
    }
    debug_assert!(c || !c);
    let v = vec![1u32, 2];
    t.fill_solid(v[0])?;
    t.fill_solid(v[1])
}

// ---- 5. a call as the value of a `break` -----------------------------------------------------------------

// the loop's value is dropped (the form was seen as bound_q of `x`)
// violates
// expect: unknown tail
pub fn bad_break_value<D: DrawTarget>(t: &mut D, c: bool) -> Result<(), D::Error> {
    let _ = loop {
        let x: Result<(), D::Error> = if c { break t.fill_solid(1) } else { Ok(()) };
        x?;
        break Ok(());
    };
    t.fill_solid(2)
}

// violates
// expect: unknown tail
pub fn bad_break_label_value<D: DrawTarget>(t: &mut D, c: bool) -> Result<(), D::Error> {
    let _ = 'a: {
        if c {
            break 'a t.fill_solid(1);
        }
        Ok(())
    };
    t.fill_solid(2)
}

// violates
// expect: unknown unknown tail
pub fn bad_break_in_arms<D: DrawTarget>(t: &mut D, c: bool) -> Result<(), D::Error> {
    let _ = loop {
        match c {
            true => break t.fill_solid(1),
            false => break if c { Ok(()) } else { t.fill_solid(3) },
        }
    };
    t.fill_solid(2)
}

// alarm: the loop's value is bound and `?`-ed at once (propagates in fact); a loop's value is not followed
// expect: unknown tail
pub fn alarm_break_value_then_q<D: DrawTarget>(t: &mut D, c: bool) -> Result<(), D::Error> {
    let r = loop {
        break t.fill_solid(1);
    };
    r?;
    t.fill_solid(2)
}

// control: `break <call>?` (the `?` comes first), plain `break` next to sites
// expect: q q tail
pub fn ok_breaks<D: DrawTarget>(t: &mut D, c: bool) -> Result<(), D::Error> {
    let _unit: () = loop {
        break t.fill_solid(1)?;
    };
    loop {
        t.fill_solid(2)?;
        if c {
            break;
        }
        break;
    }
    t.fill_solid(3)
}

// ---- 6. generic arguments with nested angle brackets (`NAME::<A<B>>(` was seen by NEITHER scan) -----------

// violates
// expect: discarded discarded tail
pub fn bad_nested_turbofish<D: DrawTarget>(t: &mut D, c: bool) -> Result<(), D::Error> {
    t.draw_iter::<Vec<u32>>(vec![7]).ok();
    let _ = t.draw_iter::<core::iter::Take<core::iter::Skip<core::iter::Repeat<u32>>>>(core::iter::repeat(1).skip(1).take(1));
    t.fill_solid(2)
}

// control
// expect: q tryclosure tail
pub fn ok_nested_turbofish<D: DrawTarget>(t: &mut D, c: bool) -> Result<(), D::Error> {
    t.draw_iter::<Vec<u32>>(vec![7])?;
    (0..2u32).try_for_each::<_, Result<(), D::Error>>(|i| t.fill_solid(i))?;
    t.draw_iter :: < core::iter::Take<core::iter::Repeat<u32>> > (core::iter::repeat(1).take(1))
}

// ---- 7. a `->` inside the parameter list / the generic bounds (such a fn was not an error-returning one) ----

// expect: tail
pub fn helper_with_fn_param<D: DrawTarget>(t: &mut D, f: impl Fn(u32) -> u32) -> Result<(), D::Error> {
    t.fill_solid(f(1))
}

// expect: tail
pub fn helper_with_fn_bound<D: DrawTarget, F: Fn(u32) -> u32>(t: &mut D, f: F) -> Result<(), D::Error> {
    t.fill_solid(f(1))
}

// violates
// expect: discarded discarded tail
pub fn bad_drops_helpers<D: DrawTarget>(t: &mut D, c: bool) -> Result<(), D::Error> {
    let _ = helper_with_fn_param(t, |x| x);
    helper_with_fn_bound(t, |x| x + 1).ok();
    t.fill_solid(4)
}

// control
// expect: q tail
pub fn ok_uses_helpers<D: DrawTarget>(t: &mut D, c: bool) -> Result<(), D::Error> {
    helper_with_fn_param(t, |x| x)?;
    helper_with_fn_bound(t, |x| x + 1)
}

// ---- 8. `async` blocks: `?` leaves only the block -----------------------------------------------------

pub fn poll_once<F: core::future::Future>(f: F) -> F::Output {
    let mut f = core::pin::pin!(f);
    let mut cx = core::task::Context::from_waker(core::task::Waker::noop());
    match f.as_mut().poll(&mut cx) {
        core::task::Poll::Ready(v) => v,
        core::task::Poll::Pending => panic!("pending"),
    }
}

// violates
// expect: unknown tail
pub fn bad_q_in_async_block<D: DrawTarget>(t: &mut D, c: bool) -> Result<(), D::Error> {
    let _ = poll_once(async {
        t.fill_solid(1)?;
        Ok::<(), D::Error>(())
    });
    t.fill_solid(2)
}
